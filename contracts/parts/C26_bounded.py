"""C26 bounded tier: static files and FilePath never escape their directory.

Setting.  A throw-away directory tree is built once per process on the real
filesystem (no symbolic links anywhere in it):

    BASE/
      root/                 <- "the directory" (FilePath parent / served by static.File)
        a.txt  .hidden  root/in.txt  sub/index.html  sub/b.txt  sub/deep/c.txt  empty/
      rootx/                <- sibling directory whose name has the root's name as a prefix
        secret.txt  <a file whose *name* never appears in any request>
      root.bak  root.txt    <- sibling files sharing the prefix (targets for extension search)
      outside.txt  other/secret.txt

Every file inside root/ starts with b"INSIDE:", every file outside with
b"OUTSIDE-SECRET:".

Oracles (all written from the property statement, none from twisted's code):

 * lexical containment: POSIX pathname resolution without symlinks, implemented
   here by `_components` ('' and '.' are skipped, '..' removes one component and
   is a no-op at '/').  "The parent itself or directly inside it" means the
   component list of the result equals the parent's, or the parent's plus one
   component; "inside the subtree" means the parent's components are a prefix
   of the result's components.
 * the filesystem's own opinion: when the returned path exists, the kernel must
   resolve it to the same (st_dev, st_ino) as one of the objects known to be
   inside the parent (direct entries for child; the whole subtree for
   preauthChild / descendant).  This catches anything the lexical reading would
   get wrong (NUL, backslash, odd bytes).
 * for the web resource: a real Site(File(root)) is driven through a real
   HTTPChannel over a StringTransport with a complete request; (a) a
   sys.addaudithook observer records every path passed to open()/os.open(),
   os.listdir() and os.scandir() while the request is processed - any of them
   that the kernel places inside BASE but outside BASE/root is a file "served"
   (or listed) from outside the directory tree; (b) the bytes of the response
   must not contain the contents of any outside file nor the name of the
   outside file that no request ever mentions (a directory listing leak).

What is NOT demanded: which status code is returned, whether a hostile name is
rejected or mapped to some (inside) path, how names are normalised, or that
any particular inside file is served.
"""
from __future__ import annotations

import atexit
import itertools
import os
import shutil
import sys
import tempfile

from twisted.internet import address
from twisted.internet.testing import StringTransport
from twisted.python.filepath import FilePath, InsecurePath
from twisted.web import server, static

from pyvc.api import Bounded

IN = b"INSIDE:"
OUT = b"OUTSIDE-SECRET:"
UNLISTED = "zq-unmentioned-7f3a91"      # name of an outside file that no request / name ever contains

# --------------------------------------------------------------------------
# the tree


class _Tree:
    def __init__(self):
        base = os.path.realpath(tempfile.mkdtemp(prefix="c26-"))
        self.base = base
        self.root = os.path.join(base, "root")
        inside = {
            "a.txt": b"a", ".hidden": b"hidden", "root/in.txt": b"in", "sub/index.html": b"subindex",
            "sub/b.txt": b"b", "sub/deep/c.txt": b"c",
        }
        outside = {
            "rootx/secret.txt": b"1", "rootx/" + UNLISTED: b"2", "root.bak": b"3", "root.txt": b"4",
            "outside.txt": b"5", "other/secret.txt": b"6", "a.txt": b"7", "sub/b.txt": b"8",
        }
        for rel, tag in inside.items():
            self._put(os.path.join(self.root, rel), IN + tag)
        os.makedirs(os.path.join(self.root, "empty"))
        for rel, tag in outside.items():
            self._put(os.path.join(base, rel), OUT + tag)
        # identities (dev, ino) of everything inside root, by depth
        self.root_id = self._id(self.root)
        self.direct_ids = {self.root_id}
        self.subtree_ids = {self.root_id}
        for dirpath, dirs, files in os.walk(self.root):
            for n in dirs + files:
                i = self._id(os.path.join(dirpath, n))
                self.subtree_ids.add(i)
                if dirpath == self.root:
                    self.direct_ids.add(i)
        self.ids_below = {}     # path of an inside directory -> (direct ids, subtree ids)

    @staticmethod
    def _put(path, content):
        os.makedirs(os.path.dirname(path), exist_ok=True)
        with open(path, "wb") as f:
            f.write(content)

    @staticmethod
    def _id(path):
        st = os.stat(path)
        return (st.st_dev, st.st_ino)

    def ids_for(self, parent):
        """(identity of parent, identities of parent + direct entries, identities of the subtree),
        computed by listing the real directory."""
        if parent not in self.ids_below:
            me = self._id(parent)
            direct, sub = {me}, {me}
            if parent == "/":
                # the whole filesystem is the subtree; not enumerated
                for n in os.listdir("/"):
                    try:
                        direct.add(self._id("/" + n))
                    except OSError:
                        pass
                sub = None
            else:
                for dirpath, dirs, files in os.walk(parent):
                    for n in dirs + files:
                        i = self._id(os.path.join(dirpath, n))
                        sub.add(i)
                        if dirpath == parent:
                            direct.add(i)
            self.ids_below[parent] = (me, direct, sub)
        return self.ids_below[parent]


_TREE = None


def tree():
    global _TREE
    if _TREE is None:
        _TREE = _Tree()
        atexit.register(shutil.rmtree, _TREE.base, True)
    return _TREE


# --------------------------------------------------------------------------
# lexical reference: POSIX pathname resolution without symlinks


def _b(p):
    return p if isinstance(p, bytes) else os.fsencode(p)


def _components(path):
    """Component list of an absolute POSIX path as the kernel walks it when no
    component is a symlink: empty components and '.' do nothing, '..' goes up
    (and stays at the root)."""
    p = _b(path)
    if not p.startswith(b"/"):
        p = _b(os.getcwd()) + b"/" + p
    out = []
    for c in p.split(b"/"):
        if c in (b"", b"."):
            continue
        if c == b"..":
            if out:
                out.pop()
            continue
        out.append(c)
    return out


def _judge(result_path, parent_path, direct_only, ids):
    """None if result_path is acceptable for parent_path, else a description."""
    rc, pc = _components(result_path), _components(parent_path)
    if rc[:len(pc)] != pc:
        shared = bool(rc) and bool(pc) and len(rc) >= len(pc) and rc[:len(pc) - 1] == pc[:-1] \
            and rc[len(pc) - 1].startswith(pc[-1])
        return "returned %r which is outside %r%s" % (
            result_path, parent_path, " (a sibling whose name merely starts with the parent's name)" if shared else "")
    if direct_only and len(rc) > len(pc) + 1:
        return "returned %r which is %d levels below %r, not a direct child" % (result_path, len(rc) - len(pc), parent_path)
    # the filesystem's opinion, when the path exists and can be asked about at all
    me, direct, sub = ids
    rb = _b(result_path)
    if b"\x00" not in rb:
        try:
            st = os.stat(rb)
        except OSError:
            st = None
        if st is not None:
            ident = (st.st_dev, st.st_ino)
            allowed = direct if direct_only else sub
            if allowed is not None and ident not in allowed:
                return "returned %r which the filesystem resolves to an object that is not %s %r" % (
                    result_path, "the parent or a direct entry of" if direct_only else "inside", parent_path)
    return None


# --------------------------------------------------------------------------
# FilePath

# name fragments; {B} is replaced by the BASE directory
_FRAGS_QUICK = ["/", "\\", ".", "..", "a", "sub", "root", "rootx", "\x00", "%2e", "%2f", "\udcff", " ", "~", ":",
                "{B}"]
_EXTRA_NAMES = [
    "", "{B}/rootx", "{B}/rootx/secret.txt", "{B}/root", "{B}/root/", "{B}/root/sub", "{B}/root/../rootx", "{B}/root.bak",
    "../root.bak", "../root.txt", "../rootx", "../rootx/", "../rootx/secret.txt", "../root", "../root/", "../root/a.txt",
    "../root/../rootx", "sub/../../rootx", "sub/../../rootx/secret.txt", "sub/..", "sub/../..", "sub/../a.txt",
    "./../rootx", ".//..//rootx", "..//rootx", "../rootx/../outside.txt", "../../" , "../outside.txt",
    "/etc/passwd", "//etc/passwd", "/", "//", "///", "/..", "/.", "~root", "~/x", "$HOME", "a.txt/", "a.txt/.",
    "a.txt/..", "sub/", "sub/.", "sub//deep", "sub/deep/c.txt", "sub/deep/../../..", "sub/deep/../../../rootx",
    "..\\rootx", "..\\..\\", "\\..\\rootx", "C:\\x", "C:x", "..\x00", "..\x00/rootx", "\x00/../../rootx", "../rootx\x00",
    "..%2frootx", "%2e%2e/rootx", "%2e%2e%2frootx", "\udcff/../../rootx", "..\udcff", "...", "....", ".../rootx",
    ". .", ".. ", " ..", ".. /rootx", "\u00e9", "\u00e9/../../rootx", "\u2215..\u2215rootx", "\uff0e\uff0e/rootx",
    "x" * 300, ("../" * 40) + "etc/passwd", ("../" * 40), "a/" * 50 + "../" * 51 + "rootx",
]

# parents: (how the FilePath is constructed, the directory it denotes); {B} as above
_PARENTS = [
    ("{B}/root", "{B}/root"),
    ("{B}/root/", "{B}/root"),
    ("{B}/root/sub", "{B}/root/sub"),
    ("{B}/root/root", "{B}/root/root"),
    ("{B}/rootx/../root", "{B}/root"),
    ("/", "/"),
]


def _subst(s, base):
    return s.replace("{B}", base)


def _typed(s, as_bytes):
    return os.fsencode(s) if as_bytes else s


def _names(tier, rng, base_placeholder="{B}"):
    seen = set()

    def emit(n):
        if n not in seen:
            seen.add(n)
            return True
        return False

    for n in _EXTRA_NAMES:
        if emit(n):
            yield n
    k_max = 3 if tier == "quick" else 4
    for k in range(1, k_max + 1):
        for t in itertools.product(_FRAGS_QUICK, repeat=k):
            n = "".join(t)
            if emit(n):
                yield n
    if tier != "quick":
        frags = _FRAGS_QUICK + ["../", "/..", "rootx/secret.txt", "root.bak", "a.txt", "deep", "//", "/./"]
        for _ in range(60000):
            n = "".join(rng.choice(frags) for _ in range(rng.randint(5, 12)))
            if emit(n):
                yield n


class _FilePathBase(Bounded):
    prop = "C26"

    def _parent(self, pidx, parent_bytes):
        t = tree()
        ctor, denotes = _PARENTS[pidx]
        ctor, denotes = _subst(ctor, t.base), _subst(denotes, t.base)
        fp = FilePath(_typed(ctor, parent_bytes))
        return fp, denotes, t.ids_for(denotes)

    def _call(self, what, fp, arg):
        """Returns ('ok', path) / ('insecure',) / ('error', text)."""
        try:
            r = getattr(fp, what)(arg)
        except InsecurePath:
            return ("insecure",)
        except Exception as e:      # the statement allows a result or InsecurePath, nothing else
            return ("error", "%s: %s" % (type(e).__name__, e))
        if not isinstance(r, FilePath):
            return ("error", "returned %r, not a FilePath" % (r,))
        return ("ok", r.path)


class ChildContainment(_FilePathBase):
    title = ("FilePath.child(name) / FilePath.descendant(segments) on a real directory tree: the result is the parent "
             "or directly inside it (child), inside its subtree (descendant), or InsecurePath - judged by an "
             "independent POSIX path walk and by the filesystem's own inode identity")
    scope = ("parents: root, root with trailing slash, root/sub, root/root (same name nested), a non-normalised "
             "spelling of root, and '/'; bytes and str parents x bytes and str names; names = every concatenation of "
             "<= 3 (thorough 4, + 60000 seeded random of 5..12) fragments from {/ \\ . .. a sub root rootx NUL %2e %2f "
             "non-UTF-8 byte, space ~ : <absolute BASE>} plus ~75 crafted traversal names (prefix-sharing siblings "
             "rootx / root.bak, absolute paths, 40-deep ../, fullwidth dots, long names); descendant: every sequence "
             "of <= 3 segments from 20 hostile segments (quick: <= 2 for the non-primary parents)")
    functions = ["FilePath.child", "AbstractFilePath.descendant", "FilePath.clonePath", "FilePath._getPathAsSameTypeAs"]

    _SEGS = ["", ".", "..", "a.txt", "sub", "deep", "root", "rootx", "root.bak", "/", "../rootx", "sub/..", "\\",
             "..\\rootx", "\x00", "{B}/rootx", "/etc", "...", ".. ", "%2e%2e"]

    def cases(self, tier, rng):
        for name in _names(tier, rng):
            for pidx in range(len(_PARENTS)):
                for pb, nb in ((False, False), (True, True), (False, True), (True, False)):
                    if pidx not in (0, 5) and pb != nb and len(name) > 12:
                        continue
                    yield ("child", pidx, pb, nb, name)
        for pidx in range(len(_PARENTS)):
            depth = 3 if (tier != "quick" or pidx == 0) else 2
            for k in range(0, depth + 1):
                for segs in itertools.product(self._SEGS, repeat=k):
                    for pb, nb in ((False, False), (True, True)) if pidx else ((False, False), (True, True), (False, True), (True, False)):
                        yield ("descendant", pidx, pb, nb, segs)

    def nontrivial(self, case):
        a = case[4]
        s = a if isinstance(a, str) else "/".join(a)
        return ".." in s or "/" in s or "\\" in s or "\x00" in s

    def check(self, case):
        what, pidx, pb, nb, arg = case
        t = tree()
        fp, denotes, ids = self._parent(pidx, pb)
        if what == "child":
            a = _typed(_subst(arg, t.base), nb)
        else:
            a = [_typed(_subst(s, t.base), nb) for s in arg]
        r = self._call(what, fp, a)
        if r[0] == "insecure":
            return None
        if r[0] == "error":
            return "%s(%r) on %r raised/returned something other than a FilePath or InsecurePath: %s" % (what, a, fp.path, r[1])
        bad = _judge(r[1], denotes, what == "child", ids)
        if bad:
            return "%s(%r) on FilePath(%r) %s" % (what, a, fp.path, bad)
        return None


class PreauthChildContainment(_FilePathBase):
    title = ("FilePath.preauthChild(path) on a real directory tree: the result lies inside the parent's subtree or "
             "InsecurePath is raised - judged by an independent POSIX path walk and by inode identity")
    scope = ("same parents, types and name set as ChildContainment (every concatenation of <= 3 / thorough 4 hostile "
             "fragments, ~75 crafted traversal names incl. prefix-sharing siblings rootx, root.bak, root.txt, absolute "
             "paths into the sibling, + seeded random in thorough)")
    functions = ["FilePath.preauthChild", "FilePath.clonePath", "FilePath._getPathAsSameTypeAs"]

    def cases(self, tier, rng):
        for name in _names(tier, rng):
            for pidx in range(len(_PARENTS)):
                for pb, nb in ((False, False), (True, True), (False, True), (True, False)):
                    if pidx not in (0, 5) and pb != nb and len(name) > 12:
                        continue
                    yield ("preauthChild", pidx, pb, nb, name)

    def nontrivial(self, case):
        s = case[4]
        return ".." in s or "/" in s or "\\" in s or "\x00" in s

    def check(self, case):
        what, pidx, pb, nb, arg = case
        t = tree()
        fp, denotes, ids = self._parent(pidx, pb)
        a = _typed(_subst(arg, t.base), nb)
        r = self._call(what, fp, a)
        if r[0] == "insecure":
            return None
        if r[0] == "error":
            return "%s(%r) on %r raised/returned something other than a FilePath or InsecurePath: %s" % (what, a, fp.path, r[1])
        bad = _judge(r[1], denotes, False, ids)
        if bad:
            return "%s(%r) on FilePath(%r) %s" % (what, a, fp.path, bad)
        return None


# --------------------------------------------------------------------------
# the web resource

_WATCH = None           # list collecting (event, path) while a request is processed
_HOOKED = False


def _audit(event, args):
    w = _WATCH
    if w is None:
        return
    if event == "open" or event == "os.listdir" or event == "os.scandir":
        p = args[0] if args else None
        if isinstance(p, (str, bytes)):
            w.append((event, p))
        elif p is None and event != "open":
            w.append((event, "."))


def _ensure_hook():
    global _HOOKED
    if not _HOOKED:
        sys.addaudithook(_audit)
        _HOOKED = True


_CONFIGS = [
    (),                                  # plain File(root)
    (".bak", ".txt", "x", "x/secret.txt", "/../rootx/secret.txt"),   # ignoreExt: sibling extension search
    ("*",),                              # the magic "any extension" search (lists the directory)
]

_DOTDOT = ["..", "%2e%2e", ".%2E", "%2e.", "..%00", "%00..", "...", "..%20", "%c0%ae%c0%ae", "%ff..", "%252e%252e",
           "..;", ".%00."]
_SEP = ["/", "%2f", "%2F", "\\", "%5c", "%252f", "//", "/./", "%c0%af", "%2f%2f", "/%2f"]
_TARGETS = [["rootx", "secret.txt"], ["rootx"], ["rootx", ""], ["root.bak"], ["root"], ["root", "a.txt"], ["outside.txt"],
            ["root", "..", "rootx", "secret.txt"], ["other", "secret.txt"], ["a.txt"], ["sub", "b.txt"], []]
_PREFIX = ["", "sub/", "sub/deep/", "a.txt/", "nonexistent/", "sub%2f", "empty/", "./", "root/"]

_TOKENS = ["/", "\\", ".", "..", "%2e", "%2f", "%5c", "%00", "%ff", "a.txt", "sub", "rootx", "root", "secret.txt",
           "%25", "?", "\xff", "\x00"]


def _targets():
    """Crafted request targets (str, latin-1 transparently mapped to bytes)."""
    seen = set()

    def emit(s):
        if s not in seen:
            seen.add(s)
            return True
        return False

    base = "{B}"
    fixed = [
        "/", "", "*", "/a.txt", "/sub", "/sub/", "/sub/b.txt", "/sub/deep/c.txt", "/.hidden", "/empty/", "/root/in.txt",
        "/nonexistent", "/a", "/a.", "/root", "/sub/index", "/.", "/./", "/..", "/../", "//", "///",
        "rootx/secret.txt", "../rootx/secret.txt", "x../rootx/secret.txt", "http://h/../rootx/secret.txt",
        "http://h/%2e%2e%2frootx%2fsecret.txt", "//h/../rootx/secret.txt",
        "/" + base + "/rootx/secret.txt", "//" + base + "/rootx/secret.txt", "/%2f" + base.replace("/", "%2f") + "%2frootx%2fsecret.txt",
        "/" + base.replace("/", "%2f") + "%2frootx%2fsecret.txt", "/%2fetc%2fpasswd", "//etc/passwd", "/%2f/etc/passwd",
        "/..%2f..%2f..%2f..%2f..%2f..%2f..%2f..%2f..%2f..%2fetc%2fpasswd", "/" + "../" * 30 + "etc/passwd",
        "/%7e", "/~root", "/%7eroot/", "/a.txt%00.bak", "/%00", "/a.txt/../../rootx/secret.txt",
        "/?/../rootx/secret.txt", "/a.txt?../rootx/secret.txt", "/a.txt#/../rootx", "/;/../rootx/secret.txt",
        "/sub/..%2f..%2frootx%2f", "/sub/../..", "/sub/..%2f..", "/sub/%2e%2e/%2e%2e/rootx/",
        "/%2e%2e%5crootx%5csecret.txt", "/..\\rootx\\secret.txt", "/..%c0%afrootx%c0%afsecret.txt",
        "/%ef%bc%8e%ef%bc%8e/rootx/secret.txt", "/..%e2%88%95rootx", "/%u002e%u002e/rootx",
    ]
    for s in fixed:
        if emit(s):
            yield s
    for pre in _PREFIX:
        ups_needed = pre.count("/") + 1
        for dd in _DOTDOT:
            for sep in _SEP:
                for tgt in _TARGETS:
                    for n_up in (ups_needed, ups_needed + 1) if pre else (1, 2):
                        s = "/" + pre + (dd + sep) * n_up + sep.join(tgt)
                        if emit(s):
                            yield s
                    # also with the conventional '/' between '..' groups but the odd separator in the tail
                    s = "/" + pre + (dd + "/") * ups_needed + sep.join(tgt)
                    if emit(s):
                        yield s
    # no '..' at all: names that would only work through prefix confusion or extension search
    for pre in ("", "sub/", "root/"):
        for sep in _SEP:
            for tail in ("x" + sep + "secret.txt", "x", ".bak", "x" + sep, sep + "rootx", "." + sep + "rootx"):
                s = "/" + pre + tail
                if emit(s):
                    yield s


class StaticFileServes(Bounded):
    prop = "C26"
    title = ("complete HTTP requests with hostile targets against Site(static.File(root)) over a real HTTPChannel: "
             "every path opened/listed while serving lies inside root (audit-hook observation judged by the kernel's "
             "realpath), and the response carries no outside file content and no outside directory entry")
    scope = ("request targets: ~60 fixed (absolute-URI, no leading slash, absolute filesystem path plain and %2f-encoded, "
             "double slash, NUL, ?, ;, overlong/fullwidth encodings) + the product of 9 prefixes x 13 spellings of '..' "
             "x 11 spellings of the separator x 12 targets (prefix-sharing sibling dir rootx, sibling files root.bak / "
             "root.txt, outside.txt, back into root) x 1-2 extra levels up + every concatenation of <= 3 (thorough 4) "
             "tokens from {/ \\ . .. %2e %2f %5c %00 %ff a.txt sub rootx root secret.txt %25 ? raw-0xFF raw-NUL}; "
             "File configured plain, with ignoreExt('.bak','.txt','x','x/secret.txt','/../rootx/secret.txt') and with "
             "ignoreExt('*') (quick: token products against the plain config and length-<=2 against the others); "
             "GET over HTTP/1.0, thorough adds HEAD and HTTP/1.1 and seeded random targets of 5..10 tokens")
    functions = ["Request.process", "Site.getResourceFor", "getChildForRequest", "File.getChild", "File.render_GET",
                 "File.openForReading", "File.directoryListing", "DirectoryLister.render", "FilePath.child",
                 "FilePath.siblingExtensionSearch", "FilePath.childSearchPreauth"]

    def __init__(self):
        self._sites = {}
        self._served = set()

    def cases(self, tier, rng):
        quick = tier == "quick"
        crafted = list(_targets())
        for cfg in range(len(_CONFIGS)):
            for s in crafted:
                yield (cfg, "GET", "1.0", s)
        for cfg in range(len(_CONFIGS)):
            k_max = (3 if cfg == 0 else 2) if quick else (4 if cfg == 0 else 3)
            for k in range(1, k_max + 1):
                for t in itertools.product(_TOKENS, repeat=k):
                    yield (cfg, "GET", "1.0", "/" + "".join(t))
        if not quick:
            for cfg in range(len(_CONFIGS)):
                for s in crafted:
                    yield (cfg, "HEAD", "1.0", s)
                    yield (cfg, "GET", "1.1", s)
            toks = _TOKENS + ["../", "..%2f", "%2e%2e/", "rootx/secret.txt", "root.bak", "sub/", "sub/deep/", "//"]
            for _ in range(40000):
                s = "/" + "".join(rng.choice(toks) for _ in range(rng.randint(5, 10)))
                yield (rng.randrange(len(_CONFIGS)), "GET", "1.0", s)

    def nontrivial(self, case):
        # requests during which the resource really opened or listed something in the tree
        return case in self._served

    def _site(self, cfg):
        if cfg not in self._sites:
            t = tree()
            f = static.File(t.root, ignoredExts=_CONFIGS[cfg])
            site = server.Site(f)
            site.timeOut = None
            self._sites[cfg] = site
        return self._sites[cfg]

    def check(self, case):
        global _WATCH
        cfg, method, ver, target = case
        t = tree()
        _ensure_hook()
        site = self._site(cfg)
        line = ("%s %s HTTP/%s\r\n" % (method, target.replace("{B}", t.base), ver)).encode("latin-1")
        req = line + b"Host: h\r\nConnection: close\r\n\r\n"
        tr = StringTransport(hostAddress=address.IPv4Address("TCP", "127.0.0.1", 80),
                             peerAddress=address.IPv4Address("TCP", "127.0.0.1", 40000))
        proto = site.buildProtocol(tr.getPeer())
        seen = []
        quiet = _Quiet()
        quiet.on()
        _WATCH = seen
        try:
            proto.makeConnection(tr)
            proto.dataReceived(req)
            # the file body is sent by a pull producer which the channel drives from the global
            # Cooperator, i.e. from timed calls of the (not running) global reactor: run those calls
            # until the response is complete
            for _ in range(200):
                if tr.producer is None or tr.disconnecting:
                    break
                _reactor().runUntilCurrent()
            out = tr.value()
            try:
                proto.connectionLost(_DONE)
            except Exception:
                pass
        finally:
            _WATCH = None
            quiet.off()
        problems = []
        inside_touch = False
        for event, p in seen:
            pb = _b(p)
            if b"\x00" in pb:
                continue
            real = _components(os.path.realpath(pb))
            bc, rc = _components(t.base), _components(t.root)
            if real[:len(bc)] != bc:
                continue            # interpreter / library files, not part of the experiment
            if real[:len(rc)] == rc:
                inside_touch = True
                continue
            problems.append("%s(%r) -> %r is outside the served directory %r" % (event, p, os.path.realpath(pb), t.root))
        if inside_touch:
            self._served.add(case)
        if OUT in out:
            i = out.index(OUT)
            problems.append("response contains outside file content %r" % out[i:i + len(OUT) + 1])
        if UNLISTED.encode() in out:
            problems.append("response lists the outside directory entry %r" % UNLISTED)
        if problems:
            return "request %r (ignoredExts=%r): %s; response starts %r" % (line, _CONFIGS[cfg], "; ".join(problems[:3]), out[:80])
        return None


from twisted.internet import error as _error        # noqa: E402
from twisted.python import failure as _failure     # noqa: E402

_DONE = _failure.Failure(_error.ConnectionDone())


class _Quiet:
    """Before logging is started twisted prints logged failures (undecodable segment, failed request) to
    stderr; keep the run silent without starting the global log system."""

    def on(self):
        self._pub = self._tmp = None
        try:
            from twisted.logger import globalLogBeginner, globalLogPublisher
            tmp = getattr(globalLogBeginner, "_temporaryObserver", None)
            if tmp is not None and tmp in getattr(globalLogPublisher, "_observers", ()):
                globalLogPublisher.removeObserver(tmp)
                self._pub, self._tmp = globalLogPublisher, tmp
        except Exception:
            self._pub = None

    def off(self):
        if self._pub is not None and self._tmp is not None:
            try:
                self._pub.addObserver(self._tmp)
            except Exception:
                pass


def _reactor():
    from twisted.internet import reactor
    return reactor


BOUNDED = [ChildContainment, PreauthChildContainment, StaticFileServes]
