"""C57 bounded tier: log publisher fan-out, level filter by dotted namespace,
limited-history replay (twisted.logger._observer / _filter / _buffer).

Oracles (all written from the property statement and the documented API, none
from the implementation):

Publisher.  Observers are harness objects that journal every call in one global
list.  An *original* event carries a harness key ``c57_id``; anything else an
observer receives is looked at only to see whether it *identifies* a failure: it
must mention (as a value of the event) the observer object that raised and the
exception instance that was raised (directly or wrapped in a Failure).  Demanded:
  * publishing never raises (the raising observers raise Exception subclasses);
  * the journal of original deliveries is exactly: for each published event in
    order, each registered observer once, in registration order;
  * for every exception an observer X raised while receiving an original event,
    every other registered observer receives at least one event identifying
    (X, that exception); and no observer ever receives an event identifying an
    (observer, exception) pair that did not happen.
Nothing is demanded about the keys/format/level of the report, about when it
arrives, about duplicates of reports, nor about failures raised *while receiving
a report* (only that they do not escape and do not disturb the above).

Registration.  add/remove/emit sequences against a model that is a set with
registration order.  Re-adding a registered observer must not make it receive
events twice; where it then sits in the order is not stated, so an order
constraint "a before b" is only demanded when a's latest add precedes the add
that registered b.

Level filter.  ``ref_level``: among the configured non-empty namespaces c with
ns == c or ns.startswith(c + ".") the longest wins, otherwise the default
(constructor argument, replaced by a level set for "" which the API documents as
"the default namespace"; clearLogLevels forgets every setting).  An event passes
iff its level is at least that level in the documented order
debug < info < warn < error < critical.  Checked on logLevelForNamespace, on the
predicate result (no = dropped, anything else = passed) and end-to-end through
FilteringLogObserver (passed -> wrapped observer exactly once, dropped ->
negative observer exactly once).  Events whose namespace is "" are documented
as "do not have a namespace -> dropped" and are outside this check's
precondition (only logLevelForNamespace("") is checked for them).

History.  e/r (event / replay) scripts; every replay must hand the target
exactly the last N events received so far, oldest first (N=None: all).
"""
from __future__ import annotations

import itertools

from pyvc.api import Bounded

from twisted.logger import (
    FilteringLogObserver,
    LimitedHistoryLogObserver,
    Logger,
    LogLevel,
    LogLevelFilterPredicate,
    LogPublisher,
    PredicateResult,
)
from twisted.python.failure import Failure

# documented severity order (twisted.logger.LogLevel docstring): ascending
LEVELS = ("debug", "info", "warn", "error", "critical")
RANK = {n: i for i, n in enumerate(LEVELS)}


def _lvl(name):
    return LogLevel.lookupByName(name)


# --------------------------------------------------------------------------
# harness observers


class _E1(Exception):
    pass


class _E2(ValueError):
    pass


def _raise_div():
    return 1 // 0


class _World:
    """Shared journal for one case."""

    def __init__(self):
        self.journal = []  # (observer idx, c57_id) for every original delivery, global order
        self.raised = []  # (observer idx, "orig"/"report", exception instance)  (keeps them alive)
        self.by_exc = {}  # id(exc) -> observer idx


class _Obs:
    """kind: G never raises; R raises on every original event; O raises on
    odd-numbered original events; A raises on everything (reports too)."""

    def __init__(self, idx, kind, world):
        self.idx = idx
        self.kind = kind
        self.world = world
        self.others = []  # non-original events received

    def __repr__(self):
        return "<obs%d%s>" % (self.idx, self.kind)

    def __call__(self, event):
        if "c57_id" in event:
            k = event["c57_id"]
            self.world.journal.append((self.idx, k))
            if self.kind in ("R", "A") or (self.kind == "O" and k % 2 == 1):
                self._boom("orig", k)
        else:
            self.others.append(event)
            if self.kind == "A":
                self._boom("report", len(self.others))

    def _boom(self, why, n):
        sel = (self.idx + n) % 3
        try:
            if sel == 0:
                raise _E1("boom %d %s %d" % (self.idx, why, n))
            if sel == 1:
                raise _E2("boom %d %s %d" % (self.idx, why, n))
            _raise_div()
        except Exception as e:
            self.world.raised.append((self.idx, why, e))
            self.world.by_exc[id(e)] = self.idx
            raise


def _identified(event, world):
    """(observer idx, id(exc)) pairs this non-original event identifies."""
    who = []
    excs = []
    for v in list(event.values()):
        if isinstance(v, _Obs):
            who.append(v.idx)
        if isinstance(v, Failure):
            v = v.value
        if isinstance(v, BaseException) and id(v) in world.by_exc:
            excs.append(id(v))
    return [(w, e) for w in who for e in excs]


def _check_reports(world, registered_at):
    """registered_at(exc_record_index) -> list of _Obs that were registered when
    that exception was raised.  First-level failures must reach all the others."""
    for n, (xi, why, exc) in enumerate(world.raised):
        if why != "orig":
            continue
        for y in registered_at(n):
            if y.idx == xi:
                continue
            hit = False
            for ev in y.others:
                if (xi, id(exc)) in _identified(ev, world):
                    hit = True
                    break
            if not hit:
                return "observer %d raised %r on an event but observer %d (kind %s) got no report of it" % (
                    xi, exc, y.idx, y.kind)
    return None


def _check_spurious(world, observers):
    for y in observers:
        for ev in y.others:
            for (w, e) in _identified(ev, world):
                if world.by_exc[e] != w:
                    return "observer %d was told that observer %d raised an exception that observer %d raised" % (
                        y.idx, w, world.by_exc[e])
    return None


def _publish(pub, mode, k):
    """Publish original event number k; return an error string if publishing raised."""
    try:
        if mode == "logger":
            Logger(namespace="c57.pub", observer=pub).info("event {c57_id}", c57_id=k)
        else:
            ev = {"c57_id": k, "log_level": LogLevel.info, "log_namespace": "c57.pub", "log_format": "e"}
            if mode == "trace":
                ev["log_trace"] = []
            pub(ev)
    except BaseException as e:  # noqa
        return "publishing event %d raised %r" % (k, e)
    return None


# --------------------------------------------------------------------------


class PublisherFanout(Bounded):
    prop = "C57"
    title = ("LogPublisher(*observers)(event) vs. the statement: every event once to every observer in "
             "registration order despite raising observers; each failure reported to all other observers")
    scope = ("observer tuples of length 0..5 (quick) / 0..6 (thorough) over kinds {G never raises, R raises on every "
             "event, O raises on odd events, A raises on events and on reports}, raising 3 Exception subclasses; "
             "streams of 0..3 (quick) / 0..4 events; published as a plain dict, a dict with log_trace, or through "
             "Logger.info; thorough adds 1000 seeded random tuples of 6..8 observers and up to 12 events. BaseException "
             "raisers, re-entrant logging and observers that mutate the publisher are not in this class.")
    functions = ["LogPublisher.__init__", "LogPublisher.__call__", "LogPublisher._errorLoggerForObserver",
                 "Logger.failure"]

    def cases(self, tier, rng):
        maxn, maxe = (5, 3) if tier == "quick" else (6, 4)
        for n in range(maxn + 1):
            for kinds in itertools.product("GROA", repeat=n):
                for ne in range(maxe + 1):
                    for mode in ("dict", "trace", "logger"):
                        yield ("".join(kinds), ne, mode)
        if tier != "quick":
            for _ in range(1000):
                n = rng.randint(6, 8)
                yield ("".join(rng.choice("GGGROA") for _ in range(n)), rng.randint(1, 12),
                       rng.choice(("dict", "trace", "logger")))

    def nontrivial(self, case):
        return any(k in "ROA" for k in case[0]) and case[1] > 0 and len(case[0]) > 1

    def check(self, case):
        kinds, ne, mode = case
        world = _World()
        obs = [_Obs(i, k, world) for i, k in enumerate(kinds)]
        pub = LogPublisher(*obs)
        for k in range(ne):
            err = _publish(pub, mode, k)
            if err:
                return err
        want = [(i, k) for k in range(ne) for i in range(len(obs))]
        if world.journal != want:
            return "deliveries of original events (observer, event) %r, expected %r" % (world.journal, want)
        return _check_reports(world, lambda n: obs) or _check_spurious(world, obs)


class PublisherRegistration(Bounded):
    prop = "C57"
    title = ("addObserver/removeObserver/publish scripts on LogPublisher vs. a set-with-registration-order model: "
             "each event exactly once to exactly the currently registered observers, in registration order")
    scope = ("3 observers with kinds from {G,R,A}^3 (quick: 6 kind triples, thorough: all 27); constructor "
             "registers (), (0), (1,0) or (0,1,2); scripts of up to 5 operations (thorough: 6 for 3 of the triples) over "
             "{add i, remove i, publish}; re-adding a registered observer and removing an unregistered one "
             "included (if the latter raises the case is skipped: not part of the property)")
    functions = ["LogPublisher.addObserver", "LogPublisher.removeObserver", "LogPublisher.__call__"]

    OPS = tuple([("add", i) for i in range(3)] + [("rm", i) for i in range(3)] + [("pub",)])

    def cases(self, tier, rng):
        if tier == "quick":
            kindsets = ("GGG", "RGG", "GRA", "AGR", "RRG", "AAG")
        else:
            kindsets = tuple("".join(p) for p in itertools.product("GRA", repeat=3))
        for kinds in kindsets:
            maxlen = 5 if tier == "quick" or kinds not in ("GGG", "GRA", "AAG") else 6
            for ctor in ((), (0,), (1, 0), (0, 1, 2)):
                for n in range(1, maxlen + 1):
                    for ops in itertools.product(self.OPS, repeat=n):
                        if ops[-1] != ("pub",):
                            continue  # trailing add/remove is unobservable
                        yield (kinds, ctor, ops)

    def nontrivial(self, case):
        return sum(1 for o in case[2] if o == ("pub",)) >= 1 and len(case[2]) > 1

    def check(self, case):
        kinds, ctor, ops = case
        world = _World()
        obs = [_Obs(i, k, world) for i, k in enumerate(kinds)]
        pub = LogPublisher(*[obs[i] for i in ctor])
        # model: idx -> (time of the add that registered it, time of its latest add)
        reg = {}
        t = 0
        for pos, i in enumerate(ctor):
            reg[i] = (pos - 10, pos - 10)
        k = 0
        snapshots = []  # per published event: dict copy of reg
        raised_when = []  # for each world.raised record: index into snapshots
        for op in ops:
            t += 1
            if op[0] == "add":
                pub.addObserver(obs[op[1]])
                if op[1] in reg:
                    reg[op[1]] = (reg[op[1]][0], t)
                else:
                    reg[op[1]] = (t, t)
            elif op[0] == "rm":
                if op[1] in reg:
                    pub.removeObserver(obs[op[1]])
                    del reg[op[1]]
                else:
                    try:
                        pub.removeObserver(obs[op[1]])
                    except Exception:
                        raise Bounded.Skip()
            else:
                before = len(world.raised)
                err = _publish(pub, "dict", k)
                if err:
                    return err
                snapshots.append(dict(reg))
                raised_when.extend([len(snapshots) - 1] * (len(world.raised) - before))
                k += 1
        # per event: who got it, how often, in which order
        for ev, snap in enumerate(snapshots):
            got = [i for (i, kk) in world.journal if kk == ev]
            if sorted(got) != sorted(snap):
                return "event %d delivered to observers %r, registered were %r" % (ev, got, sorted(snap))
            for a in snap:
                for b in snap:
                    if a != b and snap[a][1] < snap[b][0] and got.index(a) > got.index(b):
                        return "event %d: observer %d registered before %d but was called after it (%r)" % (
                            ev, a, b, got)
        # events in publication order for each observer
        for o in obs:
            seq = [kk for (i, kk) in world.journal if i == o.idx]
            if seq != sorted(seq):
                return "observer %d saw events out of order: %r" % (o.idx, seq)
        return (_check_reports(world, lambda n: [obs[i] for i in snapshots[raised_when[n]]])
                or _check_spurious(world, obs))


class PublisherDuplicateConstructorArgs(Bounded):
    prop = "C57"
    title = ("LogPublisher(*observers) given the same observer more than once: each event must still reach that "
             "observer exactly once (the statement says once per observer; addObserver already de-duplicates)")
    scope = "constructor tuples of length 1..3 over 2 observers (kinds G/R) containing a repeat; 1..2 events"
    functions = ["LogPublisher.__init__", "LogPublisher.__call__"]

    def cases(self, tier, rng):
        for kinds in ("GG", "RG", "GR"):
            for n in (2, 3):
                for ctor in itertools.product((0, 1), repeat=n):
                    if len(set(ctor)) == len(ctor):
                        continue
                    for ne in (1, 2):
                        yield (kinds, ctor, ne)

    def check(self, case):
        kinds, ctor, ne = case
        world = _World()
        obs = [_Obs(i, k, world) for i, k in enumerate(kinds)]
        pub = LogPublisher(*[obs[i] for i in ctor])
        for k in range(ne):
            err = _publish(pub, "dict", k)
            if err:
                return err
        for i in sorted(set(ctor)):
            for k in range(ne):
                c = world.journal.count((i, k))
                if c != 1:
                    return "observer %d received event %d %d times (constructor args %r)" % (i, k, c, ctor)
        return None


class _Mutator:
    """Observer that, the first time it is called, performs one registration
    change on the publisher it is attached to."""

    def __init__(self, idx, action, box):
        self.idx = idx
        self.action = action  # None | ("rm", j) | ("add",)
        self.box = box
        self.fired = False
        self.seen = []

    def __call__(self, event):
        if "c57_id" not in event:
            return
        self.seen.append(event["c57_id"])
        if self.action is not None and not self.fired:
            self.fired = True
            self.box["fired"].append((event["c57_id"], self.idx, self.action))
            if self.action[0] == "rm":
                self.box["pub"].removeObserver(self.box["obs"][self.action[1]])
            else:
                self.box["pub"].addObserver(self.box["extra"])


class PublisherMutationDuringDelivery(Bounded):
    prop = "C57"
    title = ("observers that unregister an observer (themselves or another) or register a new one while an event is "
             "being delivered: every observer that stays registered throughout must still get every event exactly once")
    scope = ("1..3 observers (thorough: 1..4), each with one first-call action from {none, remove observer j "
             "(any j incl. itself), add a fresh observer}; 2 events; only observers registered before the event and "
             "not removed by anyone during it are constrained")
    functions = ["LogPublisher.__call__", "LogPublisher.removeObserver", "LogPublisher.addObserver"]

    def cases(self, tier, rng):
        for n in range(1, (3 if tier == "quick" else 4) + 1):
            acts = [None, ("add",)] + [("rm", j) for j in range(n)]
            for combo in itertools.product(acts, repeat=n):
                yield combo

    def nontrivial(self, case):
        return any(a is not None for a in case)

    def check(self, case):
        box = {"fired": [], "obs": [], "extra": None, "pub": None}
        obs = [_Mutator(i, a, box) for i, a in enumerate(case)]
        box["obs"] = obs
        box["extra"] = _Mutator(99, None, box)
        pub = box["pub"] = LogPublisher(*obs)
        registered = set(range(len(obs)))
        for k in range(2):
            err = _publish(pub, "dict", k)
            if err:
                return err
            removed_now = {a[1] for (kk, _, a) in box["fired"] if kk == k and a[0] == "rm"}
            for i in sorted(registered - removed_now):
                c = obs[i].seen.count(k)
                if c != 1:
                    return ("observer %d was registered before, during and after event %d but received it %d times "
                            "(actions fired during it: %r)" % (i, k, c, [f for f in box["fired"] if f[0] == k]))
            registered -= removed_now
        return None


# --------------------------------------------------------------------------
# level filter


def ref_level(default, config, ns):
    """Level name in force for namespace ns: the most specific configured
    dotted prefix, else the default (config[""] replaces the default)."""
    best = None
    for c, lv in config.items():
        if c == "":
            continue
        if ns == c or ns.startswith(c + "."):
            if best is None or len(c) > len(best):
                best = c
    if best is not None:
        return config[best]
    return config.get("", default)


_SEG = ("a", "b", "ab", "")


def _namespaces(maxseg):
    out = []
    for n in range(1, maxseg + 1):
        for segs in itertools.product(_SEG, repeat=n):
            s = ".".join(segs)
            if s not in out:
                out.append(s)
    return out


class LevelFilter(Bounded):
    prop = "C57"
    title = ("LogLevelFilterPredicate / FilteringLogObserver vs. 'level >= level of the longest configured dotted "
             "prefix of the namespace, else the default'")
    scope = ("namespaces: all dot-joins of 1..3 segments from {a,b,ab,''} (so 'a' vs 'ab', empty segments, leading/"
             "trailing dots); configurations: every set of <=2 (quick) / <=3 restricted (thorough) namespaces of 1..2 "
             "segments plus 'a.b.a','a..b','' with levels from {debug,warn,critical}, the chain a / a.b / a.b.a with "
             "all 125 level assignments, and 3-step scripts with overwrite, set('') and clearLogLevels; defaults "
             "{info,critical} (+debug thorough); all 5 event levels; thorough adds seeded random configs of up to 6 "
             "entries over 4-segment namespaces. Events with namespace '' only checked on logLevelForNamespace.")
    functions = ["LogLevelFilterPredicate.__init__", "LogLevelFilterPredicate.setLogLevelForNamespace",
                 "LogLevelFilterPredicate.clearLogLevels", "LogLevelFilterPredicate.logLevelForNamespace",
                 "LogLevelFilterPredicate.__call__", "FilteringLogObserver.__call__", "shouldLogEvent"]

    def cases(self, tier, rng):
        quick = tier == "quick"
        nss = _namespaces(3)
        cands = [c for c in _namespaces(2) if c != ""] + ["a.b.a", "a..b", ""]
        lv3 = ("debug", "warn", "critical")
        defaults = ("info", "critical") if quick else ("info", "critical", "debug")
        # sets of 0..2 settings
        configs = [()]
        for c in cands:
            for l in lv3:
                configs.append((("set", c, l),))
        for c1, c2 in itertools.combinations(cands, 2):
            for l1, l2 in (itertools.product(lv3, repeat=2) if not quick else
                           (("debug", "critical"), ("critical", "debug"), ("warn", "warn"), ("critical", "warn"))):
                configs.append((("set", c1, l1), ("set", c2, l2)))
        for d in defaults:
            for ops in configs:
                for ns in nss:
                    yield (d, ops, ns)
        # three-deep chain, all level assignments
        for ls in itertools.product(LEVELS, repeat=3):
            ops = tuple(("set", c, l) for c, l in zip(("a", "a.b", "a.b.a"), ls))
            for ns in ("a", "a.b", "a.b.a", "a.b.a.b", "a.b.ab", "a.ab", "ab", "a.b.", "a.a", "b.a.b.a"):
                yield ("info", ops, ns)
        # scripts with overwrite / set('') / clear
        alpha = (("set", "a", "debug"), ("set", "a", "error"), ("set", "a.b", "critical"), ("set", "", "warn"),
                 ("set", "", "debug"), ("clear",))
        for n in (2, 3):
            for ops in itertools.product(alpha, repeat=n):
                for ns in ("a", "a.b", "a.b.a", "b", "", "ab"):
                    yield ("info", ops, ns)
        if not quick:
            chain = ["a", "a.b", "a.b.ab", "a.", "a..b", "ab", "ab.a", "b"]
            for trio in itertools.combinations(chain, 3):
                for ls in itertools.product(lv3, repeat=3):
                    ops = tuple(("set", c, l) for c, l in zip(trio, ls))
                    for ns in nss:
                        yield ("info", ops, ns)
            big = _namespaces(4)
            for _ in range(20000):
                ops = []
                for _ in range(rng.randint(1, 6)):
                    if rng.random() < 0.08:
                        ops.append(("clear",))
                    else:
                        ops.append(("set", rng.choice(big), rng.choice(LEVELS)))
                base = rng.choice([o[1] for o in ops if o[0] == "set"] or ["a"])
                ns = rng.choice([base, base + ".a", base + "a", base + ".", base + ".b.ab", rng.choice(big)])
                yield (rng.choice(LEVELS), tuple(ops), ns)

    def nontrivial(self, case):
        d, ops, ns = case
        return any(o[0] == "set" and o[1] and (ns == o[1] or ns.startswith(o[1] + ".")) for o in ops)

    def check(self, case):
        default, ops, ns = case
        pred = LogLevelFilterPredicate(defaultLogLevel=_lvl(default))
        config = {}
        for op in ops:
            if op[0] == "set":
                pred.setLogLevelForNamespace(op[1], _lvl(op[2]))
                config[op[1]] = op[2]
            else:
                pred.clearLogLevels()
                config.clear()
        want = ref_level(default, config, ns)
        got = pred.logLevelForNamespace(ns)
        if got is not _lvl(want):
            return "logLevelForNamespace(%r) = %r, expected %s (default %s, settings %r)" % (
                ns, got, want, default, config)
        if ns == "":
            return None
        pos, neg = [], []
        flt = FilteringLogObserver(pos.append, [pred], negativeObserver=neg.append)
        for n, lev in enumerate(LEVELS):
            ev = {"log_level": _lvl(lev), "log_namespace": ns, "c57_id": n, "log_format": "x"}
            res = pred(dict(ev))
            passed = res is not PredicateResult.no
            should = RANK[lev] >= RANK[want]
            if passed != should:
                return "predicate on level %s in %r gave %r; configured level there is %s (default %s, settings %r)" % (
                    lev, ns, res, want, default, config)
            del pos[:], neg[:]
            flt(ev)
            p = [e.get("c57_id") for e in pos]
            q = [e.get("c57_id") for e in neg]
            if (p, q) != (([n], []) if should else ([], [n])):
                return "FilteringLogObserver sent level %s in %r to observer %r / negative observer %r; level there %s" % (
                    lev, ns, p, q, want)
        return None


# --------------------------------------------------------------------------
# limited history


class HistoryReplay(Bounded):
    prop = "C57"
    title = "LimitedHistoryLogObserver(N) under event/replay scripts vs. 'the last N events received, oldest first'"
    scope = ("N in {0,1,2,3,4,None}; every script over {event, replay} of length <= 9 (quick) / <= 13 (thorough); "
             "thorough adds N in {5..70 random} with random scripts of up to 300 steps and the default size (65536) "
             "fed 65536+{0,1,7} events")
    functions = ["LimitedHistoryLogObserver.__init__", "LimitedHistoryLogObserver.__call__",
                 "LimitedHistoryLogObserver.replayTo"]

    def cases(self, tier, rng):
        maxlen = 9 if tier == "quick" else 13
        for size in (0, 1, 2, 3, 4, None):
            for n in range(maxlen + 1):
                for script in itertools.product("er", repeat=n):
                    if n and script[-1] != "r":
                        continue
                    yield (size, "".join(script))
        if tier != "quick":
            for _ in range(400):
                size = rng.randint(5, 70)
                yield (size, "".join(rng.choice("eeeeer") for _ in range(rng.randint(size - 3, 300))) + "r")
            for extra in (0, 1, 7):
                yield ("default", extra)

    def nontrivial(self, case):
        size, script = case
        return size == "default" or size is None or script.count("e") > size

    def check(self, case):
        size, script = case
        if size == "default":
            h = LimitedHistoryLogObserver()
            total = 64 * 1024 + script
            for i in range(total):
                h({"c57_id": i})
            out = []
            h.replayTo(out.append)
            got = [e["c57_id"] for e in out]
            want = list(range(total))[-(64 * 1024):]
            return None if got == want else "default-size history replayed %d events starting at %r" % (
                len(got), got[:1])
        h = LimitedHistoryLogObserver(size)
        received = []
        for step in script:
            if step == "e":
                n = len(received)
                received.append(n)
                h({"c57_id": n, "log_format": "x"})
            else:
                out = []
                h.replayTo(out.append)
                got = [e["c57_id"] for e in out]
                if size is None:
                    want = list(received)
                elif size == 0:
                    want = []
                else:
                    want = received[-size:]
                if got != want:
                    return "after %d events a history of size %r replayed %r, expected %r" % (
                        len(received), size, got, want)
        return None


class Pipeline(Bounded):
    prop = "C57"
    title = ("publisher -> [level filter -> limited history, plain observer]: the plain observer sees the whole stream, "
             "the history replays the last N events that pass the filter")
    scope = ("seeded random: 300 (quick) / 5000 (thorough) streams of 0..25 events over namespaces of <=3 segments "
             "from {a,b,ab} and all 5 levels, 0..4 settings, N in 0..6")
    functions = ["LogPublisher.__call__", "FilteringLogObserver.__call__", "LogLevelFilterPredicate.__call__",
                 "LimitedHistoryLogObserver.replayTo"]

    def cases(self, tier, rng):
        nss = [n for n in _namespaces(3) if n and ".." not in n and not n.startswith(".") and not n.endswith(".")]
        for _ in range(300 if tier == "quick" else 5000):
            cfg = tuple((rng.choice(nss), rng.choice(LEVELS)) for _ in range(rng.randint(0, 4)))
            stream = tuple((rng.choice(nss), rng.choice(LEVELS)) for _ in range(rng.randint(0, 25)))
            yield (rng.choice(LEVELS), cfg, rng.randint(0, 6), stream)

    def check(self, case):
        default, cfg, size, stream = case
        pred = LogLevelFilterPredicate(defaultLogLevel=_lvl(default))
        config = {}
        for c, l in cfg:
            pred.setLogLevelForNamespace(c, _lvl(l))
            config[c] = l
        hist = LimitedHistoryLogObserver(size)
        plain = []
        pub = LogPublisher(FilteringLogObserver(hist, [pred]), plain.append)
        for i, (ns, lev) in enumerate(stream):
            pub({"c57_id": i, "log_namespace": ns, "log_level": _lvl(lev), "log_format": "x"})
        if [e["c57_id"] for e in plain] != list(range(len(stream))):
            return "plain observer saw %r" % ([e["c57_id"] for e in plain],)
        passing = [i for i, (ns, lev) in enumerate(stream) if RANK[lev] >= RANK[ref_level(default, config, ns)]]
        want = passing[-size:] if size else []
        out = []
        hist.replayTo(out.append)
        got = [e["c57_id"] for e in out]
        if got != want:
            return "history(%d) behind the filter replayed %r, expected %r" % (size, got, want)
        return None


BOUNDED = [PublisherFanout, PublisherRegistration, PublisherDuplicateConstructorArgs,
           PublisherMutationDuringDelivery, LevelFilter, HistoryReplay, Pipeline]
