"""C33 (bounded tier) -- decoding arbitrary bytes as DNS is total and terminates.

The oracle is the property statement itself, made executable:

  * every decode finishes inside a per-input deadline (an interval timer
    interrupts a decoder that loops; the deadline is four orders of magnitude
    above the normal decode time of the inputs enumerated here);
  * the outcome is a message, EOFError or ValueError -- nothing else;
  * the three ways the bytes reach the decoder agree: Message.fromStr directly,
    DNSDatagramProtocol.datagramReceived (which must never take its "Unexpected
    decoding error" branch, i.e. never log an error event, and must hand the
    controller a message exactly when the direct decode produced one) and
    DNSProtocol.dataReceived on the length-prefixed frame (from which only
    EOFError / ValueError may escape).

Independent of the implementation are: the wire encoder used to build the
seeds (written from RFC 1035 / 2782 / 2915 / 2874 / 4255 / 6891 / 8945 record
layouts, it never calls twisted's encode), and the RFC 1035 section 4.1.4 name
walker `ref_walk`, which classifies every (buffer, offset) as a finite name, a
name running off the end, a compression-pointer cycle or a reserved label
type.  Name.decode is compared with that walker: it may return only on a
finite name (and then with exactly the walker's labels and stream position),
and must raise EOFError/ValueError on the other classes -- in particular on
every cycle.

Mutation scope ("mutation fuzzing seeded with valid encodings", enumerated
instead of sampled in the quick tier): every truncation, every rdlength /
section-count rewrite from a boundary set, every single-byte replacement from a
boundary alphabet and every 2-byte compression-pointer overwrite (to the
header, the owner name, itself, its neighbour, the end, past the end) at every
position of a valid one-record message of every record type.  The thorough
tier adds pairs of mutations, wider alphabets, long pointer chains and a
coverage-guided mutation loop (line arcs of twisted/names/dns.py).

TcpSegmentedDelivery delivers the length-prefixed frame to DNSProtocol in
pieces.  On the tree this was written against it fails: a piece boundary that
leaves exactly one byte of a length prefix buffered makes dataReceived compare
len(buffer) with self.length == None and raise TypeError before any decoding
(failing region: 1 in cuts, or len(first frame) + 1 in cuts).
"""
import itertools
import signal
import struct
import sys
import threading
import time
from io import BytesIO

from pyvc.api import Bounded
from twisted.names import dns
from twisted.python import log as _tlog

# ----------------------------------------------------------------------------
# per-input deadline
# ----------------------------------------------------------------------------

class _Deadline(BaseException):
    """Raised by the interval timer inside a decoder that does not finish."""


_fired = [0]


def _on_alarm(signum, frame):
    _fired[0] += 1
    raise _Deadline()


def _can_alarm():
    return hasattr(signal, "setitimer") and threading.current_thread() is threading.main_thread()


def run_with_deadline(fn, seconds, retry=True):
    """-> (kind, value, timed_out).  kind is 'ret' or 'exc'.  timed_out is true when the deadline fired, even if
    the code under test swallowed the interruption (DNSDatagramProtocol catches BaseException).  `fn` must be
    re-runnable: a run that hits the deadline is repeated once with four times the allowance, so that a stall of
    the machine (collector pause, swapping) is not mistaken for a decoder that loops."""
    if not _can_alarm():
        t0 = time.time()
        try:
            r = ("ret", fn())
        except BaseException as e:  # noqa: B902 - the property is about *every* exception type
            r = ("exc", e)
        return r[0], r[1], (time.time() - t0) > seconds
    before = _fired[0]
    r = None
    old = signal.signal(signal.SIGALRM, _on_alarm)
    try:
        try:
            signal.setitimer(signal.ITIMER_REAL, seconds)      # one shot: fires at most once
            try:
                r = ("ret", fn())
            except BaseException as e:  # noqa: B902 - includes _Deadline
                r = ("exc", e)
        finally:
            signal.setitimer(signal.ITIMER_REAL, 0)
    except _Deadline as e:
        # fired in the window between fn finishing and the timer being disarmed
        if r is None:
            r = ("exc", e)
    finally:
        signal.signal(signal.SIGALRM, old)
    late = _fired[0] != before
    if late and retry:
        return run_with_deadline(fn, 4 * seconds, retry=False)
    return r[0], r[1], late


def deadline_for(data):
    # normal decode time of these inputs is 5..500 microseconds
    return 1.0 if len(data) <= 2048 else 10.0


# ----------------------------------------------------------------------------
# independent wire encoder (RFC record layouts; never calls twisted's encode)
# ----------------------------------------------------------------------------

def w_name(*labels):
    return b"".join(bytes([len(x)]) + x for x in labels) + b"\x00"


def w_ptr(off):
    return bytes([0xC0 | (off >> 8) & 0x3F, off & 0xFF])


def w_cs(s):
    return bytes([len(s)]) + s


def w_header(nq=0, nan=0, nns=0, nad=0, ident=0x1234, flags=0x8180):
    return struct.pack("!HHHHHH", ident, flags, nq, nan, nns, nad)


def w_rr(owner, rtype, rdata, rdlength=None, cls=1, ttl=300):
    return owner + struct.pack("!HHIH", rtype, cls, ttl, len(rdata) if rdlength is None else rdlength) + rdata


def w_query(qname, qtype=1, qcls=1):
    return qname + struct.pack("!HH", qtype, qcls)


HDR = 12          # header size, RFC 1035 4.1.1
OWNER = w_name(b"ab", b"c")          # sits at offset 12 in every one-record seed
OWNER_OFF = HDR
N2 = w_name(b"x", b"yz")

# type -> list of valid RDATA variants; `P` is replaced by a compression pointer to the owner name
P = object()


def _rd(*parts):
    return parts


RDATA = {
    1: [_rd(b"\x7f\x00\x00\x01")],                                            # A
    2: [_rd(N2), _rd(P)],                                                     # NS
    3: [_rd(N2), _rd(P)], 4: [_rd(P)],                                        # MD MF
    5: [_rd(N2), _rd(b"\x01w", P)],                                           # CNAME (label then pointer)
    6: [_rd(N2, P, struct.pack("!LlllL", 1, 2, 3, 4, 5)),                     # SOA
        _rd(P, N2, struct.pack("!LlllL", 0xFFFFFFFF, -1, -2 ** 31, 2 ** 31 - 1, 0))],
    7: [_rd(P)], 8: [_rd(N2), _rd(P)], 9: [_rd(P)],                           # MB MG MR
    10: [_rd(b""), _rd(b"\x00\xc0\x0c\xff")],                                 # NULL
    11: [_rd(b"\x0a\x00\x00\x01", b"\x06", b"\x00\x00\x40"), _rd(b"\x0a\x00\x00\x01", b"\x11")],  # WKS
    12: [_rd(N2), _rd(P)],                                                    # PTR
    13: [_rd(w_cs(b"cpu"), w_cs(b"os")), _rd(w_cs(b""), w_cs(b""))],          # HINFO
    14: [_rd(N2, P), _rd(P, P)],                                              # MINFO
    15: [_rd(b"\x00\x0a", N2), _rd(b"\xff\xff", P)],                          # MX
    16: [_rd(w_cs(b"hi"), w_cs(b"")), _rd(w_cs(b"a" * 3))],                   # TXT
    17: [_rd(N2, P)],                                                         # RP
    18: [_rd(b"\x00\x01", N2), _rd(b"\x00\x02", P)],                          # AFSDB
    28: [_rd(bytes(range(16)))],                                              # AAAA
    33: [_rd(struct.pack("!HHH", 1, 2, 443), N2), _rd(struct.pack("!HHH", 0, 0, 0), P)],  # SRV
    35: [_rd(struct.pack("!HH", 100, 10), w_cs(b"U"), w_cs(b"E2U+sip"), w_cs(b"!^.*$!x!"), b"\x00"),  # NAPTR
         _rd(struct.pack("!HH", 0, 0), w_cs(b""), w_cs(b""), w_cs(b""), P)],
    38: [_rd(b"\x00", bytes(range(16))), _rd(b"\x40", bytes(8), N2), _rd(b"\x80", P), _rd(b"\x7f", b"\x01", P)],  # A6
    39: [_rd(N2), _rd(b"\x02zz", P)],                                             # DNAME
    41: [_rd(b""), _rd(struct.pack("!HH", 3, 2), b"ns"), _rd(struct.pack("!HH", 8, 0), struct.pack("!HH", 10, 1), b"c")],
    44: [_rd(b"\x01\x01", bytes(20)), _rd(b"\x04\x02")],                      # SSHFP
    99: [_rd(w_cs(b"v=spf1 -all"))],                                          # SPF
    250: [_rd(w_name(b"hmac-md5", b"sig-alg"), b"\x00\x00\x5f\x5e\x10\x00", b"\x01\x2c", b"\x00\x04", b"mac!",
              b"\x12\x34", b"\x00\x00", b"\x00\x00"),
          _rd(P, bytes(6), b"\x00\x00", b"\x00\x00", b"\xab\xcd", b"\x00\x12", b"\x00\x06", bytes(6))],  # TSIG
    0: [_rd(b"")], 255: [_rd(b"any")], 65280: [_rd(b"\x00\x01\x02")], 65535: [_rd(b"\xc0\x0c")],  # no class / private
}
ALL_TYPES = sorted(RDATA)
NAME_BEARING = [t for t in ALL_TYPES if any(P in v for v in RDATA[t])]


def build_rdata(parts):
    return b"".join(w_ptr(OWNER_OFF) if p is P else p for p in parts)


def seed_message(rtype, variant, section=1):
    """header + one RR of the type in the given section (1 answer, 2 authority, 3 additional)"""
    counts = [0, 0, 0, 0]
    counts[section] = 1
    rd = build_rdata(RDATA[rtype][variant])
    cls = 4096 if rtype == 41 else (255 if rtype == 250 else 1)
    return w_header(*counts) + w_rr(OWNER, rtype, rd, cls=cls)


RDLEN_OFF = HDR + len(OWNER) + 8      # offset of the RDLENGTH field in every one-record seed
RDATA_OFF = RDLEN_OFF + 2


# ----------------------------------------------------------------------------
# reference: RFC 1035 4.1.4 name walker
# ----------------------------------------------------------------------------

def ref_walk(data, off):
    """Classify the name starting at data[off:].
    ('ok', labels, next_off, pointers_followed) | ('eof',) | ('loop',) | ('reserved',)
    next_off: where the enclosing structure continues (after the zero octet, or after the first pointer)."""
    labels, seen, nxt, p, n, hops = [], set(), None, off, len(data), 0
    while True:
        if p in seen:
            return ("loop",)
        seen.add(p)
        if p >= n:
            return ("eof",)
        b = data[p]
        kind = b & 0xC0
        if b == 0:
            return ("ok", labels, p + 1 if nxt is None else nxt, hops)
        if kind == 0xC0:
            if p + 1 >= n:
                return ("eof",)
            if nxt is None:
                nxt = p + 2
            hops += 1
            p = ((b & 0x3F) << 8) | data[p + 1]
        elif kind == 0:
            if p + 1 + b > n:
                return ("eof",)
            labels.append(data[p + 1:p + 1 + b])
            p += 1 + b
        else:
            return ("reserved",)     # 01 / 10 label types: RFC 1035 reserves them; only totality is demanded


# ----------------------------------------------------------------------------
# drivers for the three real entry points
# ----------------------------------------------------------------------------

class _Controller:
    def __init__(self):
        self.got = []

    def messageReceived(self, message, proto, address=None):
        self.got.append(message)

    def connectionMade(self, proto):
        pass

    def connectionLost(self, proto):
        pass


_NO_REACTOR = object()     # the protocols only touch the reactor to send / schedule; decoding does neither


def shape(m):
    return (m.id, len(m.queries), len(m.answers), len(m.authority), len(m.additional))


def classify(kind, val):
    if kind == "ret":
        return "msg"
    if isinstance(val, EOFError):
        return "EOFError"
    if isinstance(val, ValueError):
        return "ValueError"
    return "other"


def direct_decode(data):
    m = dns.Message()
    m.fromStr(data)
    return m


def udp_deliver(data):
    c = _Controller()
    p = dns.DNSDatagramProtocol(c, reactor=_NO_REACTOR)
    p.startProtocol()
    events = []
    observer = events.append
    _tlog.addObserver(observer)
    try:
        p.datagramReceived(data, ("192.0.2.1", 53))
    finally:
        _tlog.removeObserver(observer)
    return c.got, [e for e in events if e.get("isError")]


def tcp_deliver(chunks):
    c = _Controller()
    p = dns.DNSProtocol(c, reactor=_NO_REACTOR)
    p.connectionMade()
    for ch in chunks:
        p.dataReceived(ch)
    return c.got


def frame(data):
    return struct.pack("!H", len(data)) + data


def check_message_bytes(data):
    """The C33 oracle for one byte string; None when it holds."""
    limit = deadline_for(data)
    kind, val, late = run_with_deadline(lambda: direct_decode(data), limit)
    if late:
        return "Message.fromStr did not finish within %.0f s (nor within %.0f s when re-run) on %d bytes" % (limit, 4 * limit, len(data))
    out = classify(kind, val)
    if out == "other":
        return "Message.fromStr raised %r (only EOFError / ValueError are malformed-packet errors)" % (val,)

    kind, uval, late = run_with_deadline(lambda: udp_deliver(data), limit)
    if late:
        return "DNSDatagramProtocol.datagramReceived did not finish within %.0f s" % limit
    if kind == "exc":
        return "DNSDatagramProtocol.datagramReceived let %r escape" % (uval,)
    got, errors = uval
    if errors:
        e = errors[0]
        why = e.get("why") or ""
        f = e.get("failure")
        return "datagramReceived logged an error event (%s %r): the decoder raised something the protocol does " \
               "not treat as a malformed packet" % (why, getattr(f, "value", None))
    if out == "msg":
        if len(got) != 1 or shape(got[0]) != shape(val):
            return "fromStr produced a message %r but the UDP protocol delivered %r" % (shape(val), [shape(g) for g in got])
    elif got:
        return "fromStr raised %s but the UDP protocol delivered a message" % out

    if 0 < len(data) <= 0xFFFF:
        kind, tval, late = run_with_deadline(lambda: tcp_deliver([frame(data)]), limit)
        if late:
            return "DNSProtocol.dataReceived did not finish within %.0f s" % limit
        tout = classify(kind, tval)
        if tout == "other":
            return "DNSProtocol.dataReceived raised %r" % (tval,)
        if (tout == "msg") != (out == "msg"):
            return "fromStr outcome %s, TCP protocol outcome %s" % (out, tout)
        if tout == "msg" and (len(tval) != 1 or shape(tval[0]) != shape(val)):
            return "fromStr produced %r but the TCP protocol delivered %r" % (shape(val), [shape(g) for g in tval])
    return None


# ----------------------------------------------------------------------------
# mutation operators (deterministic, enumerated)
# ----------------------------------------------------------------------------

BYTE_VALUES_QUICK = (0x00, 0x01, 0x0C, 0x3F, 0x40, 0x80, 0xC0, 0xFF)
BYTE_VALUES_THOROUGH = BYTE_VALUES_QUICK + (0x02, 0x0D, 0x10, 0x7F, 0xBF, 0xC1, 0xFE)
U16_VALUES = (0, 1, 2, 0xC00C, 0xFFFF)


def pointer_targets(data, pos):
    n = len(data)
    return sorted({0, 2, HDR, HDR + 1, max(pos - 2, 0), pos, min(pos + 2, 0x3FFF), n - 1, n, 0x3FFF})


def single_mutations(data, byte_values):
    n = len(data)
    for k in range(n):                                   # every truncation
        yield data[:k]
    for pos in range(n):                                 # every single byte, boundary values
        for v in byte_values:
            if data[pos] != v:
                yield data[:pos] + bytes([v]) + data[pos + 1:]
    for pos in range(n - 1):                             # every position overwritten by a compression pointer
        for t in pointer_targets(data, pos):
            yield data[:pos] + w_ptr(t) + data[pos + 2:]
    for pos in range(HDR, n + 1):                        # a pointer inserted (shifts what follows)
        for t in (HDR, pos, n + 2):
            yield data[:pos] + w_ptr(t) + data[pos:]
    for cnt_off in (4, 6, 8, 10):                        # section counts
        for v in U16_VALUES:
            yield data[:cnt_off] + struct.pack("!H", v) + data[cnt_off + 2:]


def rdlength_mutations(data):
    true = struct.unpack("!H", data[RDLEN_OFF:RDLEN_OFF + 2])[0]
    for v in sorted({0, 1, 2, 4, 5, max(true - 1, 0), true, true + 1, true + 2, 255, 256, 0x7FFF, 0xFFFF}):
        if v != true:
            yield data[:RDLEN_OFF] + struct.pack("!H", v) + data[RDLEN_OFF + 2:]


def cycle_bodies():
    """Hand-made compression-pointer shapes, each a message body to follow a 12-byte header; names start at 12."""
    B = HDR
    out = []
    out.append(("self", w_ptr(B)))
    for k in (2, 3, 5, 8):
        # k pointers in a ring: i -> i+1 -> ... -> 0
        ring = b"".join(w_ptr(B + 2 * ((i + 1) % k)) for i in range(k))
        out.append(("ring%d" % k, ring))
        # ring entered through labels
        out.append(("label-ring%d" % k, b"\x01a" + b"".join(w_ptr(B + 2 + 2 * ((i + 1) % k)) for i in range(k))))
    out.append(("label-back", b"\x01a\x01b" + w_ptr(B)))                 # labels then back to their own start
    out.append(("label-mid", b"\x03abc" + w_ptr(B + 2)))                 # pointer into the middle of a label
    out.append(("into-header", w_ptr(0)))                                # header bytes read as a name
    out.append(("past-end", w_ptr(0x3FFF)))
    out.append(("to-end", w_ptr(B + 2)))
    out.append(("half-pointer", b"\xc0"))
    out.append(("fwd-chain", w_ptr(B + 2) + w_ptr(B + 4) + w_ptr(B + 6) + b"\x00"))
    out.append(("fwd-chain-then-back", w_ptr(B + 2) + w_ptr(B + 4) + w_ptr(B + 2)))
    out.append(("ptr-to-ptr-to-self", w_ptr(B + 2) + w_ptr(B + 2)))
    out.append(("reserved-01", b"\x41" + b"a" * 65 + b"\x00"))
    out.append(("reserved-10", b"\x80\x00"))
    out.append(("label63", b"\x3f" + b"a" * 63 + b"\x00"))
    out.append(("label63-short", b"\x3f" + b"a" * 62))
    return out


def cycle_messages():
    for tag, body in cycle_bodies():
        tail_q = struct.pack("!HH", 1, 1)
        yield w_header(1) + body + tail_q                                    # as the question name
        yield w_header(2) + body + tail_q + w_ptr(HDR) + tail_q              # two questions sharing the shape
        for ident in (0xC00C, 0xC000, 0x0161, 0x0000):                       # header id itself a pointer / label
            yield w_header(1, ident=ident) + w_ptr(0) + tail_q
            yield w_header(0, 1, ident=ident) + body + struct.pack("!HHIH", 2, 1, 0, 2) + w_ptr(0)
        for t in NAME_BEARING + [1, 16, 65280]:                              # as the owner name, rdata points at it
            rd = build_rdata(RDATA[t][-1])
            yield w_header(0, 1) + w_rr(body, t, rd)
            yield w_header(0, 0, 1, 1) + w_rr(body, t, rd) + w_rr(w_ptr(HDR), t, rd)
        for t in NAME_BEARING:                                               # inside the rdata: owner is fine, the
            for variant in RDATA[t]:                                         # name in the rdata carries the shape
                head = w_header(0, 1) + OWNER + struct.pack("!HHI", t, 1, 0)
                base = len(head) + 2
                shifted = _rebase(body, base - HDR)
                rd = b"".join(shifted if p is P else p for p in variant)
                yield head + struct.pack("!H", len(rd)) + rd


def _rebase(body, delta):
    """move a cycle body written for offset 12 so that it works at offset 12+delta (rewrites pointers >= 12)"""
    out, i = bytearray(), 0
    while i < len(body):
        b = body[i]
        if b & 0xC0 == 0xC0 and i + 1 < len(body):
            t = ((b & 0x3F) << 8) | body[i + 1]
            if HDR <= t < 0x3000:
                t += delta
            out += w_ptr(t)
            i += 2
        elif b & 0xC0 == 0 and b:
            out += body[i:i + 1 + b]
            i += 1 + b
        else:
            out += body[i:i + 1]
            i += 1
    return bytes(out)


# ----------------------------------------------------------------------------
# 1. Name.decode against the RFC walker
# ----------------------------------------------------------------------------

class NameDecodeVersusWalker(Bounded):
    prop = "C33"
    title = ("Name.decode at every offset of every short buffer: returns only on a finite name (same labels, same "
             "stream position as the RFC 1035 walker), raises EOFError/ValueError on truncation and on every "
             "pointer cycle, within the deadline")
    scope = ("all buffers of <= 5 bytes over {00,01,02,03,04,3f,c0,ff} and of <= 4 bytes with 40 and 80 added (thorough: <= 6 bytes over "
             "{00,01,02,03,04,05,3f,c0,ff}, <= 5 bytes with 40, 80, c1 added), decoding started at every offset 0..len, exhaustive; plus pointer "
             "rings and acyclic pointer chains of 1..64 (thorough 1..16383) hops; thorough adds 20 000 seeded random "
             "buffers of < 24 bytes")
    functions = ["Name.decode", "readPrecisely"]

    def cases(self, tier, rng):
        if tier == "quick":
            alpha, top = bytes([0, 1, 2, 3, 4, 0x3F, 0xC0, 0xFF]), 5
        else:
            alpha, top = bytes([0, 1, 2, 3, 4, 5, 0x3F, 0xC0, 0xFF]), 6
        for k in range(0, top + 1):
            for t in itertools.product(alpha, repeat=k):
                buf = bytes(t)
                for off in range(0, k + 1):
                    yield (buf, off)
        extra = b"\x40\x80" if tier == "quick" else b"\x40\x80\xc1"
        for k in range(1, 5 if tier == "quick" else 6):
            for t in itertools.product(alpha + extra, repeat=k):
                if any(x in t for x in extra):
                    for off in range(0, k + 1):
                        yield (bytes(t), off)
        hops = (1, 2, 3, 7, 64) if tier == "quick" else (1, 2, 3, 7, 64, 255, 256, 4096, 16383)
        for h in hops:
            ring = b"".join(w_ptr(2 * ((i + 1) % h)) for i in range(h))
            yield (ring, 0)
            chain = b"".join(w_ptr(2 * (i + 1)) for i in range(h)) + b"\x01z\x00"      # acyclic: decodes to "z"
            yield (chain, 0)
            yield (chain[:-1], 0)                                                       # same chain, terminator cut
        if tier != "quick":
            for _ in range(20000):
                n = rng.randrange(1, 24)
                buf = bytes(rng.choice((0, 1, 2, 3, 0xC0, 0xC0, rng.randrange(n), rng.randrange(256))) for _ in range(n))
                yield (buf, rng.randrange(n))

    def nontrivial(self, case):
        return any(b >= 0xC0 for b in case[0][case[1]:])      # the name being decoded starts a pointer somewhere

    def check(self, case):
        buf, off = case
        ref = ref_walk(buf, off)
        box = []

        def decode():
            s, nm = BytesIO(buf), dns.Name()
            s.seek(off)
            box[:] = [s, nm]
            nm.decode(s)

        kind, val, late = run_with_deadline(decode, deadline_for(buf))
        s, nm = box
        if late:
            return "Name.decode did not finish (reference classifies the name as %s)" % ref[0]
        out = classify(kind, val)
        if out == "other":
            return "Name.decode raised %r (reference: %s)" % (val, ref[0])
        if ref[0] == "reserved":
            return None
        if ref[0] == "ok":
            if out != "msg":
                # a decoder may cap indirections or the 255-octet name length (RFC 1035 2.3.4) and still be total:
                # acceptance is demanded only for names well inside such limits
                if ref[3] <= 16 and sum(len(x) + 1 for x in ref[1]) < 255:
                    return "a finite, in-bounds name (labels %r, %d pointers) was rejected with %s" % (ref[1], ref[3], out)
                return None
            if nm.name != b".".join(ref[1]):
                return "decoded %r, reference labels %r" % (nm.name, ref[1])
            if s.tell() != ref[2]:
                return "stream left at %d, the enclosing structure continues at %d" % (s.tell(), ref[2])
            return None
        if out == "msg":
            return "returned name %r although the reference walker finds %s" % (nm.name, ref[0])
        return None


# ----------------------------------------------------------------------------
# 2. whole messages: short tails after a header
# ----------------------------------------------------------------------------

class ShortMessagesTotal(Bounded):
    prop = "C33"
    title = ("every short byte string decoded by Message.fromStr, DNSDatagramProtocol.datagramReceived and "
             "DNSProtocol.dataReceived: finishes, yields a message or EOFError/ValueError, the three agree")
    scope = ("every prefix of a header; headers with each section count in {0,1,2,ffff}; after a valid 12-byte header "
             "with 6 count/id configurations (id c00c = a pointer to the body) every tail of <= 2 bytes over all 256 "
             "values for 1 configuration and every tail of <= 4 (thorough 5) bytes over {00,01,02,0c,0d,0e,3f,40,c0,ff}"
             " for all; thorough: every <= 2-byte tail for all configurations; exhaustive")
    functions = ["Message.fromStr", "Message.decode", "Message.parseRecords", "Query.decode", "RRHeader.decode",
                 "Name.decode", "DNSDatagramProtocol.datagramReceived", "DNSProtocol.dataReceived"]

    CONFIGS = ((1, 0, 0, 0, 0x1234), (0, 1, 0, 0, 0x1234), (1, 1, 0, 0, 0xC00C), (0, 0, 1, 1, 0xC00C),
               (2, 2, 2, 2, 0x0161), (0xFFFF, 0xFFFF, 0xFFFF, 0xFFFF, 0xC00D))

    def cases(self, tier, rng):
        full = w_header(1, 1, 1, 1)
        for k in range(0, 13):
            yield full[:k]
        for counts in itertools.product((0, 1, 2, 0xFFFF), repeat=4):
            yield w_header(*counts)
            yield w_header(*counts) + b"\x00"
        for flags in (0, 0xFFFF, 0x8180, 0x7800):
            yield w_header(1, flags=flags) + w_query(b"\x00")
        alpha = bytes([0, 1, 2, 0x0C, 0x0D, 0x0E, 0x3F, 0x40, 0xC0, 0xFF])
        top = 4 if tier == "quick" else 5
        for ci, cfg in enumerate(self.CONFIGS):
            h = w_header(*cfg[:4], ident=cfg[4])
            for k in range(0, top + 1):
                for t in itertools.product(alpha, repeat=k):
                    yield h + bytes(t)
            if ci < 1 or tier != "quick":
                for a in range(256):
                    yield h + bytes([a])
                    for b in range(256):
                        yield h + bytes([a, b])
            # a well-formed query then the short tail as the first record
            hq = w_header(1, 1, 0, 0, ident=cfg[4]) + w_query(w_name(b"a"))
            for k in range(0, 4):
                for t in itertools.product(bytes([0, 0x0C, 0x11, 0xC0, 0xFF]), repeat=k):
                    yield hq + bytes(t)

    def nontrivial(self, case):
        return len(case) > HDR

    def check(self, case):
        return check_message_bytes(case)


# ----------------------------------------------------------------------------
# 3. every record type: enumerated mutations of valid encodings
# ----------------------------------------------------------------------------

class RecordMutationsTotal(Bounded):
    prop = "C33"
    title = ("valid one-record messages of every record type and every single mutation of them (truncation, rdlength, "
             "counts, byte, compression pointer): decode finishes with a message or EOFError/ValueError on all "
             "three protocol paths")
    scope = ("the 26 record types of RFC 1035/1183/2782/2874/2915/4255/6672/7208/8945 + OPT + 4 other type codes, 1..4 "
             "valid RDATA variants each (inline names and "
             "compression pointers), in the answer/authority/additional section; every truncation, 13 rdlength values, "
             "5 values for each section count, 8 (thorough 15) boundary values at every byte position, a pointer "
             "overwrite to 10 targets at every position, a pointer insertion at every position; rdata-only records "
             "with every rdata of <= 2 bytes over 6 values and rdlength 0..3; every type code 0..255 with 4 generic "
             "payloads; hand-made pointer rings of 1..8 hops in "
             "the question, owner and rdata names; thorough adds all pairs (truncation or rdlength) x (byte or pointer) "
             "and seeded random triple mutations")
    functions = ["Message.decode", "Message.parseRecords", "Message.lookupRecordType", "RRHeader.decode", "Name.decode",
                 "Charstr.decode", "SimpleRecord.decode", "Record_A.decode", "Record_SOA.decode", "Record_NULL.decode",
                 "Record_WKS.decode", "Record_AAAA.decode", "Record_A6.decode", "Record_SRV.decode",
                 "Record_NAPTR.decode", "Record_AFSDB.decode", "Record_RP.decode", "Record_HINFO.decode",
                 "Record_MINFO.decode", "Record_MX.decode", "Record_SSHFP.decode", "Record_TXT.decode",
                 "Record_TSIG.decode", "UnknownRecord.decode", "DNSDatagramProtocol.datagramReceived",
                 "DNSProtocol.dataReceived"]

    def seeds(self):
        for t in ALL_TYPES:
            for v in range(len(RDATA[t])):
                yield t, v, seed_message(t, v)

    def cases(self, tier, rng):
        values = BYTE_VALUES_QUICK if tier == "quick" else BYTE_VALUES_THOROUGH
        seen = set()

        def fresh(d):
            if d in seen:
                return False
            seen.add(d)
            return True

        for t, v, seed in self.seeds():
            for section in (1, 2, 3):
                d = seed_message(t, v, section)
                if fresh(d):
                    yield d
            for d in itertools.chain(single_mutations(seed, values), rdlength_mutations(seed)):
                if fresh(d):
                    yield d
            # the record where a question is announced, and a question in front of it
            for d in (w_header(1) + seed[HDR:], w_header(1, 1) + w_query(N2) + seed[HDR:],
                      w_header(0, 2) + seed[HDR:] + seed[HDR:], w_header(0, 1, 1, 1) + seed[HDR:] * 3):
                if fresh(d):
                    yield d
        # rdata-only: every tiny rdata for every type, rdlength right and wrong
        tiny = bytes([0, 1, 5, 0x80, 0xC0, 0xFF])
        for t in ALL_TYPES:
            for k in range(0, 3):
                for rd in itertools.product(tiny, repeat=k):
                    for rdl in range(0, 4):
                        d = w_header(0, 1) + w_rr(b"\x00", t, bytes(rd), rdlength=rdl)
                        if fresh(d):
                            yield d
        for t in range(0, 256):                       # every type code below 256 with a generic payload
            for rd in (b"", b"\x00", b"\x03abc\x00" + bytes(24), w_ptr(HDR) + bytes(26)):
                d = w_header(0, 1) + w_rr(b"\x00", t, rd)
                if fresh(d):
                    yield d
        for d in cycle_messages():
            if fresh(d):
                yield d
                for k in range(HDR, len(d)):
                    if fresh(d[:k]):
                        yield d[:k]
        if tier != "quick":
            for t, v, seed in self.seeds():
                firsts = [seed[:k] for k in range(RDATA_OFF, len(seed))] + list(rdlength_mutations(seed))
                for f in firsts:
                    for pos in range(HDR, len(f)):
                        for val in (0x00, 0x3F, 0xC0, 0xFF):
                            d = f[:pos] + bytes([val]) + f[pos + 1:]
                            if fresh(d):
                                yield d
                    for pos in range(HDR, len(f) - 1):
                        for tgt in (0, HDR, pos, len(f)):
                            d = f[:pos] + w_ptr(tgt) + f[pos + 2:]
                            if fresh(d):
                                yield d
            seeds = [s for _, _, s in self.seeds()] + list(cycle_messages())
            for _ in range(150000):
                d = seeds[rng.randrange(len(seeds))]
                for _k in range(rng.choice((2, 3, 3, 4))):
                    d = random_mutation(d, rng, seeds)
                if fresh(d):
                    yield d
            # long pointer chains: the most hops a 14-bit offset allows, acyclic and closed into a ring
            for hops in (255, 4096, 16370):
                base = HDR
                chain = b"".join(w_ptr(base + 2 * (i + 1)) for i in range(hops))
                yield w_header(1) + chain + w_query(b"\x01z\x00")
                yield w_header(1) + chain + w_ptr(base) + struct.pack("!HH", 1, 1)
                yield w_header(0, 1) + w_rr(chain + w_ptr(base + 2 * (hops // 2)), 2, w_ptr(base))

    def nontrivial(self, case):
        return len(case) > HDR + 1

    def check(self, case):
        return check_message_bytes(case)


INTERESTING = (0, 1, 2, 4, 5, 0x0C, 0x0D, 0x10, 0x3F, 0x40, 0x7F, 0x80, 0xBF, 0xC0, 0xC1, 0xFE, 0xFF)


def random_mutation(d, rng, corpus):
    if not d:
        return bytes([rng.choice(INTERESTING)])
    op = rng.randrange(9)
    pos = rng.randrange(len(d))
    if op == 0:
        return d[:pos]
    if op == 1:
        return d[:pos] + bytes([rng.choice(INTERESTING)]) + d[pos + 1:]
    if op == 2:
        return d[:pos] + bytes([d[pos] ^ (1 << rng.randrange(8))]) + d[pos + 1:]
    if op == 3:
        t = rng.choice((0, HDR, pos, max(pos - 2, 0), pos + 2, len(d), rng.randrange(len(d) + 4), 0x3FFF))
        return d[:pos] + w_ptr(t & 0x3FFF) + d[pos + 2:]
    if op == 4:
        t = rng.choice((HDR, pos, rng.randrange(len(d) + 4)))
        return d[:pos] + w_ptr(t & 0x3FFF) + d[pos:]
    if op == 5:
        v = rng.choice((0, 1, 2, len(d) - pos, len(d), 0xC00C, 0x7FFF, 0xFFFF, rng.randrange(64))) & 0xFFFF
        return d[:pos] + struct.pack("!H", v) + d[pos + 2:]
    if op == 6:
        a = rng.randrange(len(d))
        lo, hi = min(a, pos), max(a, pos)
        return d[:hi] + d[lo:hi] + d[hi:] if hi - lo <= 64 else d[:lo] + d[hi:]
    if op == 7:
        other = corpus[rng.randrange(len(corpus))]
        cut = rng.randrange(len(other) + 1)
        return (d[:pos] + other[cut:])[:4096]
    return d[:pos] + bytes([rng.randrange(256)]) + d[pos:]


# ----------------------------------------------------------------------------
# 4. coverage-guided mutation loop (the quantifier of the property), seeded
# ----------------------------------------------------------------------------

class CoverageGuidedTotal(Bounded):
    prop = "C33"
    title = ("coverage-guided mutation fuzzing of Message.fromStr seeded with the valid encodings and the pointer "
             "rings: every generated input decodes to a message or EOFError/ValueError within the deadline on all "
             "three protocol paths")
    scope = ("corpus = valid one-record messages of every type + hand-made pointer shapes; 9 mutation operators "
             "(truncate, boundary byte, bit flip, pointer overwrite/insert, 16-bit field rewrite, slice "
             "duplicate/delete, splice, insert); an input joins the corpus when it adds a line arc in "
             "twisted/names/dns.py; 20 000 inputs quick, 250 000 thorough; seeded, not exhaustive")
    functions = ["Message.fromStr", "Message.decode", "Message.parseRecords", "Name.decode", "Charstr.decode",
                 "Record_*.decode", "UnknownRecord.decode", "DNSDatagramProtocol.datagramReceived",
                 "DNSProtocol.dataReceived"]

    def cases(self, tier, rng):
        corpus = [seed_message(t, v) for t in ALL_TYPES for v in range(len(RDATA[t]))]
        corpus += list(itertools.islice(cycle_messages(), 0, None, 7))
        total = 20000 if tier == "quick" else 250000
        target = dns.__file__
        if target.endswith((".pyc", ".pyo")):
            target = target[:-1]
        arcs = set()
        guided = sys.gettrace() is None        # do not fight a debugger / coverage run: fall back to blind mutation

        def trace_run(data):
            new = [False]
            prev = [0]

            def local(frame, event, arg):
                if event == "line":
                    a = (frame.f_code.co_firstlineno, prev[0], frame.f_lineno)
                    prev[0] = frame.f_lineno
                    if a not in arcs:
                        arcs.add(a)
                        new[0] = True
                return local

            def glob(frame, event, arg):
                if frame.f_code.co_filename == target:
                    return local
                return None

            def body():
                sys.settrace(glob)
                try:
                    dns.Message().fromStr(data)
                finally:
                    sys.settrace(None)

            try:
                late = run_with_deadline(body, 1.0, retry=False)[2]
            finally:
                sys.settrace(None)
            return new[0], late

        if guided:
            for d in list(corpus):
                if trace_run(d)[1]:
                    yield d                  # a seed that does not finish: let the check report it right away
                    corpus.remove(d)
        for _ in range(total):
            d = corpus[rng.randrange(len(corpus))]
            for _k in range(rng.choice((1, 1, 2, 3))):
                d = random_mutation(d, rng, corpus)
            if len(d) > 4096:
                d = d[:4096]
            if guided:
                new, late = trace_run(d)
                if new and not late and len(corpus) < 4000:
                    corpus.append(d)
            yield d

    def nontrivial(self, case):
        return len(case) > HDR + 1

    def check(self, case):
        return check_message_bytes(case)


# ----------------------------------------------------------------------------
# 5. the TCP path with the frame arriving in pieces
# ----------------------------------------------------------------------------

class TcpSegmentedDelivery(Bounded):
    prop = "C33"
    title = ("a length-prefixed frame given to DNSProtocol.dataReceived in every 2-way split and byte-at-a-time: "
             "same outcome as one delivery; only EOFError/ValueError may escape")
    scope = ("frames around 16 messages (valid records of 8 types, truncated headers, pointer rings, 1- and 2-byte "
             "bodies), alone and followed by a second frame; every 2-way split of the stream, and one byte at a time")
    functions = ["DNSProtocol.dataReceived", "Message.fromStr"]

    def bodies(self):
        out = [seed_message(t, 0) for t in (1, 2, 6, 15, 16, 33, 41, 250)]
        out += [w_header(1)[:k] for k in (1, 2, 11, 12)]
        out += [w_header(1) + w_ptr(HDR) + struct.pack("!HH", 1, 1), w_header(0, 1) + w_ptr(HDR + 2) + w_ptr(HDR),
                w_header(1) + w_query(w_name(b"a")), w_header(0xFFFF, 0xFFFF, 0xFFFF, 0xFFFF)]
        return out

    def cases(self, tier, rng):
        bodies = self.bodies()
        for b in bodies:
            stream = frame(b)
            for cut in range(1, len(stream)):
                yield (stream, (cut,))
            yield (stream, tuple(range(1, len(stream))))
        good = w_header(1) + w_query(w_name(b"a"))
        for b in bodies[:12]:
            stream = frame(good) + frame(b)
            for cut in range(1, len(stream)):
                yield (stream, (cut,))

    def nontrivial(self, case):
        return True

    def check(self, case):
        stream, cuts = case
        pieces, last = [], 0
        for c in cuts:
            pieces.append(stream[last:c])
            last = c
        pieces.append(stream[last:])
        kind, whole, late = run_with_deadline(lambda: tcp_deliver([stream]), 2.0)
        if late:
            return "one delivery did not finish"
        w = classify(kind, whole)
        if w == "other":
            return "one delivery raised %r" % (whole,)
        kind, split, late = run_with_deadline(lambda: tcp_deliver(pieces), 2.0)
        if late:
            return "split delivery did not finish"
        s = classify(kind, split)
        if s == "other":
            return "delivered as %r: DNSProtocol.dataReceived raised %r (one delivery: %s)" % (
                [len(p) for p in pieces], split, w)
        if (s == "msg") != (w == "msg"):
            return "delivered as %r: %s, one delivery: %s" % ([len(p) for p in pieces], s, w)
        if s == "msg" and [shape(m) for m in split] != [shape(m) for m in whole]:
            return "delivered as %r: messages %r, one delivery: %r" % (
                [len(p) for p in pieces], [shape(m) for m in split], [shape(m) for m in whole])
        return None


BOUNDED = [NameDecodeVersusWalker, ShortMessagesTotal, RecordMutationsTotal, CoverageGuidedTotal, TcpSegmentedDelivery]
