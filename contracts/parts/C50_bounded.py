"""C50 bounded tier: the filesystem lock is mutually exclusive under every interleaving.

What runs
---------
The REAL `twisted.python.lockfile.FilesystemLock.lock` / `.unlock` code, for 2-4
simulated processes that share one lock path.  The four operating-system
call-outs the module makes (`symlink`, `readlink`, `rmlink`, `kill`, the same
seam twisted's own test_lockfile patches) and `os.getpid` are intercepted; each
call-out is one atomic step of a ghost world consisting of

    * one directory entry:  absent | symbolic link with a text target,
    * the set of live process ids.

The ghost world is the POSIX contract of the four calls and nothing else:
symlink fails with EEXIST iff the name exists, readlink / remove fail with
ENOENT iff it does not, kill(pid, 0) fails with ESRCH iff no live process has
that pid.  Nothing in it knows how the lock protocol works.

Scheduling.  lock() / unlock() are ordinary synchronous functions, so a process
is suspended *between two call-outs* by re-execution: the state of a process
inside a call is the list of results its call-outs have had so far; to take one
more step the call is started again on an identical object, the recorded
results are replayed (it is checked that the code asks for exactly the same
call-outs again), ONE new call-out is performed on the ghost world, and the
code runs on until it returns or asks for the next call-out (where it is cut
off with a BaseException).  Code between two call-outs touches only process
local state, so "one call-out plus the local code after it" is a sound atomic
step: every interleaving of the real system is equivalent to one of these.

Process scripts are words over
    L  call lock()                       U  call unlock() no matter what
    u  call unlock() iff this process    D  the process dies on the spot (its
       holds the lock (well behaved)        pid stops existing, links stay)
and a scenario is an initial world (free / a stale link naming a dead pid /
held by a live process) plus one script per process.

Oracle (from the property statement only)
-----------------------------------------
holders(t) = live processes whose lock() has returned a true value and whose
unlock() has not returned since.

 MUTEX      after every step  |holders| <= 1.
 UNLOCK     unlock() called by the holder returns without raising ...
 RELEASED   ... and afterwards the name is not a link to the ex-holder's pid.
 ACQUIRABLE in every reachable QUIESCENT state (no process is inside a call) in
            which the name is absent, or names a pid that is not a live process,
            and nobody holds the lock: a process that now calls lock() and is
            scheduled alone gets a true result from one of at most 3 calls in a
            row, each ending after at most 64 call-outs ("a lock left by a dead
            process can eventually be acquired"; same for a free lock).  Non
            quiescent states are exempt on purpose: a protocol may legitimately
            answer False while somebody else is half way through breaking the
            stale lock.
 TERMINATES in every reachable state, a process scheduled alone gets to the end
            of the call it is in (or about to make) within 64 call-outs: lock()
            answers, it does not wait; unlock() "can always release".  (This
            is also what keeps the search finite: a process that fails it is
            not stepped any further.)
 (lock() returning False spuriously under contention, `clean`, and whatever a
 non-holder's unlock() raises are NOT judged: the property does not speak of
 them.  Nothing beyond the first violation on a path is judged.)

Failure strings start with a stable tag.  When several kinds are found in one
scenario they are joined with " || "; the two [stale-break-race] kinds always
come last, so a string that *starts with* one of them reports nothing else:
    all(p.startswith(("MUTEX[stale-break-race]", "UNLOCK-FAILED[stale-break-race]"))
        for p in what.split(" || "))
is the region "only the stale-lock breaking race".

   MUTEX[stale-break-race]   two holders; on the way a lock() call removed
                             (rmlink) a link that at that moment named a LIVE pid
   MUTEX[other]              two holders, any other way
   UNLOCK-FAILED[stale-break-race]  the holder's unlock() raised, after a lock()
                             call of somebody else removed a live pid's link
   UNLOCK-FAILED[other]      the holder's unlock() raised, any other way
   NOT-RELEASED              the holder's unlock() returned, link still its own
   NOT-ACQUIRABLE[stale]     solo lock() x3 on a stale link never returned True
   NOT-ACQUIRABLE[free]      solo lock() x3 on an absent link never returned True
   NONTERMINATION            a process scheduled alone made 64 call-outs without
                             getting to the end of its call
([...-race] / [other] is a diagnosis added for triage, it is not part of the oracle.)
"""
from __future__ import annotations

import errno
import itertools
import os
from collections import deque

from pyvc.api import Bounded

from twisted.python import lockfile as _lf

LOCK = "/ghost/spool/the.lock"
DEAD_PID = 999  # never a live process in any scenario
PIDS = (101, 102, 103, 104, 105)
SOLO_LIMIT = 64      # call-outs one solo call may make
SOLO_ATTEMPTS = 3    # consecutive solo lock() calls of which one has to succeed ("eventually")
STATE_LIMIT = 400000

_ERRNAME = {errno.EEXIST: "EEXIST", errno.ENOENT: "ENOENT", errno.ESRCH: "ESRCH"}


class _Pause(BaseException):
    """Cuts the running call off at its next call-out (not an Exception on purpose:
    the code under test must not be able to swallow it with `except OSError/Exception`)."""


class HarnessError(Exception):
    pass


# --------------------------------------------------------------------------
# ghost world: the POSIX contract of the four call-outs


def _ghost(fs, alive, op, args):
    """Perform one call-out on the mutable dict `fs`; returns ('ret', value) or ('err', errno)."""
    if op == "symlink":
        value, name = args
        if not isinstance(value, str) or not isinstance(name, str):
            raise HarnessError("symlink%r: non-text argument" % (args,))
        if name in fs:
            return ("err", errno.EEXIST)
        fs[name] = value
        return ("ret", None)
    if op == "readlink":
        (name,) = args
        if name not in fs:
            return ("err", errno.ENOENT)
        return ("ret", fs[name])
    if op == "rmlink":
        (name,) = args
        if name not in fs:
            return ("err", errno.ENOENT)
        del fs[name]
        return ("ret", None)
    if op == "kill":
        pid, sig = args
        if sig != 0:
            raise HarnessError("kill%r: only the existence probe (signal 0) is modelled" % (args,))
        if pid in alive:
            return ("ret", None)
        return ("err", errno.ESRCH)
    raise HarnessError("unknown call-out %r" % (op,))


# --------------------------------------------------------------------------
# states
#
# state = (fs_items, dead, procs)
#   fs_items  sorted tuple of (name, target)
#   dead      frozenset of pids that have died
#   procs     tuple of (pid, script, pos, hist, holding, objstate)
#               hist      results of the call-outs of the call in progress: ((op, args, outcome), ...)
#               holding   lock() returned true and unlock() has not returned since
#               objstate  sorted items of the FilesystemLock instance dict between calls


def initial_state(scenario):
    init, scripts = scenario
    procs = []
    fs = {}
    if init == "stale":
        fs[LOCK] = str(DEAD_PID)
    for k, script in enumerate(scripts):
        pid = PIDS[k]
        holding = False
        obj = _lf.FilesystemLock(LOCK)
        if init == "held" and k == 0:
            fs[LOCK] = str(pid)
            holding = True
            obj.locked = True
            obj.clean = True
        procs.append(_normalise((pid, script, 0, (), holding, tuple(sorted(obj.__dict__.items())))))
    return (tuple(sorted(fs.items())), frozenset(), tuple(procs))


def _normalise(proc):
    pid, script, pos, hist, holding, objstate = proc
    while pos < len(script) and script[pos] == "u" and not holding and not hist:
        pos += 1
    return (pid, script, pos, hist, holding, objstate)


def enabled(state):
    _, dead, procs = state
    return [k for k, p in enumerate(procs) if p[0] not in dead and p[2] < len(p[1])]


def holders(state):
    _, dead, procs = state
    return [p[0] for p in procs if p[4] and p[0] not in dead]


def _link(state):
    return dict(state[0]).get(LOCK)


def _alive(state):
    return frozenset(p[0] for p in state[2]) - state[1]


# --------------------------------------------------------------------------
# the engine: runs the real code one call-out at a time


class Engine:
    OPS = ("symlink", "readlink", "rmlink", "kill")

    def __init__(self):
        self.cur_pid = None
        self.depth = 0
        self._spin_cache = {}

    def __enter__(self):
        if getattr(_lf, "_windows", False):
            raise Bounded.Skip()
        self.depth += 1
        if self.depth > 1:
            return self
        self._saved = {n: getattr(_lf, n) for n in self.OPS}
        self._saved_getpid = os.getpid
        for n in self.OPS:
            setattr(_lf, n, (lambda n: lambda *a: self._callout(n, a))(n))
        os.getpid = self._getpid
        return self

    def __exit__(self, *exc):
        self.depth -= 1
        if self.depth:
            return False
        for n, f in self._saved.items():
            setattr(_lf, n, f)
        os.getpid = self._saved_getpid
        return False

    def _getpid(self):
        return self._saved_getpid() if self.cur_pid is None else self.cur_pid

    def _callout(self, op, args):
        if self.cur_pid is None:
            raise HarnessError("call-out %s%r outside a scheduled step" % (op, args))
        i = self.idx
        self.idx += 1
        if i < len(self.hist):
            rop, rargs, out = self.hist[i]
            if (rop, rargs) != (op, args):
                raise HarnessError("replay diverged: call-out #%d was %s%r, now %s%r" % (i, rop, rargs, op, args))
        elif not self.performed:
            self.link_before = self.fs.get(LOCK)
            out = _ghost(self.fs, self.alive, op, args)
            self.hist.append((op, args, out))
            self.performed = True
        else:
            raise _Pause()
        if out[0] == "err":
            raise OSError(out[1], os.strerror(out[1]))
        return out[1]

    def advance(self, state, k):
        """One step of process k.  Returns (new state, event, verdicts)."""
        fs_items, dead, procs = state
        pid, script, pos, hist, holding, objstate = procs[k]
        act = script[pos]
        P = "P%d" % (k + 1)
        if act == "D":
            nproc = (pid, script, len(script), (), False, objstate)
            ev = dict(p=P, act=act, text="%s dies%s" % (P, " holding the lock" if holding else ""))
            return (fs_items, dead | {pid}, procs[:k] + (nproc,) + procs[k + 1:]), ev, []
        obj = _lf.FilesystemLock(LOCK)
        obj.__dict__.clear()
        obj.__dict__.update(objstate)
        self.fs = dict(fs_items)
        self.alive = _alive(state)
        self.hist = list(hist)
        self.idx = 0
        self.performed = False
        self.link_before = None
        self.cur_pid = pid
        try:
            try:
                res = obj.lock() if act == "L" else obj.unlock()
                outcome = ("ret", res)
            except _Pause:
                outcome = ("pause",)
            except HarnessError:
                raise
            except Exception as e:
                outcome = ("exc", e)
        finally:
            self.cur_pid = None
        if self.idx < len(hist):
            raise HarnessError("replay diverged: the call ended after %d of %d recorded call-outs" % (self.idx, len(hist)))
        call = "lock()" if act == "L" else "unlock()"
        ev = dict(p=P, act=act, pid=pid)
        text = "%s %s" % (P, call)
        if self.performed:
            op, args, out = self.hist[-1]
            shown = ",".join(repr(a) for a in args if a != LOCK)
            text += " %s(%s)->%s" % (op, shown, (repr(out[1]) if out[1] is not None else "ok") if out[0] == "ret"
                                     else _ERRNAME.get(out[1], out[1]))
            ev.update(op=op, out=out)
            if act == "L" and op == "rmlink" and out[0] == "ret" and args[0] == LOCK:
                try:
                    victim = int(self.link_before)
                except (TypeError, ValueError):
                    victim = None
                if victim in self.alive:
                    ev["broke_live"] = victim
                    text += "[REMOVES LIVE %d's LINK]" % victim
        verdicts = []
        new_fs = tuple(sorted(self.fs.items()))
        if outcome[0] == "pause":
            nproc = (pid, script, pos, tuple(self.hist), holding, objstate)
        else:
            nobj = tuple(sorted(obj.__dict__.items()))
            if outcome[0] == "ret":
                text += " => %r" % (outcome[1],)
            else:
                text += " => raises %s" % (_exc_text(outcome[1]),)
            if act == "L":
                if outcome[0] == "ret" and outcome[1]:
                    holding = True
            else:
                if holding:
                    if outcome[0] == "exc":
                        verdicts.append("UNLOCK-FAILED")
                    else:
                        holding = False
                        if self.fs.get(LOCK) == str(pid):
                            verdicts.append("NOT-RELEASED")
            nproc = _normalise((pid, script, pos + 1, (), holding, nobj))
        ev["text"] = text
        return (new_fs, dead, procs[:k] + (nproc,) + procs[k + 1:]), ev, verdicts

    def solo_acquire(self, state, k, attempts=SOLO_ATTEMPTS):
        """Process k (between calls) is scheduled alone and calls lock() up to `attempts` times in a row;
        one of them has to return a true value.  Returns (verdict or None, events)."""
        events = []
        link = _link(state)
        kind = "free" if link is None else "stale"
        fs_items, dead, procs = state
        pid, _script, _pos, _hist, holding, objstate = procs[k]
        state = (fs_items, dead, procs[:k] + ((pid, "L" * attempts, 0, (), holding, objstate),) + procs[k + 1:])
        for _attempt in range(attempts):
            pos = state[2][k][2]
            for _ in range(SOLO_LIMIT):
                state, ev, _v = self.advance(state, k)
                events.append(ev)
                if state[2][k][2] != pos:  # the call is over
                    break
            else:
                return "NONTERMINATION", events
            if state[2][k][4]:
                return None, events
        return "NOT-ACQUIRABLE[%s]" % kind, events

    def spins(self, state, k):
        """Process k, scheduled alone from `state`, does not get to the end of its current call within SOLO_LIMIT
        call-outs.  Returns the events of the attempt if so, else None.  (The answer depends only on the world
        and on process k, and is cached per implementation under test.)"""
        fs_items, dead, procs = state
        key = (fs_items, _alive(state), procs[k], _lf.FilesystemLock.lock, _lf.FilesystemLock.unlock)
        hit = self._spin_cache.get(key)
        if hit is not None:
            return hit or None
        pos = procs[k][2]
        events = []
        s = state
        for _ in range(SOLO_LIMIT):
            s, ev, _v = self.advance(s, k)
            events.append(ev)
            if s[2][k][2] != pos:
                events = False
                break
        if len(self._spin_cache) > 300000:
            self._spin_cache.clear()
        self._spin_cache[key] = events
        return events or None


def _exc_text(e):
    if isinstance(e, OSError) and e.errno in _ERRNAME:
        return "OSError(%s)" % _ERRNAME[e.errno]
    return "%s(%s)" % (type(e).__name__, str(e)[:40])


def _acquirable_pre(state, k):
    """The world is quiescent (no process is inside a call), the link is absent or names a pid that is not
    alive, nobody holds the lock, and process k is about to call lock(): the property promises it can get it."""
    pid, script, pos, hist, holding, _ = state[2][k]
    if script[pos] != "L" or holders(state) or any(p[3] for p in state[2]):
        return False
    link = _link(state)
    if link is None:
        return True
    try:
        owner = int(link)
    except ValueError:
        return False
    return owner not in _alive(state)


ENGINE = Engine()

_TAG_ORDER = ["NONTERMINATION", "UNLOCK-FAILED[other]", "NOT-RELEASED", "NOT-ACQUIRABLE[free]", "NOT-ACQUIRABLE[stale]",
              "MUTEX[other]", "UNLOCK-FAILED[stale-break-race]", "MUTEX[stale-break-race]"]


def _caused(kind, events):
    """MUTEX / UNLOCK-FAILED are sub-tagged by whether a lock() call removed a live process's link on the way
    (a diagnosis for triage, not part of the oracle)."""
    if kind in ("MUTEX", "UNLOCK-FAILED"):
        return "%s[%s]" % (kind, "stale-break-race" if any("broke_live" in e for e in events) else "other")
    return kind


def _mutex_tag(events):
    return _caused("MUTEX", events)


def _render(found):
    parts = []
    for tag in sorted(found, key=lambda t: (_TAG_ORDER.index(t) if t in _TAG_ORDER else -1)):
        detail, events = found[tag]
        parts.append("%s %s after: %s" % (tag, detail, "; ".join(e["text"] for e in events)))
    return " || ".join(parts) if parts else None


def explore(scenario, engine=ENGINE, state_limit=STATE_LIMIT):
    """Breadth-first search of every reachable state of the scenario (all interleavings).  Returns
    (found: tag -> (detail, shortest event list), number of states, number of transitions)."""
    with engine:
        init = initial_state(scenario)
        parent = {init: None}
        queue = deque([init])
        found = {}
        transitions = 0

        def trace(s):
            out = []
            while parent[s] is not None:
                s, ev = parent[s]
                out.append(ev)
            out.reverse()
            return out

        if len(holders(init)) > 1:
            raise HarnessError("bad scenario")
        while queue:
            s = queue.popleft()
            en = []
            for k in enabled(s):
                spin = engine.spins(s, k)
                if spin:
                    if "NONTERMINATION" not in found:
                        found["NONTERMINATION"] = ("P%d scheduled alone makes %d call-outs without finishing its call"
                                                   % (k + 1, len(spin)), trace(s) + spin[:8])
                else:
                    en.append(k)  # (a spinning process is not stepped any further: keeps the search finite)
            for k in en:
                if _acquirable_pre(s, k):
                    verdict, evs = engine.solo_acquire(s, k)
                    if verdict is not None and verdict not in found:
                        found[verdict] = ("P%d scheduled alone, nobody inside a call (link %r, owner not alive)"
                                          % (k + 1, _link(s)), trace(s) + evs)
            for k in en:
                t, ev, verdicts = engine.advance(s, k)
                transitions += 1
                h = holders(t)
                if len(h) > 1:
                    evs = trace(s) + [ev]
                    tag = _mutex_tag(evs)
                    if tag not in found:
                        found[tag] = ("pids %s hold the lock together" % (h,), evs)
                    continue  # nothing beyond a violation is judged
                if verdicts:
                    evs = trace(s) + [ev]
                    for v in verdicts:
                        v = _caused(v, evs)
                        if v not in found:
                            found[v] = ("(pid %d)" % ev["pid"], evs)
                    continue
                if t not in parent:
                    parent[t] = (s, ev)
                    queue.append(t)
                    if len(parent) > state_limit:
                        raise HarnessError("more than %d states" % state_limit)
        return found, len(parent), transitions


def run_schedule(scenario, schedule, engine=ENGINE, newcomer=True):
    """Run one explicit schedule (sequence of process indices).  Returns None or a failure string."""
    with engine:
        s = initial_state(scenario)
        events = []
        for k in schedule:
            if k not in enabled(s):
                raise Bounded.Skip()
            spin = engine.spins(s, k)
            if spin:
                return _render({"NONTERMINATION": ("P%d scheduled alone makes %d call-outs without finishing its call"
                                                   % (k + 1, len(spin)), events + spin[:8])})
            if _acquirable_pre(s, k):
                verdict, evs = engine.solo_acquire(s, k)
                if verdict is not None:
                    return _render({verdict: ("P%d scheduled alone, nobody inside a call (link %r, owner not alive)"
                                              % (k + 1, _link(s)), events + evs)})
            s, ev, verdicts = engine.advance(s, k)
            events.append(ev)
            h = holders(s)
            if len(h) > 1:
                return _render({_mutex_tag(events): ("pids %s hold the lock together" % (h,), events)})
            if verdicts:
                return _render({_caused(verdicts[0], events): ("(pid %d)" % ev["pid"], events)})
        if newcomer and not enabled(s) and not holders(s):
            # everybody is done and nobody holds the lock: a newcomer must be able to take it
            link = _link(s)
            owner_alive = False
            if link is not None:
                try:
                    owner_alive = int(link) in _alive(s)
                except ValueError:
                    owner_alive = True
            if not owner_alive:
                fs_items, dead, procs = s
                obj = _lf.FilesystemLock(LOCK)
                new = (PIDS[len(procs)], "L", 0, (), False, tuple(sorted(obj.__dict__.items())))
                s2 = (fs_items, dead, procs + (new,))
                verdict, evs = engine.solo_acquire(s2, len(procs))
                if verdict is not None:
                    return _render({verdict: ("a newcomer after everybody finished (link %r)" % (link,), events + evs)})
        return None


def all_schedules(scenario, engine=ENGINE, limit=None):
    """Every maximal schedule of the scenario (depth-first, no state merging)."""
    out = []
    with engine:
        stack = [(initial_state(scenario), ())]
        while stack:
            s, sched = stack.pop()
            en = enabled(s)
            if not en:
                out.append(sched)
                if limit is not None and len(out) >= limit:
                    return out, False
                continue
            for k in reversed(en):
                if engine.spins(s, k):
                    # never ending call: the schedule stops here (run_schedule reports it), keeps the tree finite
                    out.append(sched + (k,))
                    continue
                t, _ev, _v = engine.advance(s, k)
                stack.append((t, sched + (k,)))
    return out, True


# --------------------------------------------------------------------------
# script families


def scripts_upto(n, with_die=True):
    """Canonical scripts with at most n calls: words over L/u/U (a `u` only where the process can hold the
    lock, i.e. somewhere after an L with no unlock in between), optionally followed by D."""
    out = []
    for ln in range(1, n + 1):
        for w in itertools.product("LuU", repeat=ln):
            can_hold = False
            ok = True
            for c in w:
                if c == "L":
                    can_hold = True
                elif c == "u":
                    if not can_hold:
                        ok = False
                        break
                    can_hold = False
                else:
                    can_hold = False
            if not ok:
                continue
            out.append("".join(w))
            if with_die and "L" in w:
                out.append("".join(w) + "D")
    return out


def _may_race_on_stale(scenario):
    """Two or more processes call lock() in a scenario in which a link of a dead process can exist."""
    init, scripts = scenario
    lockers = sum(1 for s in scripts if "L" in s)
    stale_possible = init == "stale" or any("D" in s for s in scripts)
    return lockers >= 2 and stale_possible


# what the process that holds the lock in a 'held' initial world goes on to do
HELD_FIRST = ["", "u", "U", "D", "uL", "uLu", "L", "Lu", "uD"]


class LockAllInterleavings(Bounded):
    prop = "C50"
    title = ("real FilesystemLock.lock/unlock run by 2-3 simulated processes on a ghost link + live-pid set, every "
             "interleaving of their symlink/readlink/kill/rmlink call-outs (memoised breadth-first search) vs. the "
             "property: never two holders, the holder's unlock succeeds and releases, a free or stale lock can be "
             "acquired by a process scheduled alone")
    scope = ("one case = one scenario, ALL of whose interleavings are searched. Initial world: free / stale link of a "
             "dead pid / held by live process 1 (which goes on with one of 9 scripts: nothing, u, U, D, uL, uLu, L, Lu, "
             "uD). Scripts over L (lock), u (unlock iff holder), U (unlock regardless), D (die, possibly while "
             "holding). quick: 1 process with every script of <= 3 calls; 2 processes, every unordered pair of the "
             "12 scripts with <= 2 calls; 3 processes, every unordered triple over {L, Lu, LU, LD, UL}; each in "
             "every initial world. thorough adds pairs of scripts with <= 3 calls, triples of scripts with <= 2 calls, "
             "and 40 seeded random scenarios (3 processes with scripts of <= 4 calls in any world; 4 processes with "
             "scripts of <= 2 calls in worlds without a dead process). Atomicity: one OS call-out plus the "
             "process-local code after it; POSIX branch of lockfile only; pid reuse, EPERM from kill, unreadable "
             "link text and a process dying inside a call are not modelled")
    functions = ["FilesystemLock.lock", "FilesystemLock.unlock"]

    def cases(self, tier, rng):
        seen = set()

        def emit(init, scripts):
            # processes are interchangeable, except the initial holder (first script of a 'held' world)
            scripts = tuple(scripts)
            if init == "held":
                scripts = scripts[:1] + tuple(sorted(scripts[1:]))
            else:
                scripts = tuple(sorted(scripts))
            c = (init, scripts, "stale-race-possible" if _may_race_on_stale((init, scripts)) else "-")
            if c in seen:
                return None
            seen.add(c)
            return c

        def worlds(others, n):
            """n further processes with scripts from `others` in each initial world."""
            for init in ("free", "stale"):
                for combo in itertools.combinations_with_replacement(others, n):
                    yield init, combo
            for first in HELD_FIRST:
                for combo in itertools.combinations_with_replacement(others, n - 1):
                    yield "held", (first,) + combo

        s2 = scripts_upto(2)
        small3 = ["L", "Lu", "LU", "LD", "UL"]
        plan = [(scripts_upto(3), 1), (s2, 2), (small3, 3)]
        if tier == "thorough":
            plan += [(scripts_upto(3), 2), (s2, 3)]
        for others, n in plan:
            for init, scripts in worlds(others, n):
                c = emit(init, scripts)
                if c:
                    yield c
        if tier != "thorough":
            return
        s4 = scripts_upto(4)
        for _ in range(40):
            n = rng.choice((3, 3, 4))
            if n == 3:
                init = rng.choice(("free", "stale", "held"))
                scripts = tuple(rng.choice(s4) for _ in range(n))
            else:
                # four processes: only worlds without any dead process (with one the history-keyed state space
                # exceeds STATE_LIMIT; LockEverySchedule samples those)
                init = rng.choice(("free", "held"))
                scripts = tuple(rng.choice([s for s in s2 if "D" not in s]) for _ in range(n))
            if init == "held":
                scripts = (rng.choice(HELD_FIRST if n == 3 else ["", "u", "U", "uL", "L"]),) + scripts[1:]
            c = emit(init, scripts)
            if c:
                yield c

    def nontrivial(self, case):
        return len(case[1]) >= 2

    def check(self, case):
        init, scripts, _flag = case
        found, _states, _trans = explore((init, scripts))
        return _render(found)


class LockEverySchedule(Bounded):
    prop = "C50"
    title = ("the same real lock/unlock code and oracle, one case per complete schedule (no state merging): every "
             "maximal interleaving of the call-outs of 2 processes is run separately, and at its end a newcomer must "
             "be able to take the lock")
    scope = ("2 processes, scripts from {L, Lu, LU, LD, UL} (unordered pairs), initial world free / stale / held by "
             "process 1 (which then runs u, U, D, uL or L); every maximal schedule enumerated depth-first, each one a "
             "case; thorough adds the scripts LuLu and LuD, 3 processes over {L, Lu} on free / stale / held worlds "
             "(a scenario with more than 30000 maximal schedules is sampled: 4000 seeded random schedules) and 3000 "
             "seeded random schedules of 3-4 processes with scripts of up to 4 calls")
    functions = ["FilesystemLock.lock", "FilesystemLock.unlock"]

    FAMILY = ["L", "Lu", "LU", "LD", "UL"]
    CAP = 30000       # scenarios with more maximal schedules than this are sampled instead
    SAMPLE = 4000

    def scenarios(self, tier):
        fam = self.FAMILY + (["LuLu", "LuD"] if tier == "thorough" else [])
        out = []
        for init in ("free", "stale"):
            for pr in itertools.combinations_with_replacement(fam, 2):
                out.append((init, pr))
        for a in ("u", "U", "D", "uL", "L"):
            for b in fam:
                out.append(("held", (a, b)))
        if tier == "thorough":
            for init in ("free", "stale"):
                for tr in itertools.combinations_with_replacement(["L", "Lu"], 3):
                    out.append((init, tr))
            for a in ("u", "D"):
                for pr in itertools.combinations_with_replacement(["L", "Lu"], 2):
                    out.append(("held", (a,) + pr))
        return out

    @staticmethod
    def random_schedule(sc, rng):
        """A random maximal schedule, drawn while running the scenario."""
        with ENGINE:
            s = initial_state(sc)
            sched = []
            while True:
                en = enabled(s)
                if not en or len(sched) > 300:
                    break
                k = rng.choice(en)
                sched.append(k)
                if ENGINE.spins(s, k):
                    break
                s, _ev, _v = ENGINE.advance(s, k)
        return tuple(sched)

    def cases(self, tier, rng):
        for sc in self.scenarios(tier):
            flag = "stale-race-possible" if _may_race_on_stale(sc) else "-"
            scheds, complete = all_schedules(sc, limit=self.CAP)
            if not complete:
                scheds = sorted({self.random_schedule(sc, rng) for _ in range(self.SAMPLE)})
            for s in scheds:
                yield (sc[0], sc[1], flag, s)
        if tier != "thorough":
            return
        s4 = scripts_upto(4)
        for _ in range(3000):
            n = rng.choice((3, 4))
            init = rng.choice(("free", "stale", "held"))
            scripts = tuple(rng.choice(s4) for _ in range(n))
            if init == "held":
                scripts = (rng.choice(HELD_FIRST),) + scripts[1:]
            sc = (init, scripts)
            yield (init, scripts, "stale-race-possible" if _may_race_on_stale(sc) else "-",
                   self.random_schedule(sc, rng))

    def nontrivial(self, case):
        return len(set(case[3])) >= 2

    def check(self, case):
        init, scripts, _flag, sched = case
        return run_schedule((init, scripts), sched)


BOUNDED = [LockAllInterleavings, LockEverySchedule]
