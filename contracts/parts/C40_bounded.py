"""C40 bounded tier: SMTP message bodies travel transparently from
twisted.mail.smtp.SMTPClient (reading the message through
twisted.protocols.basic.FileSender) to twisted.mail.smtp.ESMTP.

What is run.  A real SMTPClient and a real ESMTP server are connected through
two in-memory transports (twisted.internet.testing.StringTransport) and a tiny
pump written here.  The message file handed to the client by getMailData() is
a file-like object whose read(n) returns the body in a *prescribed chunking*
(read() of a file-like object may always return fewer than n bytes), so every
chunking "from 1 byte up" is reachable without touching FileSender.  The pump
delivers the client's DATA payload (everything the client writes in answer to
the server's 354 reply) to the server in a *prescribed segmentation*.

Oracle (written from the property statement, RFC 5321 section 4.5.2 and the
documented behaviour of the server; nothing is taken from smtp.py):

  * ref_lines(body): a body made of LF-terminated lines *is* that list of
    lines.
  * The server-side message (the IMessage produced by the delivery's
    validateTo) must receive exactly those lines, after the server's documented
    header handling, which is (i) the line returned by
    IMessageDelivery.receivedHeader comes first and (ii) "a blank line between
    the generated Received:-header and the message body if the message comes in
    without any headers".  The reference accepts the body's lines with or
    without that single inserted blank line whenever the body does not begin
    with a header field (first line has no colon), and demands the exact lines
    otherwise; it accepts the Received line being present or absent.  This is
    deliberately no stricter than the statement.
  * eomReceived is called exactly once, connectionLost of the message never,
    and eomReceived is not called before the last octet of the client's DATA
    payload has been handed to the server ("the transfer ends only at the
    client's terminating '.'").
  * "No body content is ever interpreted as an SMTP command": the delivery sees
    exactly one validateFrom / validateTo / message; the server sends exactly
    one reply per command line the client sent outside the DATA payload, plus
    the greeting and the end-of-data reply; exactly one 354; no 4xx/5xx reply;
    the client's sentMail hook reports one accepted message with a 250.

Two half-duplex classes localise a failure to one side, each against a
reference peer that is an executable reading of RFC 5321 4.5.2
(ref_stuff / ref_unstuff below):

  * ClientWire: real SMTPClient/FileSender -> reference receiver.
  * ServerSegmented: reference sender -> real ESMTP, every segmentation.

Cases are tuples (body, chunks, seg):
  body   bytes, b"" or LF-terminated lines without CR
  chunks tuple of read sizes (the file's successive read() results; whatever is
         left after the listed sizes is returned in one further read)
  seg    ("whole",) | ("each",) | ("size", k) | ("cuts", (p1, p2, ...))
         segmentation of the DATA payload on its way to the server
Helper predicates for known-finding regions are exported at the bottom
(dot_at_read_start).
"""
from __future__ import annotations

import itertools

from twisted.internet import defer
from twisted.internet.testing import StringTransport
from twisted.mail import smtp

from pyvc.api import Bounded

RCVD = b"Received: by c40.test"

# --------------------------------------------------------------------------
# reference model


def ref_lines(body):
    """The lines of a body made of LF-terminated lines."""
    if body == b"":
        return []
    assert body.endswith(b"\n") and b"\r" not in body
    return body[:-1].split(b"\n")


def ref_stuff(lines):
    """RFC 5321 4.5.2 sender: every line is sent followed by CRLF; a line that
    begins with a period gets one additional period in front; the mail data
    are terminated by a line containing only a period."""
    out = []
    for ln in lines:
        out.append((b"." + ln if ln[:1] == b"." else ln) + b"\r\n")
    out.append(b".\r\n")
    return b"".join(out)


def ref_unstuff(payload):
    """RFC 5321 4.5.2 receiver.  Returns (lines, rest) where rest is whatever
    follows the terminating line, or None if the payload has no terminating
    '.' line."""
    lines = []
    pos = 0
    while True:
        j = payload.find(b"\r\n", pos)
        if j < 0:
            return None
        ln = payload[pos:j]
        pos = j + 2
        if ln == b".":
            return lines, payload[pos:]
        if ln[:1] == b".":
            ln = ln[1:]
        lines.append(ln)


def acceptable_message_lines(seen, body):
    """None if `seen` (the lines handed to IMessage.lineReceived) is what the
    statement allows for `body`, else a description."""
    want = ref_lines(body)
    rest = list(seen)
    if rest[:1] == [RCVD]:
        rest = rest[1:]
    if rest == want:
        return None
    headerless = not want or b":" not in want[0]
    if headerless and rest == [b""] + want:
        return None
    return "message got lines %r, body lines are %r" % (seen, want)


# --------------------------------------------------------------------------
# harness pieces (not under test)


class _ChunkedFile:
    """File-like object over `body` whose successive read() calls return the
    prescribed chunk sizes (never more than asked for)."""

    def __init__(self, body, sizes):
        self.body = body
        self.sizes = list(sizes)
        self.pos = 0
        self.reads = []

    def read(self, n=-1):
        left = len(self.body) - self.pos
        k = self.sizes.pop(0) if self.sizes else left
        k = min(k, left)
        if n is not None and n >= 0:
            k = min(k, n)
        out = self.body[self.pos:self.pos + k]
        self.pos += k
        if out:
            self.reads.append(out)
        return out

    def close(self):
        pass


class _Message:
    def __init__(self, rec):
        self.rec = rec
        self.lines = []
        self.eoms = 0
        self.lost = 0

    def lineReceived(self, line):
        self.lines.append(bytes(line))

    def eomReceived(self):
        self.eoms += 1
        self.rec.eom_at.append(self.rec.delivered)
        return defer.succeed(None)

    def connectionLost(self):
        self.lost += 1


class _Record:
    def __init__(self):
        self.froms = 0
        self.tos = 0
        self.messages = []
        self.eom_at = []
        self.delivered = None  # octets of the DATA payload handed to the server so far


class _Delivery:
    # duck-typed IMessageDelivery
    def __init__(self, rec):
        self.rec = rec

    def receivedHeader(self, helo, origin, recipients):
        return RCVD

    def validateFrom(self, helo, origin):
        self.rec.froms += 1
        return origin

    def validateTo(self, user):
        self.rec.tos += 1

        def make():
            m = _Message(self.rec)
            self.rec.messages.append(m)
            return m

        return make


class _Client(smtp.SMTPClient):
    debug = False

    def __init__(self, body, chunks):
        smtp.SMTPClient.__init__(self, b"client.c40.test")
        self.file = _ChunkedFile(body, chunks)
        self.pending = 1
        self.sent = []
        self.errors = []

    def getMailFrom(self):
        if self.pending:
            self.pending -= 1
            return b"from@c40.test"
        return None

    def getMailTo(self):
        return [b"to@c40.test"]

    def getMailData(self):
        return self.file

    def sentMail(self, code, resp, numOk, addresses, log):
        self.sent.append((code, numOk))

    def sendError(self, exc):
        self.errors.append(repr(exc))
        smtp.SMTPClient.sendError(self, exc)


def _segments(payload, seg):
    kind = seg[0]
    n = len(payload)
    if kind == "whole" or n == 0:
        return [payload]
    if kind == "each":
        return [payload[i:i + 1] for i in range(n)]
    if kind == "size":
        k = seg[1]
        return [payload[i:i + k] for i in range(0, n, k)]
    if kind == "cuts":
        cuts = sorted({p for p in seg[1] if 0 < p < n})
        out = []
        last = 0
        for p in cuts + [n]:
            out.append(payload[last:p])
            last = p
        return out
    raise ValueError(seg)


def _drain_producer(t):
    """A pull producer is asked for data whenever the transport's buffer is
    empty; here: until it unregisters."""
    guard = 0
    while t.producer is not None and not t.streaming:
        t.producer.resumeProducing()
        guard += 1
        if guard > 100000:
            raise RuntimeError("producer never finished")


def _reply_codes(stream):
    """Final reply lines (code + space) in a server output stream."""
    codes = []
    for ln in stream.split(b"\r\n"):
        if len(ln) >= 3 and ln[:3].isdigit() and ln[3:4] != b"-":
            codes.append(int(ln[:3]))
    return codes


def _new_server(rec):
    server = smtp.ESMTP()
    server.delivery = _Delivery(rec)
    server.timeout = None
    server.noisy = False
    return server


def run_end_to_end(body, chunks, seg):
    """Real client <-> real server.  Returns a dict of observations."""
    rec = _Record()
    server = _new_server(rec)
    client = _Client(body, chunks)
    st, ct = StringTransport(), StringTransport()
    server.makeConnection(st)
    client.makeConnection(ct)
    server_out = []
    commands = []  # client octets outside the DATA payload
    payload = None
    closed = False
    for _round in range(64):
        s2c = st.value()
        st.clear()
        expect_payload = False
        if s2c:
            server_out.append(s2c)
            if payload is None and 354 in _reply_codes(s2c):
                expect_payload = True
            client.dataReceived(s2c)
        if st.disconnecting or ct.disconnecting:
            closed = True
        _drain_producer(ct)
        c2s = ct.value()
        ct.clear()
        if not s2c and not c2s:
            break
        if closed:
            if c2s and not st.disconnecting:
                commands.append(c2s)
                server.dataReceived(c2s)
                server_out.append(st.value())
                st.clear()
            break
        if c2s:
            if expect_payload:
                payload = c2s
                done = 0
                for part in _segments(c2s, seg):
                    done += len(part)
                    rec.delivered = done
                    server.dataReceived(part)
                rec.delivered = None
            else:
                commands.append(c2s)
                server.dataReceived(c2s)
    else:
        raise RuntimeError("dialogue did not finish")
    return {
        "rec": rec, "client": client, "codes": _reply_codes(b"".join(server_out)),
        "commands": b"".join(commands), "payload": payload, "closed": closed,
    }


def judge(body, obs):
    """Compare the observations of a run with the property; None = held."""
    rec = obs["rec"]
    payload = obs["payload"]
    if payload is None:
        return "the client never sent a DATA payload (replies %r)" % (obs["codes"],)
    if len(rec.messages) != 1 or rec.froms != 1 or rec.tos != 1:
        return ("server side saw %d validateFrom, %d validateTo, %d messages (expected 1/1/1); replies %r"
                % (rec.froms, rec.tos, len(rec.messages), obs["codes"]))
    m = rec.messages[0]
    bad = acceptable_message_lines(m.lines, body)
    if bad:
        return bad + "; DATA payload on the wire %r" % (payload,)
    if m.eoms != 1 or m.lost:
        return "eomReceived called %d times, connectionLost %d times" % (m.eoms, m.lost)
    if rec.eom_at != [len(payload)]:
        return ("eomReceived fired when %r of the %d payload octets had been delivered"
                % (rec.eom_at, len(payload)))
    codes = obs["codes"]
    ncmd = obs["commands"].count(b"\r\n")
    if codes.count(354) != 1 or any(c >= 400 for c in codes) or len(codes) != ncmd + 2:
        return ("server replies %r for %d client command lines %r: some body content was treated as a command"
                % (codes, ncmd, obs["commands"]))
    cl = obs["client"]
    if cl.errors or cl.sent != [(250, 1)]:
        return "client outcome sentMail=%r errors=%r" % (cl.sent, cl.errors)
    return None


def run_client_only(body, chunks):
    """Real client against a scripted peer; returns the DATA payload octets
    (everything written in answer to 354), or a string describing trouble."""
    client = _Client(body, chunks)
    ct = StringTransport()
    client.makeConnection(ct)
    client.dataReceived(b"220 ref.c40.test\r\n")
    for _ in range(16):
        _drain_producer(ct)
        out = ct.value()
        ct.clear()
        if not out:
            return "client stopped before DATA"
        if out.upper().startswith(b"DATA"):
            client.dataReceived(b"354 go ahead\r\n")
            _drain_producer(ct)
            payload = ct.value()
            ct.clear()
            return payload
        client.dataReceived(b"250 ok\r\n")
    return "client never sent DATA"


def run_server_only(body, seg, quit_after=True):
    """Reference sender (lock step, RFC 5321 4.5.2 stuffing) against the real
    server; the DATA payload is delivered in segmentation `seg`."""
    rec = _Record()
    server = _new_server(rec)
    st = StringTransport()
    server.makeConnection(st)
    out = []

    def take():
        d = st.value()
        st.clear()
        out.append(d)
        return d

    take()
    sent = b""
    for cmd in (b"HELO client.c40.test\r\n", b"MAIL FROM:<from@c40.test>\r\n",
                b"RCPT TO:<to@c40.test>\r\n", b"DATA\r\n"):
        sent += cmd
        server.dataReceived(cmd)
        take()
    payload = ref_stuff(ref_lines(body))
    done = 0
    for part in _segments(payload, seg):
        done += len(part)
        rec.delivered = done
        server.dataReceived(part)
    rec.delivered = None
    take()
    if quit_after:
        sent += b"QUIT\r\n"
        server.dataReceived(b"QUIT\r\n")
        take()
    return {"rec": rec, "codes": _reply_codes(b"".join(out)), "commands": sent,
            "payload": payload, "closed": st.disconnecting}


def judge_server_only(body, obs):
    rec = obs["rec"]
    payload = obs["payload"]
    if len(rec.messages) != 1 or rec.froms != 1 or rec.tos != 1:
        return ("server side saw %d validateFrom, %d validateTo, %d messages; replies %r"
                % (rec.froms, rec.tos, len(rec.messages), obs["codes"]))
    m = rec.messages[0]
    bad = acceptable_message_lines(m.lines, body)
    if bad:
        return bad + "; payload %r" % (payload,)
    if m.eoms != 1 or m.lost:
        return "eomReceived called %d times, connectionLost %d times" % (m.eoms, m.lost)
    if rec.eom_at != [len(payload)]:
        return ("eomReceived fired when %r of the %d payload octets had been delivered"
                % (rec.eom_at, len(payload)))
    codes = obs["codes"]
    ncmd = obs["commands"].count(b"\r\n")
    if codes.count(354) != 1 or any(c >= 400 for c in codes) or len(codes) != ncmd + 2:
        return "server replies %r for %d command lines" % (codes, ncmd)
    return None


# --------------------------------------------------------------------------
# enumeration helpers


def bodies_over(alphabet, maxlen):
    """b"" and every LF-terminated string over `alphabet` (which contains LF)
    of length <= maxlen."""
    yield b""
    syms = [bytes([c]) for c in alphabet]
    for n in range(1, maxlen + 1):
        for tup in itertools.product(syms, repeat=n - 1):
            yield b"".join(tup) + b"\n"


def compositions(n):
    """Every way to cut n octets into consecutive non-empty reads."""
    if n == 0:
        yield ()
        return
    for mask in range(1 << (n - 1)):
        out = []
        run = 1
        for i in range(n - 1):
            if mask >> i & 1:
                out.append(run)
                run = 1
            else:
                run += 1
        out.append(run)
        yield tuple(out)


def line_bodies(tokens, maxlines, minlines=0):
    for n in range(minlines, maxlines + 1):
        for tup in itertools.product(tokens, repeat=n):
            yield b"".join(t + b"\n" for t in tup)


def uniform(n, k):
    """Reads of size k over n octets."""
    return tuple([k] * (n // k) + ([n % k] if n % k else []))


def chunk_starts(body, chunks):
    """Offsets at which the reads begin."""
    pos = 0
    out = []
    for k in chunks:
        if pos >= len(body):
            break
        out.append(pos)
        pos += k
    if pos < len(body):
        out.append(pos)
    return out


def dot_at_read_start(body, chunks):
    """True iff some read of the message file begins with '.' at the beginning
    of a body line (offset 0 or just after an LF).  Exported for known-finding
    regions: parts('C40').dot_at_read_start(case[0], case[1])."""
    for p in chunk_starts(body, chunks):
        if body[p:p + 1] == b"." and (p == 0 or body[p - 1:p] == b"\n"):
            return True
    return False


def unstuffed_dot_region(case):
    """Region predicate over a whole case (body, chunks, seg) of the classes
    whose client is the real SMTPClient: parts('C40').unstuffed_dot_region(case)."""
    return dot_at_read_start(case[0], case[1])


def has_dot_line(body):
    return any(ln[:1] == b"." for ln in ref_lines(body))


LINE_TOKENS = (b"", b".", b"..", b".a", b"a", b"a.", b"QUIT", b"H: .", b" .", b". ")
HEADER_PREFIX = b"Subject: s\n\n"


def random_body(rng, k, mode):
    """A body rich in dot-lines.  mode "aligned": many dot-lines start on
    multiples of k (the uniform read size) and one may open the body; mode
    "elsewhere" (k >= 2): the body opens with a non-dot line and every dot-line
    starts strictly inside a read; mode "mixed": no alignment is arranged."""
    kinds = (b".", b".", b"..", b"...", b".QUIT", b".a", b"a", b"", b"QUIT", b"RSET",
             b"MAIL FROM:<x@y>", b"DATA", b"a.b", b"x" * 7, b". ", b"h: v")
    lines = []
    total = 0
    nlines = rng.randint(1, 24)
    if mode == "elsewhere":
        lines.append(rng.choice((b"a", b"", b"QUIT", b"h: v", b"a.")))
        total += len(lines[-1]) + 1
    elif rng.random() < 0.5:
        lines.append(rng.choice((b".", b"..", b".a", b".QUIT")))
        total += len(lines[-1]) + 1
    for _ in range(nlines):
        ln = rng.choice(kinds)
        if ln[:1] == b"." and lines:
            pad = 0
            if mode == "aligned" and rng.random() < 0.6:
                # pad the previous line so that this dot-line starts on a read boundary
                pad = (-total) % k
            elif mode == "elsewhere" and total % k == 0:
                pad = 1
            lines[-1] = lines[-1] + b"p" * pad
            total += pad
        lines.append(ln)
        total += len(ln) + 1
    return b"".join(ln + b"\n" for ln in lines)


def random_seg(rng, n):
    r = rng.random()
    if r < 0.2:
        return ("whole",)
    if r < 0.4:
        return ("each",)
    if r < 0.6:
        return ("size", rng.randint(1, 9))
    return ("cuts", tuple(sorted(rng.sample(range(1, max(2, n)), min(max(1, n - 1), rng.randint(1, 6))))))


# --------------------------------------------------------------------------
# the checks


class EndToEndAllChunkings(Bounded):
    prop = "C40"
    title = ("lines received by the server-side IMessage (and replies, eom timing, delivery calls) vs the body's "
             "lines, real SMTPClient+FileSender -> real ESMTP, every chunking of the client's reads")
    scope = ("quick: the empty body and every LF-terminated body over {'.', 'a', LF} of length <= 6, alone and after "
             "the header block 'Subject: s\\n\\n' (lengths <= 5 there; header block read in one piece, octet by "
             "octet, or with its last LF joined to the next read); every composition of the body into read "
             "chunks (all 2^(n-1)); DATA payload delivered whole and one octet at a time.  thorough: lengths <= 7 "
             "(<= 6 after the header block), additionally payload segments of 2 and 3 octets")
    functions = ["SMTPClient.smtpState_data", "SMTPClient.transformChunk", "SMTPClient.finishedFileTransfer",
                 "FileSender.beginFileTransfer", "FileSender.resumeProducing", "SMTP.dataLineReceived",
                 "SMTP.do_DATA", "SMTP.state_COMMAND"]

    def cases(self, tier, rng):
        quick = tier == "quick"
        segs = [("whole",), ("each",)] if quick else [("whole",), ("each",), ("size", 2), ("size", 3)]
        plain = 6 if quick else 7
        after = 5 if quick else 6
        for body in bodies_over(b".a\n", plain):
            for chunks in compositions(len(body)):
                for seg in segs:
                    yield (body, chunks, seg)
        pre = len(HEADER_PREFIX)
        for tail in bodies_over(b".a\n", after):
            if not tail:
                continue
            body = HEADER_PREFIX + tail
            for ch in compositions(len(tail)):
                # the header block is read in one piece or octet by octet; the tail in every chunking
                for head in ((pre,), (1,) * pre, (pre - 1,)):
                    if head == (pre - 1,):
                        chunks = (pre - 1, ch[0] + 1) + ch[1:]
                    else:
                        chunks = head + ch
                    for seg in segs:
                        yield (body, chunks, seg)

    def nontrivial(self, case):
        return has_dot_line(case[0])

    def check(self, case):
        body, chunks, seg = case
        return judge(body, run_end_to_end(body, chunks, seg))


class EndToEndLinesAndSegments(Bounded):
    prop = "C40"
    title = ("same end-to-end comparison over bodies built from whole lines ('.', '..', '.a', 'QUIT', 'H: .', ...), "
             "uniform read sizes and every 2-way read split, with every 2-way split of the DATA payload")
    scope = ("quick: bodies of <= 3 lines from LINE_TOKENS = {'', '.', '..', '.a', 'a', 'a.', 'QUIT', 'H: .', ' .', '. '}; reads: uniform size "
             "k for every k in 1..len, and every 2-way split, each with payload whole / one octet at a time; plus, "
             "for reads of size 1, len and every 2-way read split that starts a read on a line start, every 2-way "
             "split of the DATA payload (bodies <= 2 lines).  thorough: <= 4 lines, 2-way payload splits for <= 3 "
             "lines")
    functions = EndToEndAllChunkings.functions

    def cases(self, tier, rng):
        quick = tier == "quick"
        maxl = 3 if quick else 4
        maxl2 = 2 if quick else 3
        for body in line_bodies(LINE_TOKENS, maxl, 1):
            n = len(body)
            readings = [uniform(n, k) for k in range(1, n + 1)]
            readings += [(p, n - p) for p in range(1, n) if (p, n - p) not in readings]
            for chunks in readings:
                for seg in (("whole",), ("each",)):
                    yield (body, chunks, seg)
            if body.count(b"\n") <= maxl2:
                paylen = len(ref_stuff(ref_lines(body)))
                sel = [uniform(n, 1), uniform(n, n)]
                sel += [(p, n - p) for p in range(1, n) if body[p - 1:p] == b"\n"]
                for chunks in sel:
                    for p in range(1, paylen + 1):
                        yield (body, chunks, ("cuts", (p,)))

    def nontrivial(self, case):
        return has_dot_line(case[0])

    def check(self, case):
        body, chunks, seg = case
        return judge(body, run_end_to_end(body, chunks, seg))


class EndToEndRandom(Bounded):
    prop = "C40"
    title = ("same end-to-end comparison over seeded random larger bodies rich in dot-lines placed at the start, on "
             "read-chunk boundaries and elsewhere")
    scope = ("seeded random: bodies of 1..25 lines from dot-lines, command look-alikes and text; one third with "
             "dot-lines padded onto multiples of the read size (and possibly opening the body), one third with "
             "every dot-line strictly inside a read, one third unarranged; read size uniform k in 1..40 or one "
             "read; random payload segmentation (whole, octets, fixed size, up to 6 random cuts); 600 cases quick, "
             "30000 thorough")
    functions = EndToEndAllChunkings.functions

    def cases(self, tier, rng):
        n = 600 if tier == "quick" else 30000
        for i in range(n):
            mode = ("aligned", "elsewhere", "mixed")[i % 3]
            k = rng.randint(2 if mode == "elsewhere" else 1, 40)
            body = random_body(rng, k, mode)
            if mode == "mixed" and rng.random() < 0.3:
                chunks = (len(body),)
            else:
                chunks = uniform(len(body), k)
            seg = random_seg(rng, len(body) + 3)
            yield (body, chunks, seg)

    def nontrivial(self, case):
        return has_dot_line(case[0])

    def check(self, case):
        body, chunks, seg = case
        return judge(body, run_end_to_end(body, chunks, seg))


class ClientWire(Bounded):
    prop = "C40"
    title = ("DATA payload written by the real SMTPClient/FileSender, decoded by a reference RFC 5321 4.5.2 receiver, "
             "vs the body's lines; the terminating '.' line must be the last thing in the payload")
    scope = ("every non-empty LF-terminated body over {'.', 'a', LF} of length <= 7 (quick) / 8 (thorough) in every "
             "composition into read chunks; bodies of <= 3 (4) lines from the line tokens with uniform read sizes "
             "1..len.  The empty body is left to the end-to-end classes (RFC 5321 does not say how zero lines are "
             "framed)")
    functions = ["SMTPClient.smtpState_data", "SMTPClient.transformChunk", "SMTPClient.finishedFileTransfer",
                 "FileSender.beginFileTransfer", "FileSender.resumeProducing"]

    def cases(self, tier, rng):
        quick = tier == "quick"
        for body in bodies_over(b".a\n", 7 if quick else 8):
            if not body:
                continue
            for chunks in compositions(len(body)):
                yield (body, chunks, ("whole",))
        for body in line_bodies(LINE_TOKENS, 3 if quick else 4, 1):
            for k in range(1, len(body) + 1):
                yield (body, uniform(len(body), k), ("whole",))

    def nontrivial(self, case):
        return has_dot_line(case[0])

    def check(self, case):
        body, chunks, _seg = case
        payload = run_client_only(body, chunks)
        if isinstance(payload, str):
            return payload
        dec = ref_unstuff(payload)
        if dec is None:
            return "payload %r has no terminating '.' line" % (payload,)
        lines, rest = dec
        if rest:
            return ("payload %r: a reference receiver ends the message at a '.' line that is not the client's "
                    "terminator, %r is left over as commands" % (payload, rest))
        if lines != ref_lines(body):
            return "payload %r decodes to %r, body lines are %r" % (payload, lines, ref_lines(body))
        return None


class ServerSegmented(Bounded):
    prop = "C40"
    title = ("lines received by the server-side IMessage (and replies, eom timing) vs the body's lines, reference "
             "RFC 5321 4.5.2 sender -> real ESMTP in every segmentation of the DATA payload")
    scope = ("quick: the empty body, every LF-terminated body over {'.', 'a', LF} of length <= 5 and bodies of <= 2 "
             "lines from the line tokens: payload whole, one octet at a time, every 2-way split, and every 3-way "
             "split for payloads <= 14 octets.  thorough: length <= 6, <= 3 lines, 3-way splits for payloads <= 20 "
             "octets")
    functions = ["SMTP.dataLineReceived", "SMTP.do_DATA", "SMTP.state_COMMAND", "SMTP.lineReceived",
                 "LineOnlyReceiver.dataReceived"]

    def cases(self, tier, rng):
        quick = tier == "quick"
        seen = set()
        bodies = list(bodies_over(b".a\n", 5 if quick else 6)) + list(line_bodies(LINE_TOKENS, 2 if quick else 3, 1))
        lim3 = 14 if quick else 20
        for body in bodies:
            if body in seen:
                continue
            seen.add(body)
            n = len(ref_stuff(ref_lines(body)))
            yield (body, (), ("whole",))
            yield (body, (), ("each",))
            for p in range(1, n):
                yield (body, (), ("cuts", (p,)))
            if n <= lim3:
                for p in range(1, n):
                    for q in range(p + 1, n):
                        yield (body, (), ("cuts", (p, q)))

    def nontrivial(self, case):
        return has_dot_line(case[0])

    def check(self, case):
        body, _chunks, seg = case
        return judge_server_only(body, run_server_only(body, seg))


class LongestLines(Bounded):
    prop = "C40"
    title = "body lines at the receiver's maximum line length, cut around their line end"
    scope = ("bodies of three lines whose middle line has MAX_LENGTH - 2 .. MAX_LENGTH octets on the wire (with and "
             "without a leading dot, which is stuffed), reference sender -> real ESMTP, payload whole and cut at every "
             "position within 3 octets of the end of the long line (between its CR and LF in particular), plus two "
             "such cuts together")
    functions = ["LineOnlyReceiver.dataReceived", "SMTP.dataLineReceived", "SMTP.lineLengthExceeded"]

    def cases(self, tier, rng):
        M = smtp.SMTP.MAX_LENGTH
        for dot in (False, True):
            for wire_len in (M - 2, M - 1, M):
                n = wire_len - (1 if dot else 0)   # a leading dot is doubled on the wire
                line = (b"." if dot else b"x") + b"y" * (n - 1)
                body = b"first\n" + line + b"\nlast\n"
                payload = ref_stuff(ref_lines(body))
                end = payload.index(b"\r\n", 7) + 2     # just after the long line's CRLF
                yield (body, (), ("whole",))
                for d in range(-3, 4):
                    yield (body, (), ("cuts", (end + d,)))
                yield (body, (), ("cuts", (end - 2, end - 1)))
                yield (body, (), ("cuts", (end - 1, end)))

    def check(self, case):
        body, _chunks, seg = case
        return judge_server_only(body, run_server_only(body, seg))


BOUNDED = [EndToEndAllChunkings, EndToEndLinesAndSegments, EndToEndRandom, ClientWire, ServerSegmented, LongestLines]
