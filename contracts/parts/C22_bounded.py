"""C22 (bounded tier): chunked transfer coding round-trips and rejects malformed input.

The real code under test is twisted.web.http._ChunkedTransferDecoder (with _abnf._hexint) and http.toChunk.

Oracles (all independent of the implementation):

 * for streams built by construction (RoundTrip, ExtensionsTrailersLimits, TrailerLimitBoundary) the expected body,
   the end of the encoding and the extra bytes are known from how the stream was built;
 * for arbitrary / mutated streams (MalformedAndTruncated) `classify` is a whole-stream, non-incremental reading of
   the RFC 7230 section 4.1 grammar

       chunked-body = *chunk last-chunk trailer-part CRLF
       chunk        = chunk-size [ chunk-ext ] CRLF chunk-data CRLF        chunk-size = 1*HEXDIG
       last-chunk   = 1*"0" [ chunk-ext ] CRLF
       chunk-ext    = *( ";" chunk-ext-name [ "=" chunk-ext-val ] )
       trailer-part = *( header-field CRLF )

   which says, for a complete stream followed by end-of-stream, which of four things the property demands:
   ok (body, end offset), reject, incomplete, or unspecified; plus a `may_from` offset from which a rejection is
   *permitted* but not demanded (constructs the property is silent about: ill-formed but harmless extension
   syntax, backslash in extensions -- documented by twisted as disallowed although RFC quoted-pair allows it --,
   ill-formed trailer fields, anything over the documented size limits).

What is demanded of a run (any split of the stream into non-empty deliveries, then end of stream):
   ok          no exception; data callbacks concatenate to exactly the body, all before completion; completion is
               signalled exactly once, during the delivery that contains the last byte of the encoding, with exactly
               the rest of that delivery (the caller never feeds the decoder after completion: later deliveries are
               the caller's extra bytes); noMoreData() then does not raise.
   reject      _MalformedChunkedDataError from some dataReceived, not before the first offending byte was delivered;
               no completion; the data delivered until then is a prefix of the body decodable up to the error.
   incomplete  no completion; no rejection; noMoreData() raises _DataLoss if the stream ended before the last-chunk
               size line was complete (after it -- inside the trailer part -- both _DataLoss and silence are allowed:
               the property only speaks of "before the last chunk").
   always      nothing but _MalformedChunkedDataError escapes dataReceived, nothing but _DataLoss escapes noMoreData.
"""

import itertools
import re

from pyvc.api import Bounded
from twisted.web import http

CRLF = b"\r\n"
SIZE_LINE_LIMIT = http.maxChunkSizeLineLength  # documented: length of the CRLF-terminated size line
TRAILER_LIMIT = 2 ** 16  # documented on the decoder: "Maximum bytes for trailer header"

# --------------------------------------------------------------------------------------------------------------
# reference grammar pieces (RFC 7230 3.2.6 / 4.1.1)

_T = rb"[!#$%&'*+\-.^_`|~0-9A-Za-z]"
_QD = rb"[\t \x21\x23-\x5b\x5d-\x7e\x80-\xff]"
_QP = rb"\\[\t \x21-\x7e\x80-\xff]"
_Q = rb'"(?:' + _QD + rb"|" + _QP + rb')*"'
_EXT1 = rb";" + _T + rb"+(?:=(?:" + _T + rb"+|" + _Q + rb"))?"
EXT_RE = re.compile(rb"(?:" + _EXT1 + rb")*\Z", re.S)
# a proper prefix of some well-formed chunk-ext
EXT_PREFIX_RE = re.compile(
    rb"(?:" + _EXT1 + rb")*(?:;(?:" + _T + rb"+(?:=(?:" + _T + rb'*|"(?:' + _QD + rb"|" + _QP + rb")*\\?)?)?)?)?\Z", re.S)
_FV = rb"[\t \x21-\x7e\x80-\xff]"
FIELD_RE = re.compile(_T + rb"+:" + _FV + rb"*\Z", re.S)
FIELD_PREFIX_RE = re.compile(rb"(?:" + _T + rb"*|" + _T + rb"+:" + _FV + rb"*\r?)\Z", re.S)
HEXDIGITS = frozenset(b"0123456789abcdefABCDEF")


def ext_byte_allowed(c):
    """HTAB, SP, VCHAR, obs-text: every byte that can occur in a token, '=', ';' or a quoted-string."""
    return c == 0x09 or 0x20 <= c <= 0x7E or c >= 0x80


class Verdict:
    __slots__ = ("kind", "body", "end", "earliest", "pre_last", "may_from")

    def __init__(self, kind, body=b"", end=None, earliest=None, pre_last=None, may_from=None):
        self.kind, self.body, self.end, self.earliest = kind, body, end, earliest
        self.pre_last, self.may_from = pre_last, may_from

    def __repr__(self):
        return "Verdict(%s body=%r end=%r earliest=%r pre_last=%r may_from=%r)" % (
            self.kind, self.body[:40], self.end, self.earliest, self.pre_last, self.may_from)


def classify(s, size_limit=SIZE_LINE_LIMIT, trailer_limit=TRAILER_LIMIT):
    """What the property demands for the complete stream `s` followed by end of stream."""
    pos = 0
    body = b""
    may_from = [None]

    def may(off):
        if may_from[0] is None:
            may_from[0] = off

    def out(kind, **kw):
        mf = may_from[0]
        if kind == "incomplete" and "earliest" in kw:
            # a partial line that can no longer become well-formed: rejecting it early is fine, so is data loss
            e = kw.pop("earliest")
            mf = e if mf is None else min(mf, e)
        return Verdict(kind, body=body, may_from=mf, **kw)

    while True:
        eol = s.find(CRLF, pos)
        complete = eol >= 0
        line = s[pos:eol] if complete else s[pos:]
        pending_cr = (not complete) and line.endswith(b"\r")
        if pending_cr:
            line = line[:-1]  # may be the first half of the line terminator
        min_total = len(line) + 2
        if min_total > size_limit:
            may(pos)
        semi = line.find(b";")
        sizepart = line if semi < 0 else line[:semi]
        bad = None
        for i, c in enumerate(sizepart):
            if c not in HEXDIGITS:
                bad = pos + i
                break
        if bad is None and not sizepart and (complete or semi >= 0):
            bad = pos  # empty chunk-size
        if bad is None and semi >= 0:
            ext = line[semi + 1:]
            for i, c in enumerate(ext):
                if not ext_byte_allowed(c):
                    bad = pos + semi + 1 + i
                    break
            if bad is None:
                full = line[semi:]
                if b"\\" in full:
                    may(pos)  # twisted documents backslash as disallowed; RFC quoted-pair allows it
                elif complete and not EXT_RE.match(full):
                    may(pos)
                elif not complete and not EXT_PREFIX_RE.match(full):
                    may(pos)
        if bad is not None:
            if complete:
                return out("reject", earliest=bad)
            return out("incomplete", earliest=bad, pre_last=True)
        if not complete:
            return out("incomplete", pre_last=True)
        n = int(sizepart.decode("ascii"), 16)
        pos = eol + 2
        if n > 0:
            avail = s[pos:pos + n]
            body += avail
            if len(avail) < n:
                return out("incomplete", pre_last=True)
            pos += n
            tail = s[pos:pos + 2]
            if tail == CRLF:
                pos += 2
                continue
            if len(tail) == 2:
                return out("reject", earliest=pos + (1 if tail[:1] == b"\r" else 0))
            if len(tail) == 1 and tail != b"\r":
                return out("incomplete", earliest=pos, pre_last=True)
            return out("incomplete", pre_last=True)
        # last-chunk seen: trailer-part CRLF
        tstart = pos
        while True:
            eol = s.find(CRLF, pos)
            if eol < 0:
                partial = s[pos:]
                if b"\n" in partial:
                    return out("unspecified")  # a recipient MAY take a bare LF as a field line terminator
                stripped = partial[:-1] if partial.endswith(b"\r") else partial
                least = (pos - tstart) + len(stripped) + 2 + (2 if stripped else 0)
                if least > trailer_limit:
                    may(tstart)
                if not FIELD_PREFIX_RE.match(partial):
                    may(pos)
                return out("incomplete", pre_last=False)
            line = s[pos:eol]
            if line == b"":
                end = eol + 2
                if end - tstart > trailer_limit:
                    may(tstart)
                return out("ok", end=end)
            if b"\n" in line:
                return out("unspecified")
            if not FIELD_RE.match(line):
                may(pos)
            pos = eol + 2


# --------------------------------------------------------------------------------------------------------------
# driving the real decoder


class Run:
    __slots__ = ("data", "fins", "data_after_fin", "rejected", "fin_span", "eof", "error")


def run(stream, cuts):
    """Feed `stream` cut at the offsets `cuts`; stop at rejection or completion; then signal end of stream."""
    r = Run()
    data, fins = [], []
    r.data_after_fin = False
    r.rejected = r.fin_span = r.eof = r.error = None

    def on_data(b):
        if fins:
            r.data_after_fin = True
        data.append(bytes(b))

    dec = http._ChunkedTransferDecoder(on_data, lambda b: fins.append(bytes(b)))
    lo = 0
    for hi in itertools.chain(cuts, (len(stream),)):
        if hi == lo:
            continue
        try:
            dec.dataReceived(stream[lo:hi])
        except http._MalformedChunkedDataError:
            r.rejected = (lo, hi)
            break
        except Exception as e:  # noqa
            r.error = "dataReceived(%r) raised %r" % (stream[lo:hi][:40], e)
            break
        if fins:
            r.fin_span = (lo, hi)
            break
        lo = hi
    if r.rejected is None and r.error is None:
        try:
            dec.noMoreData()
            r.eof = "clean"
        except http._DataLoss:
            r.eof = "loss"
        except Exception as e:  # noqa
            r.error = "noMoreData raised %r" % (e,)
    r.data = b"".join(data)
    r.fins = fins
    return r


def judge(v, stream, r):
    """None if the run `r` of `stream` is what verdict `v` demands, else a description."""
    if r.error:
        return r.error
    if v.kind == "unspecified":
        return None
    if len(r.fins) > 1:
        return "completion signalled %d times: %r" % (len(r.fins), r.fins)
    if r.data_after_fin:
        return "body data delivered after completion was signalled"
    if r.rejected is not None:
        if r.fins:
            return "completion signalled and then the same delivery rejected"
        if not v.body.startswith(r.data):
            return "before rejecting, delivered %r which is not a prefix of the body %r" % (r.data[:60], v.body[:60])
        if v.kind == "reject":
            if r.rejected[1] <= v.earliest:
                return "rejected after only %d bytes, the first offending byte is at offset %d" % (
                    r.rejected[1], v.earliest)
            return None
        if v.may_from is not None and r.rejected[1] > v.may_from:
            return None
        return "well-formed input rejected (%s expected) in delivery [%d:%d]" % (v.kind, r.rejected[0], r.rejected[1])
    if v.kind == "reject":
        return "malformed input (first offending byte at offset %d) not rejected; delivered %r, completion %r, eof %s" % (
            v.earliest, r.data[:60], r.fins, r.eof)
    if v.kind == "ok":
        if not r.fins:
            return "complete encoding delivered but completion not signalled (eof: %s, data %r)" % (r.eof, r.data[:60])
        lo, hi = r.fin_span
        if not (lo < v.end <= hi):
            return "completion signalled in delivery [%d:%d] but the encoding ends at %d" % (lo, hi, v.end)
        if r.fins[0] != stream[v.end:hi]:
            return "completion got extra bytes %r, expected %r" % (r.fins[0][:60], stream[v.end:hi][:60])
        if r.data != v.body:
            return "delivered body %r, expected %r" % (r.data[:80], v.body[:80])
        if r.eof != "clean":
            return "noMoreData after completion reported %s" % r.eof
        return None
    # incomplete
    if r.fins:
        return "completion signalled on a truncated encoding (extra %r)" % (r.fins[0][:40],)
    if not v.body.startswith(r.data):
        return "delivered %r which is not a prefix of the body %r" % (r.data[:60], v.body[:60])
    if v.pre_last and r.eof != "loss":
        return "stream ended before the last chunk but noMoreData reported %s" % r.eof
    return None


def cutsets(n, three_way_upto=0, two_way=None):
    """No cut; every (or the listed) single cut; every pair of cuts if short; one byte at a time."""
    yield ()
    for a in (range(1, n) if two_way is None else two_way):
        if 0 < a < n:
            yield (a,)
    if n <= three_way_upto:
        for a in range(1, n):
            for b in range(a + 1, n):
                yield (a, b)
    if n > 2:
        yield tuple(range(1, n))


def check_all_splits(v, stream, three_way_upto=0, two_way=None, bytewise=True):
    for cuts in cutsets(len(stream), three_way_upto, two_way):
        if not bytewise and len(cuts) > 2:
            continue
        why = judge(v, stream, run(stream, cuts))
        if why is not None:
            return "stream %r cut at %r: %s" % (_short(stream), _short_cuts(cuts), why)
    return None


def check_truncations(stream, body, end, last_line_end, positions=None, bytewise_upto=64):
    """Every proper prefix of the encoding followed by end of stream."""
    for k in (range(0, end) if positions is None else positions):
        if not (0 <= k < end):
            continue
        pre = stream[:k]
        # the body bytes that lie wholly inside the prefix are not computed here: any prefix of the body is allowed
        v = Verdict("incomplete", body=body, pre_last=(k < last_line_end))
        for cuts in ((), tuple(range(1, k))) if (1 < k <= bytewise_upto) else ((),):
            why = judge(v, pre, run(pre, cuts))
            if why is not None:
                return "truncated to %d of %d bytes %r cut at %r: %s" % (k, end, _short(pre), _short_cuts(cuts), why)
    return None


def _short(b):
    return b if len(b) <= 120 else b[:50] + b"...(%d bytes)..." % len(b) + b[-50:]


def _short_cuts(c):
    return c if len(c) <= 6 else "every byte"


# --------------------------------------------------------------------------------------------------------------
# reference encoder


def hexsize(n, spelling):
    digits = "0123456789abcdef"
    out = ""
    while True:
        out = digits[n % 16] + out
        n //= 16
        if n == 0:
            break
    if spelling == "upper":
        out = out.upper()
    elif spelling == "zeros":
        out = "00" + out
    return out.encode("ascii")


def encode(chunks, ext=b"", trailers=(), spelling="lower", last_ext=None):
    """-> (encoding, body, offset of the end of the last-chunk size line)"""
    parts = []
    for c in chunks:
        assert c
        parts += [hexsize(len(c), spelling), ext, CRLF, c, CRLF]
    parts += [hexsize(0, spelling), ext if last_ext is None else last_ext, CRLF]
    last_line_end = sum(map(len, parts))
    for t in trailers:
        parts += [t, CRLF]
    parts.append(CRLF)
    return b"".join(parts), b"".join(chunks), last_line_end


def chunkings(body):
    """Every way of cutting `body` into non-empty chunks."""
    n = len(body)
    if n == 0:
        yield ()
        return
    for mask in range(1 << (n - 1)):
        out, start = [], 0
        for i in range(n - 1):
            if mask >> i & 1:
                out.append(body[start:i + 1])
                start = i + 1
        out.append(body[start:])
        yield tuple(out)


# --------------------------------------------------------------------------------------------------------------


class RoundTrip(Bounded):
    prop = "C22"
    title = ("toChunk-encoded chunkings + last-chunk + extra, under every split and truncation: decoder output "
             "vs the bytes the stream was built from")
    scope = ("bodies of <= 3 bytes (thorough 4) over {a, CR, LF, 0} (thorough also ';'), every chunking into non-empty "
             "chunks, encoded with the real toChunk; extra in {empty, CRLF, '0 CRLF CRLF', '1 CRLF Z', 'GET /'}; every "
             "2-way split, byte-at-a-time, every 3-way split for two of the extras (thorough: all); every proper "
             "prefix followed by end of stream (whole and byte-at-a-time); plus single/paired chunks of length 9, 10, "
             "15, 16, 17, 255, 256, 4095, 4096, 70000 (splits near all structure boundaries, thorough: seeded random "
             "chunk sequences with random multi-way splits)")
    functions = ["toChunk", "_ChunkedTransferDecoder.dataReceived", "_ChunkedTransferDecoder.noMoreData",
                 "_ChunkedTransferDecoder._dataReceived_CHUNK_LENGTH", "_ChunkedTransferDecoder._dataReceived_BODY",
                 "_ChunkedTransferDecoder._dataReceived_CRLF", "_ChunkedTransferDecoder._dataReceived_TRAILER",
                 "_hexint"]

    EXTRAS = (b"", b"0\r\n\r\n", b"\r\n", b"1\r\nZ", b"GET /")

    def cases(self, tier, rng):
        alpha = b"a\r\n0" if tier == "quick" else b"a\r\n0;"
        top = 3 if tier == "quick" else 4
        for k in range(0, top + 1):
            for t in itertools.product(alpha, repeat=k):
                for chunks in chunkings(bytes(t)):
                    for i, extra in enumerate(self.EXTRAS):
                        yield ("small", chunks, extra, 40 if (i < 2 or tier != "quick") else 0)
        for n in (9, 10, 15, 16, 17, 255, 256, 4095, 4096, 70000):
            blob = bytes((i * 7 + 13) % 256 for i in range(n))
            yield ("big", (blob,), b"", 0)
            yield ("big", (blob, b"\r\n", blob[: n // 2 + 1]), b"0\r\n\r\n", 0)
        if tier != "quick":
            for _ in range(300):
                chunks = tuple(bytes(rng.choice(b"a\r\n0;1f") for _ in range(rng.choice((1, 2, 3, 10, 16, 17, 40))))
                               for _ in range(rng.randint(0, 6)))
                extra = bytes(rng.choice(b"0\r\n;a") for _ in range(rng.randint(0, 6)))
                yield ("random", chunks, extra, rng.getrandbits(32))

    def nontrivial(self, case):
        return len(case[1]) >= 1

    def check(self, case):
        kind, chunks, extra, param = case
        body = b"".join(chunks)
        enc = b"".join(b"".join(http.toChunk(c)) for c in chunks)
        last_line_end = len(enc) + 3
        enc += b"0\r\n\r\n"
        end = len(enc)
        stream = enc + extra
        v = Verdict("ok", body=body, end=end)
        # the reference reading of the grammar must agree with the construction (guards the oracle of the
        # MalformedAndTruncated check, and says that toChunk emitted one well-formed chunk per input)
        c = classify(stream)
        if (c.kind, c.body, c.end, c.may_from) != ("ok", body, end, None):
            return "toChunk encoding %r of %r is not the chunked coding of that body: grammar says %r" % (
                _short(stream), chunks if len(body) < 60 else "...", c)
        if kind == "small":
            return (check_all_splits(v, stream, three_way_upto=param)
                    or check_truncations(stream, body, end, last_line_end))
        if kind == "big":
            marks = set()
            off = 0
            for ch in chunks:
                hl = len(b"%x" % len(ch)) + 2
                for m in (off, off + hl, off + hl + len(ch), off + hl + len(ch) + 2, off + hl + len(ch) // 2):
                    marks.update(range(m - 2, m + 3))
                off += hl + len(ch) + 2
            marks.update(range(off - 2, len(stream) + 1))
            marks = sorted(m for m in marks if 0 < m < len(stream))
            return (check_all_splits(v, stream, two_way=marks, bytewise=len(stream) <= 5000)
                    or check_truncations(stream, body, end, last_line_end, positions=marks))
        # random: a handful of random multi-way splits
        import random
        r2 = random.Random(param)
        n = len(stream)
        for _ in range(12):
            cuts = tuple(sorted(set(r2.randrange(1, n) for _ in range(r2.randint(0, 6))))) if n > 1 else ()
            why = judge(v, stream, run(stream, cuts))
            if why is not None:
                return "stream %r cut at %r: %s" % (_short(stream), cuts, why)
        return check_truncations(stream, body, end, last_line_end,
                                 positions=[r2.randrange(0, end) for _ in range(8)])


class ExtensionsTrailersLimits(Bounded):
    prop = "C22"
    title = ("reference-encoded streams with chunk extensions, trailer fields, size spellings and sizes at the "
             "documented limits, under every split: decoder output vs the bytes the stream was built from")
    scope = ("chunk lists {none, (X), (ab, CRLF)} x 9 well-formed RFC 7230 extensions (tokens with every tchar "
             "punctuation, quoted strings with ';', '=', HTAB, SP, obs-text; on every size line incl. the last) x size "
             "spelling {lower, UPPER, leading zeros} x 5 trailer lists (incl. obs-text, HTAB, empty value) x extra "
             "{empty, 'Z CRLF'}: every 2-way split, byte-at-a-time, 3-way if <= 26 bytes (thorough 40), truncations; "
             "size lines whose CRLF-terminated length is limit-2..limit (data chunk and last-chunk): every 2-way "
             "split + byte-at-a-time; trailer part of total size limit-1 and limit including the final CRLF (one big "
             "field / 4096 small fields): splits near both ends and field boundaries + 64 seeded random (thorough: "
             "every split, byte-at-a-time)")
    functions = ["_ChunkedTransferDecoder.dataReceived", "_ChunkedTransferDecoder._dataReceived_CHUNK_LENGTH",
                 "_ChunkedTransferDecoder._dataReceived_TRAILER", "_ChunkedTransferDecoder.noMoreData", "_hexint"]

    EXTS = (b"", b";a", b";a=b", b";a;b=c;d", b";!#$%&'*+-.^_`|~=!#$%&'*+-.^_`|~", b';a="x;y=1"', b';a=""',
            b';n="\t \xff[]{}(),/:<>?@"', b';a=b;q="0";r')
    CHUNKS = ((), (b"X",), (b"ab", b"\r\n"))
    TRAILERS = ((), (b"A: b",), (b"A: b", b"Cc:d\t"), (b"X-a:",), (b"T: \xff;\"0",))

    def cases(self, tier, rng):
        for chunks in self.CHUNKS:
            for ext in self.EXTS:
                for sp in ("lower", "upper", "zeros"):
                    for tr in self.TRAILERS:
                        for extra in (b"", b"Z\r\n"):
                            yield ("small", chunks, ext, sp, tr, extra, 26 if tier == "quick" else 40)
        lim = SIZE_LINE_LIMIT
        for total in (lim - 2, lim - 1, lim):
            # total = len(size) + len(ext) + 2
            yield ("sizeline", (b"hi",), b";a=" + b"b" * (total - 2 - 1 - 3), "lower", (), b"q", "data")
            yield ("sizeline", (b"hi",), b";a=" + b"b" * (total - 2 - 1 - 3), "lower", (b"A: b",), b"", "last")
        for total in (TRAILER_LIMIT - 1, TRAILER_LIMIT):
            yield ("trailer", (b"X",), b"", "lower", ("big", total), b"", tier)
            yield ("trailer", (b"X",), b"", "lower", ("many", total), b"Z", tier)

    def nontrivial(self, case):
        return bool(case[2] or case[4])

    def check(self, case):
        kind, chunks, ext, sp, tr, extra, param = case
        if kind == "sizeline":
            if param == "data":
                enc, body, lle = encode(chunks, ext, tr, sp, last_ext=b"")
            else:
                # only the last-chunk line is long
                head, body, _ = encode(chunks, b"", (), sp)
                head = head[:-5]
                tail, _, l2 = encode((), ext, tr, sp)
                enc, lle = head + tail, len(head) + l2
            stream = enc + extra
            v = Verdict("ok", body=body, end=len(enc))
            longest = max(len(l) + 2 for l in enc.split(CRLF))
            if longest > SIZE_LINE_LIMIT:
                return "harness-error: built a size line of %d bytes" % longest
            return check_all_splits(v, stream) or check_truncations(stream, body, len(enc), lle, bytewise_upto=0)
        if kind == "trailer":
            shape, total = tr
            if shape == "big":
                fields = (b"A: " + b"b" * (total - 2 - 2 - 3),)
            else:
                fields = tuple(b"F%04d: %s" % (i, b"v" * 7) for i in range(total // 16 - 1))
                used = sum(len(f) + 2 for f in fields) + 2
                fields += (b"L: " + b"w" * (total - used - 2 - 3),)
            enc, body, lle = encode(chunks, ext, fields, sp)
            if len(enc) - lle != total:
                return "harness-error: trailer part is %d bytes, wanted %d" % (len(enc) - lle, total)
            stream = enc + extra
            v = Verdict("ok", body=body, end=len(enc))
            n = len(stream)
            if param == "quick":
                import random
                r2 = random.Random(total)
                marks = set(range(1, 48)) | set(range(n - 48, n)) | set(r2.randrange(1, n) for _ in range(64))
                off = lle
                for f in fields[:6] + fields[-3:]:
                    marks.update(range(off - 2, off + 3))
                    off += len(f) + 2
                why = check_all_splits(v, stream, two_way=sorted(marks), bytewise=False)
            else:
                why = check_all_splits(v, stream, bytewise=(shape == "many"))
            return why or check_truncations(stream, body, len(enc), lle, bytewise_upto=0,
                                            positions=list(range(0, 40)) + list(range(n - 40, n)))
        enc, body, lle = encode(chunks, ext, tr, sp)
        stream = enc + extra
        v = Verdict("ok", body=body, end=len(enc))
        c = classify(stream)
        if (c.kind, c.body, c.end, c.may_from) != ("ok", body, len(enc), None):
            return "harness-error: reference grammar disagrees with the reference encoder on %r: %r" % (stream, c)
        return check_all_splits(v, stream, three_way_upto=param) or check_truncations(stream, body, len(enc), lle)


class TrailerLimitBoundary(Bounded):
    prop = "C22"
    title = ("trailer fields totalling at most the documented maximum (the final empty line not counted as a "
             "trailer header): accepted under every split, like in one delivery")
    scope = ("trailer fields (each with its CRLF) totalling limit-3 .. limit bytes, as one big field and as 4096 "
             "small ones, followed by the terminating CRLF and extra in {empty, Z}; splits: none, every cut within "
             "6 bytes of the end of the trailer part, byte-at-a-time over the last 8 bytes")
    functions = ["_ChunkedTransferDecoder._dataReceived_TRAILER", "_ChunkedTransferDecoder.dataReceived"]

    def cases(self, tier, rng):
        for total in range(TRAILER_LIMIT - 3, TRAILER_LIMIT + 1):
            for shape in ("big", "many"):
                for extra in (b"", b"Z"):
                    yield (total, shape, extra)

    def check(self, case):
        total, shape, extra = case
        if shape == "big":
            fields = (b"A: " + b"b" * (total - 2 - 3),)
        else:
            fields = tuple(b"F%04d: %s" % (i, b"v" * 7) for i in range(total // 16 - 1))
            used = sum(len(f) + 2 for f in fields)
            fields += (b"L: " + b"w" * (total - used - 2 - 3),)
        enc, body, lle = encode((b"X",), b"", fields)
        if len(enc) - lle - 2 != total:
            return "harness-error: trailer fields are %d bytes, wanted %d" % (len(enc) - lle - 2, total)
        stream = enc + extra
        v = Verdict("ok", body=body, end=len(enc))
        n = len(enc)
        cutlist = [()] + [(a,) for a in range(n - 6, len(stream)) if 0 < a < len(stream)]
        cutlist.append(tuple(a for a in range(n - 8, len(stream)) if 0 < a < len(stream)))
        for cuts in cutlist:
            why = judge(v, stream, run(stream, cuts))
            if why is not None:
                return "%d bytes of trailer fields (limit %d), stream cut at %r (encoding ends at %d): %s" % (
                    total, TRAILER_LIMIT, cuts, n, why)
        return None


class MalformedAndTruncated(Bounded):
    prop = "C22"
    title = ("arbitrary and mutated streams under every split: accept / reject / data-loss outcome and delivered "
             "bytes vs a whole-stream reading of the RFC 7230 chunked grammar")
    scope = ("(a) every tail of <= 4 bytes (thorough 5) over {0, 1, g, ';', CR, LF, NUL, ':'} appended to each of 7 "
             "prefixes that put the decoder in each state (start, in data, awaiting chunk CRLF, next size line, after "
             "an extension, trailer part, after a trailer field); (b) 3 seed encodings (extensions, quoted string, "
             "trailers, extra) with every single-byte replacement / insertion by each of 20 adversarial bytes (NUL, "
             "HTAB, LF, CR, SP, '\"', '+', '-', '0', '1', ';', '=', 'G', 'x', '\\\\', '_', DEL, 0x80, 0xff, ':') and "
             "every single-byte deletion; (c) 40 hand-written size lines (0x10, +1, -1, 1_0, spaces, empty, ...); "
             "all under every 2-way split and byte-at-a-time (thorough: 3-way for <= 12 bytes)")
    functions = ["_ChunkedTransferDecoder.dataReceived", "_ChunkedTransferDecoder.noMoreData",
                 "_ChunkedTransferDecoder._dataReceived_CHUNK_LENGTH", "_ChunkedTransferDecoder._dataReceived_CRLF",
                 "_ChunkedTransferDecoder._dataReceived_BODY", "_ChunkedTransferDecoder._dataReceived_TRAILER",
                 "_hexint", "_ishexdigits"]

    PREFIXES = (b"", b"1\r\n", b"1\r\nX", b"1\r\nX\r\n", b"2;e", b"0\r\n", b"0\r\nA: b\r\n")
    SEEDS = (b"2;a=b\r\nhi\r\n1\r\nZ\r\n0;x\r\nT: v\r\n\r\nEX",
             b'A;n="q s"\r\n0123456789\r\n00\r\n\r\n',
             b"1\r\n\r\r\n0\r\nA:b\r\nB: c\r\n\r\n0\r\n\r\n")
    MUT = b"\x00\t\n\r \"+-01;=Gx\\_\x7f\x80\xff:"
    SIZES = (b"0x10", b"0X1", b"+1", b"-1", b"-0", b"+0", b"1_0", b"_1", b" 1", b"1 ", b"\t1", b"1\t", b"", b";",
             b";a", b"1.0", b"1e1", b"g", b"1g", b"0g", b"\xd9\xa1", b"\xb9", b"1\x00", b"\x001", b"1,2", b"1\n", b"\n1", b"1\r",
             b"\r1", b"0 ", b" 0", b"00x", b"0x0", b"1h", b"ff\x0b", b"\x0c1", b"1\x85", b"1\xa0", b"1 ;a", b"0 ;a")

    def cases(self, tier, rng):
        alpha = b"01g;\r\n\x00:"
        top = 4 if tier == "quick" else 5
        tw = 0 if tier == "quick" else 12
        for p in self.PREFIXES:
            for k in range(0, top + 1):
                for t in itertools.product(alpha, repeat=k):
                    yield (p + bytes(t), tw)
        seen = set()
        for s in self.SEEDS:
            for i in range(len(s) + 1):
                muts = [s[:i] + s[i + 1:]] if i < len(s) else []
                for m in self.MUT:
                    muts.append(s[:i] + bytes((m,)) + s[i:])
                    if i < len(s):
                        muts.append(s[:i] + bytes((m,)) + s[i + 1:])
                for x in muts:
                    if x not in seen:
                        seen.add(x)
                        yield (x, 0)
        for z in self.SIZES:
            yield (z + b"\r\nX\r\n0\r\n\r\n", tw)
            yield (b"1\r\nX\r\n" + z + b"\r\n\r\n", tw)
        if tier != "quick":
            for _ in range(4000):
                s = rng.choice(self.SEEDS)
                x = bytearray(s)
                for _ in range(rng.randint(2, 3)):
                    i = rng.randrange(len(x) + 1)
                    op = rng.randrange(3)
                    if op == 0 and i < len(x):
                        del x[i]
                    elif op == 1:
                        x.insert(i, rng.choice(self.MUT))
                    elif i < len(x):
                        x[i] = rng.choice(self.MUT)
                yield (bytes(x), 0)

    def nontrivial(self, case):
        return len(case[0]) >= 3

    def check(self, case):
        stream, three = case
        v = classify(stream)
        why = check_all_splits(v, stream, three_way_upto=three)
        if why is not None:
            return "%s [reference: %r]" % (why, v)
        return None


BOUNDED = [RoundTrip, ExtensionsTrailersLimits, MalformedAndTruncated, TrailerLimitBoundary]
