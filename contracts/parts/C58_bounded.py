"""C58 bounded tier: ClientService keeps one connection and resolves every waiter
(twisted.application.internet.ClientService / twisted.application._client_service).

The real service is driven by *histories* of harness events against a fake
endpoint, fake transports, a deterministic retry policy and task.Clock:

  start stop          startService() / stopService()
  w0 w1 w2            whenConnected(None) / (failAfterFailures=1) / (=2)
  ok                  the outstanding endpoint attempt succeeds (prepareConnection, if
                      configured, returns normally)
  raise               ... succeeds, prepareConnection raises           (hook worlds only)
  defer               ... succeeds, prepareConnection returns a pending Deferred
  pok pfail           that Deferred fires / fails
  fail                the outstanding endpoint attempt fails
  drop                the open connection is lost (connectionLost is delivered; this is also
                      how a connection on which loseConnection() was called finishes closing:
                      closing is asynchronous as on a real reactor, except in the *-syncclose
                      configs, where loseConnection() delivers connectionLost at once)
  tick                the clock is advanced up to the retry due time the oracle expects
                      (first to just before it, then exactly to it)
  part                the clock is advanced half way to that time
An attempt "hangs" simply by no ok/fail event being issued for it; it is
"cancelled" when the service cancels the endpoint's Deferred (default
canceller: fails with CancelledError synchronously).

Oracle (an observer, not a copy of the state machine; everything is stated over
what the endpoint / transports / clock / returned Deferreds see):

 ONE   at every moment  #pending endpoint attempts + #open connections <= 1
       (a connection is open from makeConnection until connectionLost is delivered).
 LOOP  a new attempt may start only while the service is running (started and not
       stopped), and either (a) no retry wait is due (fresh start, or the
       connection that a stop() was closing has finished closing after a new
       start()) or (b) exactly at the due time  T_fail + policy(k)  where k is the
       number of consecutive failures (failed attempt, rejection by prepareConnection,
       or loss of an established connection) since the last established connection
       [either counted across stop/start or restarted at start: both accepted].
       Conversely, at the end of every event, a running service with no attempt,
       connection or prepare hook outstanding must have such a due retry, and the
       tick event demands the attempt starts exactly then (not before).
 WAIT  a whenConnected Deferred fires at most once; it must have fired by the end of
       the event in which (i) a connection is/gets established (after the prepare
       hook) while the service runs, (ii) the failAfterFailures-th attempt failure
       since its creation happens, (iii) the service is/gets fully stopped
       (stopService called, nothing open or in progress).  Its result must be
       justified at the instant it fires: the application protocol of the
       connection that is established and open at that instant; or the failure of
       the attempt that reached its limit; or CancelledError while the service
       is not running.
 STOP  a stopService Deferred must have fired (with a non-failure) by the end of
       the event after which everything that was open / in progress when it was
       returned is closed; it must not fire while a connection is open; after
       stopService every open connection has had loseConnection() called.
 TOTAL no event raises out of the service, nothing raises inside the service's own
       callbacks on the endpoint Deferred, nothing is logged as a failure.

Histories stop at the first violation.
"""
from __future__ import annotations

from pyvc.api import Bounded

from twisted.application.internet import ClientService
from twisted.internet import task
from twisted.internet.defer import CancelledError, Deferred
from twisted.internet.error import ConnectionDone
from twisted.internet.protocol import Factory, Protocol
from twisted.logger import globalLogPublisher
from twisted.python.failure import Failure

EVENTS_CORE = ("start", "stop", "w0", "w1", "w2", "ok", "fail", "drop", "tick", "part")
EVENTS_HOOK = EVENTS_CORE + ("raise", "defer", "pok", "pfail")
_LIMIT = {"w0": None, "w1": 1, "w2": 2}
EPS = 0.125


def policy(n):
    """the retry policy handed to the service: distinct, non-additive, binary-exact delays"""
    return float(2 ** min(int(n), 20))


class _ConnectFail(Exception):
    pass


class _HookRejected(Exception):
    pass


class _AppProtocol(Protocol):
    pass


class _Conn:
    def __init__(self, world, n):
        self.world = world
        self.n = n
        self.open = True
        self.established = False
        self.lose_requested = False
        self.proto = None  # what the service's factory wrapper built
        self.app = None  # what the application factory built


class _Transport:
    disconnecting = False

    def __init__(self, conn):
        self._conn = conn

    def loseConnection(self):
        conn = self._conn
        conn.lose_requested = True
        self.disconnecting = True
        if conn.world.sync_close and conn.open:
            conn.world.lose(conn)

    abortConnection = loseConnection

    def write(self, data):
        pass

    def writeSequence(self, data):
        pass

    def getPeer(self):
        return None

    def getHost(self):
        return None


class _Attempt:
    def __init__(self, world, factory):
        self.factory = factory
        self.state = "pending"  # pending / succeeded / failed / cancelled
        self.d = Deferred(self._cancel)
        self.world = world

    def _cancel(self, d):
        self.state = "cancelled"
        self.world.note_attempt_failure(None)
        # default behaviour follows: errback(CancelledError())


class _Waiter:
    def __init__(self, limit):
        self.limit = limit
        self.fail_seen = 0
        self.limit_exc = None
        self.fired = 0
        self.result = None
        self.snap = None


class _Stop:
    def __init__(self):
        self.blockers = ()
        self.fired = 0
        self.result = None
        self.open_at_fire = False


class Violation(Exception):
    pass


class World:
    """the real ClientService in a fake environment, plus the observer/oracle"""

    def __init__(self, config):
        hook = self.hook = "hook" in config
        self.sync_close = "syncclose" in config
        self.clock = task.Clock()
        self.violations = []
        self.attempts = []
        self.conns = []
        self.waiters = []
        self.stops = []
        self.hookd = None  # pending Deferred returned by prepareConnection
        self.hook_mode = None
        self.hook_called = 0
        self.hook_conn = None
        # oracle state
        self.running = False
        self.stop_called = False
        self.k_total = 0
        self.k_run = 0
        self.due = None  # sorted tuple of admissible absolute retry times
        self.parted = False
        self.app_factory = Factory.forProtocol(_AppProtocol)
        world = self

        class Endpoint:
            def connect(self, factory):
                return world.on_connect(factory)

        self.svc = ClientService(
            Endpoint(),
            self.app_factory,
            retryPolicy=policy,
            clock=self.clock,
            prepareConnection=(self.on_hook if hook else None),
        )

    # ---- observations -----------------------------------------------------
    def bad(self, tag, text):
        self.violations.append("[%s] %s" % (tag, text))

    def pending_attempt(self):
        for a in self.attempts:
            if a.state == "pending":
                return a
        return None

    def open_conn(self):
        for c in self.conns:
            if c.open:
                return c
        return None

    def hook_pending(self):
        return self.hookd is not None and not self.hookd.called

    def busy(self):
        return self.pending_attempt() is not None or self.open_conn() is not None or self.hook_pending()

    def established_conn(self):
        for c in self.conns:
            if c.open and c.established:
                return c
        return None

    def on_connect(self, factory):
        now = self.clock.seconds()
        if not self.running:
            self.bad("LOOP", "connection attempt started while the service is not running")
        if self.pending_attempt() is not None:
            self.bad("ONE", "second connection attempt started while one is in progress")
        if self.open_conn() is not None:
            self.bad("ONE", "connection attempt started while a connection is still open")
        elif self.hook_pending():
            self.bad("ONE", "connection attempt started while prepareConnection is still in progress")
        if self.due is not None:
            if now not in self.due:
                self.bad("LOOP", "retry attempt at t=%r, due at %r (consecutive failures: %d/%d)"
                         % (now, self.due, self.k_total, self.k_run))
            self.due = None
            self.parted = False
        a = _Attempt(self, factory)
        self.attempts.append(a)
        return a.d

    def note_failure(self):
        """a failure of the connect loop happened (failed attempt / rejection / lost connection)"""
        if self.running:
            self.k_total += 1
            self.k_run += 1
            now = self.clock.seconds()
            self.due = tuple(sorted({now + policy(self.k_total), now + policy(self.k_run)}))
            self.parted = False

    def note_attempt_failure(self, exc):
        """an *attempt* failed (counts for failAfterFailures)"""
        for w in self.waiters:
            if not w.fired:
                w.fail_seen += 1
                if w.limit is not None and w.fail_seen >= w.limit and w.limit_exc is None:
                    w.limit_exc = exc
        self.note_failure()

    def note_established(self, conn):
        conn.established = True
        self.k_total = 0
        self.k_run = 0

    def on_hook(self, proto):
        self.hook_called += 1
        conn = self.hook_conn
        mode = self.hook_mode
        if conn is None or mode is None:
            self.bad("HOOK", "prepareConnection called when no new connection was made")
            return None
        self.hook_mode = None
        if mode == "ok":
            self.note_established(conn)
            return None
        if mode == "raise":
            exc = _HookRejected("rejected %d" % conn.n)
            self.note_attempt_failure(exc)
            raise exc
        self.hookd = Deferred()
        return self.hookd

    # ---- events -----------------------------------------------------------
    def enabled(self):
        ev = ["start", "stop", "w0", "w1", "w2"]
        if self.pending_attempt() is not None:
            ev += ["ok", "fail"]
            if self.hook:
                ev += ["raise", "defer"]
        if self.open_conn() is not None:
            ev.append("drop")
        if self.hook_pending():
            if self.hook_conn is not None and self.hook_conn.open:
                ev.append("pok")
            ev.append("pfail")
        if self.due is not None or self.clock.getDelayedCalls():
            ev.append("tick")
        if self.due is not None and not self.parted and self.due[0] - self.clock.seconds() >= 1.0:
            ev.append("part")
        return ev

    def step(self, ev):
        """apply one event; returns a violation string or None"""
        if ev not in self.enabled():
            raise Bounded.Skip()
        try:
            self._step(ev)
        except Violation as v:
            return str(v)
        except BaseException as e:  # noqa: B902 - anything escaping the service is the finding
            if isinstance(e, (KeyboardInterrupt, SystemExit, MemoryError)):
                raise
            self.bad("TOTAL", "event %r raised %s: %s" % (ev, type(e).__name__, e))
        self.after(ev)
        if self.violations:
            return "; ".join(self.violations[:3])
        return None

    def _step(self, ev):
        if ev == "start":
            if not self.running:
                self.running = True
                self.k_run = 0
            self.svc.startService()
        elif ev == "stop":
            self.running = False
            self.stop_called = True
            self.due = None
            self.parted = False
            s = _Stop()
            self.stops.append(s)
            d = self.svc.stopService()
            blockers = [c for c in self.conns if c.open]
            blockers += [a for a in self.attempts if a.state == "pending"]
            if self.hook_pending():
                blockers.append(self.hookd)
            s.blockers = tuple(blockers)

            def fired(result, s=s):
                s.fired += 1
                s.result = result
                s.open_at_fire = self.open_conn() is not None
                return None

            d.addBoth(fired)
            for c in self.conns:
                if c.open and not c.lose_requested:
                    self.bad("STOP", "stopService left connection %d open without closing it" % c.n)
        elif ev in _LIMIT:
            w = _Waiter(_LIMIT[ev])
            self.waiters.append(w)
            if w.limit is None:
                d = self.svc.whenConnected()
            else:
                d = self.svc.whenConnected(failAfterFailures=w.limit)

            def fired(result, w=w):
                w.fired += 1
                w.result = result
                est = self.established_conn()
                w.snap = (est.app if est is not None else None, self.running, w.limit_exc)
                return None

            d.addBoth(fired)
        elif ev in ("ok", "raise", "defer"):
            a = self.pending_attempt()
            conn = _Conn(self, len(self.conns))
            self.conns.append(conn)
            built = []
            orig = self.app_factory.buildProtocol

            def spy(addr):
                p = orig(addr)
                built.append(p)
                return p

            self.app_factory.buildProtocol = spy
            try:
                conn.proto = a.factory.buildProtocol(None)
            finally:
                del self.app_factory.buildProtocol
            conn.app = built[-1] if built else None
            if conn.app is None:
                self.bad("HOOK", "the application factory was not asked for a protocol")
            conn.proto.makeConnection(_Transport(conn))
            a.state = "succeeded"
            before = self.hook_called
            if self.hook:
                self.hook_mode = "ok" if ev == "ok" else ev
                self.hook_conn = conn
            else:
                self.note_established(conn)
            a.d.callback(conn.proto)
            if self.hook and self.hook_called != before + 1:
                self.bad("HOOK", "prepareConnection called %d times for a new connection"
                         % (self.hook_called - before))
        elif ev == "fail":
            a = self.pending_attempt()
            a.state = "failed"
            exc = _ConnectFail("attempt %d" % len(self.attempts))
            self.note_attempt_failure(exc)
            a.d.errback(Failure(exc))
        elif ev == "drop":
            self.lose(self.open_conn())
        elif ev == "pok":
            self.note_established(self.hook_conn)
            self.hookd.callback(None)
        elif ev == "pfail":
            exc = _HookRejected("rejected %d (async)" % self.hook_conn.n)
            self.note_attempt_failure(exc)
            self.hookd.errback(Failure(exc))
        elif ev == "part":
            self.parted = True
            n0 = len(self.attempts)
            self.clock.advance((self.due[0] - self.clock.seconds()) / 2)
            if len(self.attempts) != n0:
                self.bad("LOOP", "retry started half way through the retry delay")
        elif ev == "tick":
            self._tick()

    def lose(self, c):
        """deliver connectionLost for an open connection"""
        c.open = False
        if c.established and self.running and not c.lose_requested:
            self.note_failure()
        c.proto.connectionLost(Failure(ConnectionDone()))

    def _tick(self):
        clock = self.clock
        n0 = len(self.attempts)
        if self.due is None:
            # the oracle expects no retry: run every timer there is; on_connect judges what happens
            calls = clock.getDelayedCalls()
            clock.advance(max(c.getTime() for c in calls) - clock.seconds() + 1.0)
            return
        cands = self.due
        for c in cands:
            pre = c - EPS
            if pre > clock.seconds():
                clock.advance(pre - clock.seconds())
                if len(self.attempts) != n0:
                    raise Violation("[LOOP] retry started at t<=%r, before the policy's delay elapsed (due %r)"
                                    % (clock.seconds(), cands))
            clock.advance(c - clock.seconds())
            if len(self.attempts) != n0:
                return
        self.bad("LOOP", "no retry attempt by t=%r although the retry was due at %r" % (clock.seconds(), cands))

    # ---- end-of-event obligations -------------------------------------------
    def after(self, ev):
        for a in self.attempts:
            d = a.d
            if d.called and not d.paused and isinstance(d.result, Failure):
                caught = []
                d.addErrback(caught.append)  # consume it (the Deferred is the harness's own)
                f = caught[0]
                self.bad("TOTAL", "the service's handlers on the endpoint Deferred raised %s: %s"
                         % (f.type.__name__, f.value))
        n = len([a for a in self.attempts if a.state == "pending"]) + len([c for c in self.conns if c.open])
        if n > 1:
            self.bad("ONE", "%d connections/attempts open at once" % n)
        if self.running and not self.busy() and self.due is None:
            self.bad("LOOP", "running service has no connection, no attempt in progress and no retry due")
        est = self.established_conn()
        idle_stopped = (not self.running) and self.stop_called and not self.busy()
        for i, w in enumerate(self.waiters):
            if w.fired > 1:
                self.bad("WAIT", "whenConnected Deferred #%d fired %d times" % (i, w.fired))
            if not w.fired:
                if est is not None and self.running and not est.lose_requested:
                    self.bad("WAIT", "whenConnected Deferred #%d not fired although a connection is established" % i)
                elif w.limit is not None and w.fail_seen >= w.limit:
                    self.bad("WAIT", "whenConnected(failAfterFailures=%d) #%d not fired after %d failed attempts"
                             % (w.limit, i, w.fail_seen))
                elif idle_stopped:
                    self.bad("WAIT", "whenConnected Deferred #%d still pending although the service is stopped" % i)
            elif w.snap is not None:
                app, running, limit_exc = w.snap
                w.snap = None
                r = w.result
                if isinstance(r, Failure):
                    if limit_exc is not None and r.value is limit_exc:
                        pass
                    elif r.check(CancelledError) and not running:
                        pass
                    else:
                        self.bad("WAIT", "whenConnected Deferred #%d failed with %s (running=%s, limit reached=%s)"
                                 % (i, r.type.__name__, running, limit_exc is not None))
                elif app is None or r is not app:
                    self.bad("WAIT", "whenConnected Deferred #%d fired with %r which is not the protocol of an "
                             "established open connection" % (i, type(r).__name__))
        for i, s in enumerate(self.stops):
            if s.fired:
                if s.blockers is not None:
                    s.blockers = None
                    if s.open_at_fire:
                        self.bad("STOP", "stopService Deferred #%d fired while a connection is still open" % i)
                    if isinstance(s.result, Failure):
                        self.bad("STOP", "stopService Deferred #%d failed: %s" % (i, s.result.value))
            else:
                done = True
                for b in s.blockers:
                    if isinstance(b, _Conn):
                        done = done and not b.open
                    elif isinstance(b, _Attempt):
                        done = done and b.state != "pending"
                    else:
                        done = done and b.called
                if done:
                    self.bad("STOP", "stopService Deferred #%d not fired although everything is closed" % i)

    # ---- state hash for the exhaustive exploration --------------------------
    def state(self):
        now = self.clock.seconds()
        c = self.open_conn()
        internals = ()
        try:  # best effort: private state of the real service refines the hash (never judged)
            m = self.svc._machine
            core = m.__dict__["__automat_core__"]
            internals = (
                str(m.__dict__["__automat_transitioner__"]._state),
                core.failedAttempts,
                len(core.awaitingConnected),
                len(core.stopWaiters),
            )
        except Exception:
            internals = ()
        return (
            self.running,
            self.stop_called,
            self.pending_attempt() is not None,
            None if c is None else (c.established, c.lose_requested),
            self.hook_pending(),
            self.k_total,
            self.k_run,
            None if self.due is None else tuple(t - now for t in self.due),
            self.parted,
            tuple(sorted(t.getTime() - now for t in self.clock.getDelayedCalls())),
            tuple(sorted(
                ((-1 if w.limit is None else w.limit - w.fail_seen) for w in self.waiters if not w.fired))),
            len([s for s in self.stops if not s.fired]),
            internals,
        )


class _LogWatch:
    """collects failure-carrying log events (e.g. 'Unhandled error in Deferred')"""

    def __init__(self):
        self.seen = []

    def __call__(self, event):
        f = event.get("log_failure")
        if f is not None or event.get("isError"):
            self.seen.append("%s" % (getattr(f, "value", None) or event.get("log_format"),))

    def __enter__(self):
        globalLogPublisher.addObserver(self)
        return self

    def __exit__(self, *a):
        globalLogPublisher.removeObserver(self)


CONFIGS = ("plain", "hook", "plain-syncclose", "hook-syncclose")


def run_history(config, events):
    """replay one history; returns (violation or None, index of failing event, world)"""
    with _LogWatch() as lw:
        w = World(config)
        res = None
        at = None
        for i, ev in enumerate(events):
            res = w.step(ev)
            if res is None and lw.seen:
                res = "[TOTAL] logged failure: " + "; ".join(lw.seen[:2])
            if res is not None:
                at = i
                break
    return res, at, w


def describe(events, at, res):
    return "after %s: %s" % (" ".join(events[: at + 1]), res)


# ---- region helpers for known-findings predicates (pyvc.findings: parts("C58").<name>(case, what)) ----
def failing_history(what):
    """the events up to and including the one at which the observer objected"""
    if not what.startswith("after "):
        return ()
    return tuple(what[len("after "):].split(":", 1)[0].split())


def finding_stop_before_start_strands_waiters(case, what):
    """whenConnected() on a never-started service, then stopService(): the Deferred stays pending"""
    ev = failing_history(what)
    return ("still pending although the service is stopped" in what and "start" not in ev
            and ev[-1:] == ("stop",) and any(e in _LIMIT for e in ev))


def finding_unaccepted_connection_left_open(case, what):
    """a connection that prepareConnection rejected, or has not accepted yet, is open and the service
    neither closes nor tracks it: the failing event is the retry tick (second connection), the loss of
    that connection (NoTransition) or stopService (connection left open, stop Deferred fired)"""
    ev = failing_history(what)
    if not ev:
        return False
    body = ev[:-1]
    last = max([i for i, e in enumerate(body) if e in ("raise", "defer")], default=None)
    if last is None:
        return False
    if body[last] == "defer" and "pok" in body[last:]:
        return False
    if "drop" in body[last:]:
        return False
    return (ev[-1] in ("tick", "drop", "stop")
            and any(t in what for t in ("no transition for _clientDisconnected",
                                        "while a connection is still open",
                                        "open without closing it")))


_FUNCTIONS = [
    "ClientService.startService",
    "ClientService.stopService",
    "ClientService.whenConnected",
    "makeMachine",
    "_Core.unawait",
    "_Core.finishStopping",
    "_ReconnectingProtocolProxy.connectionLost",
    "_DisconnectFactory.buildProtocol",
]


class ShortHistories(Bounded):
    prop = "C58"
    title = ("every short event history of the real ClientService (fake endpoint, task.Clock) against the "
             "one-connection / retry-delay / waiter-deadline / stop-deadline / no-rejected-event observer")
    scope = ("all histories over {start, stop, whenConnected(None|1|2), attempt ok/fail, connection drop, "
             "clock tick to the due time, half-way tick}; configs: no prepareConnection hook, up to length "
             "11 (quick) / 16 (thorough); with a hook (adds: hook raises, hook returns a Deferred that later "
             "fires/fails) up to 10 / 15; both again with transports that deliver connectionLost "
             "synchronously inside loseConnection up to 9 / 13.  Breadth-first with state hashing: a history "
             "is extended only if its (observer state, real service state incl. automat state) was not "
             "reached by a history that is not longer; histories end at the first violation.  Retry policy "
             "n -> 2**n; endpoint Deferred with the default canceller")
    functions = _FUNCTIONS

    DEPTH = {
        "quick": {"plain": 11, "hook": 10, "plain-syncclose": 9, "hook-syncclose": 9},
        "thorough": {"plain": 16, "hook": 15, "plain-syncclose": 13, "hook-syncclose": 13},
    }

    def __init__(self):
        self._memo = {}

    def cases(self, tier, rng):
        for config in CONFIGS:
            depth = self.DEPTH[tier][config]
            seen = {World(config).state()}
            frontier = [()]
            for _ in range(depth):
                nxt = []
                for prefix in frontier:
                    _, _, w = run_history(config, prefix)
                    for ev in w.enabled():
                        seq = prefix + (ev,)
                        res, at, w2 = run_history(config, seq)
                        case = (config, seq)
                        self._memo = {case: (res, at)}
                        yield case
                        if res is None:
                            st = w2.state()
                            if st not in seen:
                                seen.add(st)
                                nxt.append(seq)
                frontier = nxt

    def check(self, case):
        config, seq = case
        if case in self._memo:
            res, at = self._memo.pop(case)
        else:
            res, at, _ = run_history(config, seq)
        if res is None:
            return None
        return describe(seq, at, res)


class RandomHistories(Bounded):
    prop = "C58"
    title = "seeded random long event histories of the real ClientService against the same observer"
    scope = ("random histories of 80 enabled events (quick: 100 per profile, thorough: 2500 per profile), "
             "waiter events at a third of the weight of the others; profiles: 'core' = no hook, first "
             "event is start; 'hookok' = hook present but only accepting synchronously, first event start; "
             "'core-syncclose' = core with synchronous connectionLost; 'any' = no hook, unrestricted; "
             "'hook' = hook with raise/defer, unrestricted.  Same environment as ShortHistories; a history "
             "ends at the first violation")
    functions = _FUNCTIONS

    N = {"quick": 100, "thorough": 2500}
    LENGTH = 80
    PROFILES = {
        "core": "plain",
        "hookok": "hook",
        "core-syncclose": "plain-syncclose",
        "any": "plain",
        "hook": "hook",
    }

    def cases(self, tier, rng):
        for profile in self.PROFILES:
            for _ in range(self.N[tier]):
                yield (profile, rng.randrange(1 << 30), self.LENGTH)

    @classmethod
    def history(cls, case):
        """the event list the case denotes (for reproduction), with the verdict"""
        import random

        profile, seed, length = case
        r = random.Random(seed)
        trace = []
        with _LogWatch() as lw:
            w = World(cls.PROFILES[profile])
            res = None
            for i in range(length):
                en = w.enabled()
                if profile == "hookok":
                    en = [e for e in en if e not in ("raise", "defer", "pok", "pfail")]
                if profile in ("core", "hookok", "core-syncclose") and i == 0:
                    en = ["start"]
                weights = [1 if e in _LIMIT else 3 for e in en]
                ev = r.choices(en, weights)[0]
                trace.append(ev)
                res = w.step(ev)
                if res is None and lw.seen:
                    res = "[TOTAL] logged failure: " + "; ".join(lw.seen[:2])
                if res is not None:
                    break
        return tuple(trace), res

    def check(self, case):
        trace, res = self.history(case)
        if res is None:
            return None
        return describe(trace, len(trace) - 1, res)


BOUNDED = [ShortHistories, RandomHistories]
