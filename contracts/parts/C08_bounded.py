"""C08 -- reactor timed calls run once, on time, in time order (bounded exhaustive + seeded random).

The real ``ReactorBase`` timer machinery (callLater / DelayedCall.cancel/reset/delay / runUntilCurrent /
getDelayedCalls / timeout) is driven on a reactor whose clock is a plain attribute.  A history is a tuple of
operations; operations may be nested inside a scheduled call (they are performed when the call runs).  A
reference timer model -- nothing but "every call has a scheduled time and a state" -- is updated by the same
operations, and the statements of the property are evaluated against it at every observation point:

  * when a call runs:  it is pending in the model (not cancelled, not run before), its scheduled time is not
    in the future, it was not scheduled during the running iteration, and no other runnable pending call is
    scheduled strictly earlier;
  * after every iteration:  no pending call that was scheduled before the iteration began its run has a
    scheduled time <= now (so each call runs in the first iteration that starts at or after its time);
  * after every operation (also inside running calls):  getDelayedCalls() is exactly the set of pending calls;
  * at every timeout():  None only if nothing is pending, else <= max(0, earliest pending time - now);
  * at the end (after flushing):  every call ran exactly once iff it was not cancelled first.

Ties between calls scheduled at the same time are not ordered by the property, so the model follows the
order in which the real reactor runs them and only checks the statements above.

Operation forms (all times dyadic, so float arithmetic is exact):
    ("L", delay, script)   callLater(delay, ...); script = tuple of nested operations run inside the call
    ("C", target)          cancel
    ("R", target, secs)    reset(secs)       secs >= 0
    ("D", target, secs)    delay(secs)       secs may be negative
    ("A", dt)              advance the clock by dt >= 0 and run one iteration (runUntilCurrent)   [top level only]
    ("T",)                 observe timeout()                                                     [top level only]
target >= 0: index (mod number of calls created so far) in creation order, may hit calls that already
ran / were cancelled (AlreadyCalled / AlreadyCancelled are tolerated, the call must stay dead);
target < 0: the (-target-1)-th (mod count) currently pending call.
"""
import itertools
import random

from pyvc.api import Bounded

from twisted.internet import error
from twisted.internet.base import ReactorBase

PENDING, CANCELLED, RAN = "pending", "cancelled", "ran"
T0 = 64.0


class _ClockReactor(ReactorBase):
    """ReactorBase with a controlled clock and no I/O."""

    def __init__(self):
        self._now = T0
        ReactorBase.__init__(self)

    def installWaker(self):
        pass

    def seconds(self):
        return self._now


class _M:
    """Reference record of one timed call."""
    __slots__ = ("sched", "state", "born", "runs", "real")

    def __init__(self, sched, born, real):
        self.sched, self.state, self.born, self.runs, self.real = sched, PENDING, born, 0, real


def L(d, *script):
    return ("L", d, tuple(script))


def C(i):
    return ("C", i)


def R(i, s):
    return ("R", i, s)


def D(i, s):
    return ("D", i, s)


def A(dt):
    return ("A", dt)


T = ("T",)


class _Run:
    """Drive one history on the real reactor and the reference model in lock step."""

    def __init__(self, reactor_factory=_ClockReactor):
        self.r = reactor_factory()
        self.calls = []
        self.errors = []
        self.iter_no = 0
        self.in_iter = None
        self.trace = []

    # -- helpers ------------------------------------------------------------------------------------------
    def err(self, msg):
        if len(self.errors) < 3:
            self.errors.append("%s [now=%g, after %s]" % (msg, self.r.seconds() - T0, self.trace[-6:]))

    def _target(self, t):
        if t >= 0:
            if not self.calls:
                return None
            return t % len(self.calls)
        pend = [i for i, m in enumerate(self.calls) if m.state == PENDING]
        if not pend:
            return None
        return pend[(-t - 1) % len(pend)]

    def pending(self):
        return [i for i, m in enumerate(self.calls) if m.state == PENDING]

    # -- observations -------------------------------------------------------------------------------------
    def check_delayed_calls(self):
        got = self.r.getDelayedCalls()
        ids = []
        for dc in got:
            for i, m in enumerate(self.calls):
                if m.real is dc:
                    ids.append(i)
                    break
            else:
                self.err("getDelayedCalls returned an unknown object %r" % (dc,))
        want = self.pending()
        if sorted(ids) != want:
            self.err("getDelayedCalls gives calls %r, pending calls are %r" % (sorted(ids), want))

    def check_timeout(self):
        t = self.r.timeout()
        now = self.r.seconds()
        pend = [self.calls[i].sched for i in self.pending()]
        if pend:
            bound = max(0.0, min(pend) - now)
            if t is None:
                self.err("timeout() is None (sleep forever) with a call pending in %g s" % (min(pend) - now))
            elif t > bound:
                self.err("timeout() = %r exceeds the time until the earliest pending call (%g)" % (t, bound))

    # -- operations ---------------------------------------------------------------------------------------
    def op(self, o, top):
        k = o[0]
        r = self.r
        now = r.seconds()
        if k == "L":
            idx = len(self.calls)
            self.trace.append("L#%d+%g" % (idx, o[1]))
            real = r.callLater(o[1], self._fire, idx, o[2])
            self.calls.append(_M(now + o[1], self.in_iter, real))
        elif k in ("C", "R", "D"):
            i = self._target(o[1])
            if i is None:
                return
            m = self.calls[i]
            self.trace.append("%s#%d%s" % (k, i, "" if k == "C" else "%+g" % o[2]))
            try:
                if k == "C":
                    m.real.cancel()
                elif k == "R":
                    m.real.reset(o[2])
                else:
                    m.real.delay(o[2])
            except (error.AlreadyCalled, error.AlreadyCancelled) as e:
                if m.state == PENDING:
                    self.err("%s on pending call #%d raised %r" % (k, i, e))
                return
            if m.state == PENDING:
                if k == "C":
                    m.state = CANCELLED
                elif k == "R":
                    m.sched = now + o[2]
                else:
                    m.sched = m.sched + o[2]
        elif k == "A":
            if not top:
                return
            self.advance(o[1])
            return
        elif k == "T":
            if not top:
                return
            self.trace.append("T")
            self.check_timeout()
        self.check_delayed_calls()

    def _fire(self, idx, script):
        m = self.calls[idx]
        now = self.r.seconds()
        self.trace.append("run#%d" % idx)
        m.runs += 1
        if self.in_iter is None:
            self.err("call #%d ran outside a reactor iteration" % idx)
        if m.state == CANCELLED:
            self.err("call #%d ran although it was cancelled first" % idx)
        elif m.state == RAN:
            self.err("call #%d ran a second time" % idx)
        else:
            if m.sched > now:
                self.err("call #%d ran %g s before its scheduled time" % (idx, m.sched - now))
            if m.born is not None and m.born == self.in_iter:
                self.err("call #%d was scheduled during this iteration and ran in it" % idx)
            for j, o in enumerate(self.calls):
                if o.state == PENDING and j != idx and o.sched < m.sched and \
                        not (o.born is not None and o.born == self.in_iter):
                    self.err("call #%d (scheduled %g) ran while pending call #%d is scheduled earlier (%g)"
                             % (idx, m.sched - T0, j, o.sched - T0))
                    break
        m.state = RAN
        self.check_delayed_calls()
        for o in script:
            self.op(o, False)

    def advance(self, dt):
        r = self.r
        r._now += dt
        now = r._now
        self.trace.append("A%+g" % dt)
        self.in_iter = k = self.iter_no
        r.runUntilCurrent()
        self.in_iter = None
        self.iter_no += 1
        for i, m in enumerate(self.calls):
            if m.state == PENDING and m.sched <= now and m.born != k:
                self.err("call #%d (scheduled %g) did not run in the iteration that started at %g"
                         % (i, m.sched - T0, now - T0))
                break
        self.check_delayed_calls()

    def flush(self, stepwise):
        for _ in range(400):
            if self.errors:
                return
            pend = [self.calls[i].sched for i in self.pending()]
            if not pend:
                break
            goal = min(pend) if stepwise else max(pend)
            self.check_timeout()
            self.advance(max(0.0, goal - self.r.seconds()))
        self.check_timeout()
        for i, m in enumerate(self.calls):
            if m.state == PENDING:
                self.err("call #%d never ran and was never cancelled" % i)
            elif m.state == RAN and m.runs != 1:
                self.err("call #%d ran %d times" % (i, m.runs))
            elif m.state == CANCELLED and m.runs != 0:
                self.err("cancelled call #%d ran %d times" % (i, m.runs))


def run_history(hist, stepwise=False, reactor_factory=_ClockReactor):
    """Return None if every statement of the property held along the history, else a description."""
    run = _Run(reactor_factory)
    for o in hist:
        run.op(o, True)
        if run.errors:
            return run.errors[0]
    run.flush(stepwise)
    return run.errors[0] if run.errors else None


def shrink(hist, stepwise, reactor_factory=_ClockReactor, budget=600):
    """Greedy one-operation-at-a-time minimisation of a failing history (for reporting only)."""
    hist = list(hist)
    changed = True
    while changed and budget > 0:
        changed = False
        i = len(hist) - 1
        while i >= 0 and budget > 0:
            cand = hist[:i] + hist[i + 1:]
            budget -= 1
            try:
                bad = run_history(tuple(cand), stepwise, reactor_factory)
            except Exception:
                bad = None
            if bad is not None:
                hist = cand
                changed = True
            i -= 1
    return tuple(hist)


# ---------------------------------------------------------------------------------------------------------
# 1. exhaustive short histories


SHORT_FIRST = [
    L(0), L(1), L(2),
    L(1, L(0)), L(0, L(0)),  # a running call schedules a zero-delay call
    L(1, C(0)), L(1, C(1)),  # a running call cancels the first / second call (possibly due now, possibly itself)
    L(1, R(0, 0)), L(1, R(1, 2)),   # reset another call to "now" / further away from inside a running call
    L(1, D(0, -2)), L(0, D(1, 1)),  # pull another call into the past / push it later from inside a running call
    L(1, R(-1, 0), C(-2)),          # reset the first pending call to now and cancel the second pending one
    L(2, D(-1, -1), L(0, C(-1))),   # two levels of nesting
]
SHORT_REST = [
    C(0), C(1), C(-1), R(0, 0), R(1, 2), R(-1, 1), D(0, -1), D(0, 1), D(1, -2),
    A(0), A(1), A(2), T,
]
SHORT_EXTRA = [  # thorough tier only
    L(0, L(0, L(0))), L(0.5), L(1, D(-1, 0.5), R(-2, 0.5)), L(2, C(-1), C(-1), L(0)), D(-2, 0.5), R(1, 0), A(0.5),
]


class ShortHistories(Bounded):
    prop = "C08"
    title = ("every short history of callLater/cancel/reset/delay/advance+iterate/timeout (with operations nested in "
             "running calls) on ReactorBase: run-once, on-time, time-order, getDelayedCalls and timeout against a "
             "reference timer model")
    scope = ("all histories of <= 4 operations (thorough: <= 5 over a 20-operation sub-alphabet, and <= 4 over a wider "
             "33-operation one) over a 26-operation alphabet: callLater with delay 0/1/2 and 10 nested scripts (schedule "
             "0-delay, cancel, reset to now/later, delay negative/positive on call 0/1 or on the first/second pending "
             "call, two-level nesting), top-level cancel/reset/delay on call 0/1/first pending, advance 0/1/2 + iterate, "
             "timeout(); each history is followed by a flush to the latest pending time; histories of length > 1 start "
             "with a callLater (others are equivalent to shorter ones)")
    functions = ["ReactorBase.callLater", "ReactorBase.runUntilCurrent", "ReactorBase._insertNewDelayedCalls",
                 "ReactorBase._moveCallLaterSooner", "ReactorBase.getDelayedCalls", "ReactorBase.timeout",
                 "DelayedCall.cancel", "DelayedCall.reset", "DelayedCall.delay", "DelayedCall.activate_delay"]

    def cases(self, tier, rng):
        alpha = SHORT_FIRST + SHORT_REST
        for o in alpha + SHORT_EXTRA:
            yield (o,)
        for k in range(2, 5):
            for first in SHORT_FIRST:
                for rest in itertools.product(alpha, repeat=k - 1):
                    yield (first,) + rest
        if tier != "quick":
            small_first = SHORT_FIRST[:4] + SHORT_FIRST[5:11]
            small = small_first + [C(0), C(1), R(0, 0), R(1, 2), D(0, -1), D(0, 1), D(1, -2), A(0), A(1), T]
            for first in small_first:
                for rest in itertools.product(small, repeat=4):
                    yield (first,) + rest
            wide = alpha + SHORT_EXTRA
            firsts = [o for o in wide if o[0] == "L"]
            for k in range(2, 5):
                for first in firsts:
                    for rest in itertools.product(wide, repeat=k - 1):
                        if first in SHORT_FIRST and all(o in alpha for o in rest):
                            continue
                        yield (first,) + rest

    def nontrivial(self, case):
        return sum(1 for o in case if o[0] == "L") >= 2 and any(o[0] == "A" for o in case)

    def check(self, case):
        return run_history(case, stepwise=False)


# ---------------------------------------------------------------------------------------------------------
# 2. exhaustive modifications of a populated heap


class HeapModifications(Bounded):
    prop = "C08"
    title = ("n calls at every combination of times, then every pair of cancel/reset/delay modifications, then the clock "
             "stepped through every time: execution order, run-once and timeout against the reference timer model")
    scope = ("n = 4 (thorough 5) calls with delays from {1,2,3}^n in every order; the calls are either still staged or "
             "already in the timer heap (timeout() called once); every ordered pair of modifications from {cancel, "
             "reset 0/2/4, delay -2/+1} (thorough: reset 0/1/2/4, delay -2/-1/+1/+2) on any call; then the clock is "
             "advanced in steps of 1 with an iteration and a timeout() observation per step, or in one jump")
    functions = ["ReactorBase._moveCallLaterSooner", "ReactorBase.runUntilCurrent", "ReactorBase.timeout",
                 "ReactorBase._insertNewDelayedCalls", "DelayedCall.reset", "DelayedCall.delay", "DelayedCall.cancel"]

    def cases(self, tier, rng):
        n = 4 if tier == "quick" else 5
        if tier == "quick":
            kinds = [("C",), ("R", 0), ("R", 2), ("R", 4), ("D", -2), ("D", 1)]
        else:
            kinds = [("C",), ("R", 0), ("R", 1), ("R", 2), ("R", 4), ("D", -2), ("D", -1), ("D", 1), ("D", 2)]
        mods = [(k[0], i) + tuple(k[1:]) for i in range(n) for k in kinds]
        for delays in itertools.product((1, 2, 3), repeat=n):
            for staged in (False, True):
                for m1 in mods:
                    for m2 in mods:
                        yield (delays, staged, m1, m2, (sum(delays) + m1[1] + m2[1]) % 3 == 0)

    def check(self, case):
        delays, staged, m1, m2, jump = case
        hist = [L(d) for d in delays]
        if not staged:
            hist.append(T)
        hist += [m1, T, m2, T]
        if not jump:
            for _ in range(8):
                hist += [A(1), T]
        return run_history(tuple(hist), stepwise=False)


# ---------------------------------------------------------------------------------------------------------
# 3. seeded random long histories, including queue compaction


DELAYS = [0, 0, 0.25, 0.5, 1, 1, 1.5, 2, 3, 4, 8]
STEPS = [0, 0.25, 0.5, 1, 1, 2, 4]


def _rand_target(g):
    if g.random() < 0.75:
        return -1 - g.randrange(1000)
    return g.randrange(1000)


def _rand_script(g, depth):
    if depth <= 0 or g.random() < 0.55:
        return ()
    out = []
    for _ in range(g.choice((1, 1, 2, 3))):
        x = g.random()
        if x < 0.35:
            out.append(("L", g.choice(DELAYS), _rand_script(g, depth - 1)))
        elif x < 0.55:
            out.append(("C", _rand_target(g)))
        elif x < 0.78:
            out.append(("R", _rand_target(g), g.choice(DELAYS)))
        else:
            out.append(("D", _rand_target(g), g.choice(DELAYS) * g.choice((1, -1))))
    return tuple(out)


def _rand_top(g, room):
    x = g.random()
    if x < 0.30 and room:
        return ("L", g.choice(DELAYS), _rand_script(g, 2))
    if x < 0.45:
        return ("C", _rand_target(g))
    if x < 0.60:
        return ("R", _rand_target(g), g.choice(DELAYS))
    if x < 0.75:
        return ("D", _rand_target(g), g.choice(DELAYS) * g.choice((1, -1)))
    if x < 0.93:
        return ("A", g.choice(STEPS))
    return T


def gen_history(profile, seed, n_ops, max_calls):
    g = random.Random("%s/%d" % (profile, seed))
    hist = []
    made = 0
    if profile in ("compact", "compact-nested"):
        # a batch of calls strictly in the future, most of them cancelled while they sit in the timer heap
        n0 = g.randrange(55, max_calls + 1) if g.random() < 0.5 else g.randrange(max_calls, 2 * max_calls)
        for _ in range(n0):
            hist.append(("L", g.choice((0.5, 1, 1, 1.5, 2, 3, 4, 6, 8)),
                         _rand_script(g, 1) if g.random() < 0.2 else ()))
        if g.random() < 0.85:
            hist.append(T if g.random() < 0.5 else A(0))   # move the staged calls into the timer heap
        ncancel = g.randrange(51, n0)
        cancels = tuple(("C", -1 - g.randrange(1000)) for _ in range(ncancel))
        if profile == "compact-nested":
            hist.append(("L", 0, cancels))           # all the cancellations happen inside one running call
        else:
            hist.extend(cancels)
        hist.append(A(g.choice((0, 0, 0.25))))
        made = max(0, max_calls - 30)                # the mix that follows may add up to 30 top-level calls
    while len(hist) < n_ops:
        o = _rand_top(g, made < max_calls)
        if o[0] == "L":
            made += 1
        hist.append(o)
    return tuple(hist)


class RandomHistories(Bounded):
    prop = "C08"
    title = ("seeded random long histories (incl. > 50 cancellations to trigger compaction of the timer queue) on "
             "ReactorBase: run-once, on-time, time-order, getDelayedCalls and timeout against a reference timer model")
    scope = ("seeded random histories of 20..260 top-level operations with up to 60 top-level calls (more are created by "
             "nested scripts up to depth 2), dyadic delays 0..8, negative and positive delay(), reset, cancel, advances "
             "0..4, operations nested inside running calls; three profiles: general mix; a batch of 55-60 (half of the "
             "histories: 60-119) future calls of which 51..all-but-one are cancelled at top level, mostly while they sit "
             "in the timer heap, then one iteration (compaction) and a general mix with up to 30 more calls; the same "
             "with all cancellations inside one running call; quick 1500 histories, thorough 15000; flush stepwise or "
             "in one jump; sampled, not exhaustive")
    functions = ShortHistories.functions

    def cases(self, tier, rng):
        n = 500 if tier == "quick" else 5000
        for _ in range(n):
            for profile in ("mix", "compact", "compact-nested"):
                seed = rng.randrange(10 ** 9)
                n_ops = rng.choice((20, 60, 120, 200)) if profile == "mix" else rng.choice((150, 200, 260))
                yield (profile, seed, n_ops, 60, rng.random() < 0.5)

    def check(self, case):
        profile, seed, n_ops, max_calls, stepwise = case
        hist = gen_history(profile, seed, n_ops, max_calls)
        bad = run_history(hist, stepwise)
        if bad is None:
            return None
        small = shrink(hist, stepwise)
        return "%s; minimised history: %r -> %s" % (bad, small, run_history(small, stepwise))


BOUNDED = [ShortHistories, HeapModifications, RandomHistories]
