"""C53 bounded tier: size-rotated log files lose and reorder nothing.

Every case is a *history*: a rotation length L, an optional retention count N,
and a sequence of operations on one real twisted.python.logfile.LogFile in a
scratch directory:

    write(bytes) / write(str, multi-byte characters included) / reopen() /
    "restart" (close() and construct a new LogFile on the same path, as a new
    process would) / optionally a crash at a chosen file-system step.

The harness keeps its own ledger W = the concatenation of everything that was
handed to write() (text as UTF-8, which is what write() documents).  The bytes
of write number i are derived from i, so that two writes never look alike and a
reordering or duplication cannot hide behind equal content.

After the run (and, after flush(), after every step of a long random history)
the directory is read back with os.listdir/open only:

    rotated files = entries "<name>.<k>", k a canonical positive decimal
                    (the documented identifiers of getLog()/listLogs());
                    OLDEST FIRST = highest k first;
    D             = rotated files oldest first, then the current file "<name>".

Oracle (from the property statement, nothing from rotate()'s code):

  no crash
    * N is None :  D == W                      (nothing is ever dropped)
    * N given   :  D is a suffix of W          (nothing lost/duplicated/reordered
                   inside the suffix), at most N rotated files exist, and if
                   anything at all was dropped then exactly N exist ("exactly
                   the newest rotated files are kept")
    * every rotated file holds at least L bytes (rotated files are never
      touched again, so their final size is their size when rotated)
  crash (the process dies before / just after one rename or remove; the object
  is abandoned, a new LogFile is constructed on the same path, the history goes on)
    * every N   :  the files of D are found in W one after the other, in
                   order, without overlap ("never reorders retained data")
    * N is None :  D == W                      ("loses none")
    * every rotated file still holds at least L bytes
    The write() call that was interrupted never returned; the ledger allows its
    data to be present or absent (at its place in the order).

WHEN a rotation happens is not demanded anywhere (the property only bounds the
size of a rotated file from below), so an implementation that rotates later, or
counts sizes differently, cannot fail a case.

Crash injection is done on the os module (rename / remove / unlink / replace
are counted while a LogFile method is running; the k-th one raises a private
BaseException before or after doing its work), i.e. at the level of file-system
effects, not at lines of rotate().

Failure strings start with a stable tag:
    LOST  DUP-OR-REORDER  NOT-SUFFIX  SHORT-ROTATED  TOO-MANY-ROTATED
    TOO-FEW-ROTATED  EXC
"""
from __future__ import annotations

import atexit
import itertools
import os
import shutil
import tempfile

from twisted.python.logfile import LogFile

from pyvc.api import Bounded

# --------------------------------------------------------------------------
# scratch directory (one per process, emptied before every case)

_BASE = {"dir": None}


def _rm_base():
    d = _BASE["dir"]
    if d:
        shutil.rmtree(d, ignore_errors=True)


def _workdir(sub="d"):
    if _BASE["dir"] is None or not os.path.isdir(_BASE["dir"]):
        root = "/dev/shm" if os.path.isdir("/dev/shm") and os.access("/dev/shm", os.W_OK) else None
        _BASE["dir"] = tempfile.mkdtemp(prefix="c53_", dir=root)
        atexit.register(_rm_base)
    d = os.path.join(_BASE["dir"], sub)
    if os.path.isdir(d):
        for e in os.listdir(d):
            p = os.path.join(d, e)
            if os.path.isdir(p):
                shutil.rmtree(p, ignore_errors=True)
            else:
                os.unlink(p)
    else:
        os.makedirs(d)
    return d


# --------------------------------------------------------------------------
# the data of write number i

def make_data(kind, n, i):
    """kind: 'b' bytes, 'a' ASCII str, '2' '3' '4' str of n characters of that many UTF-8 bytes each,
    'm' str mixing 1, 3, 2 and 4 byte characters (n characters).  Content depends on the write index i."""
    if kind == "b":
        return bytes([0x41 + i % 58]) * n if i < 58 else (("%d," % i) * n)[:n].encode("ascii")
    if kind == "a":
        return chr(0x61 + i % 26) * n
    if kind == "2":
        return chr(0xE0 + i % 64) * n
    if kind == "3":
        return chr(0x4E00 + i % 4096) * n
    if kind == "4":
        return chr(0x1F600 + i % 64) * n
    if kind == "m":
        cyc = (chr(0x61 + i % 26), chr(0x4E00 + i % 4096), chr(0xE0 + i % 64), chr(0x1F600 + i % 64))
        return "".join(cyc[j % 4] for j in range(n))
    raise ValueError(kind)


def as_bytes(data):
    return data if isinstance(data, bytes) else data.encode("utf-8")


# --------------------------------------------------------------------------
# crash injection at file-system effects

class _Crash(BaseException):
    """The process dies here."""


class _FS:
    MUTATORS = ("rename", "remove", "unlink", "replace")

    def __init__(self, plan=()):
        self.plan = frozenset(plan)      # {("before" | "after", k)}
        self.count = 0
        self.armed = False
        self._saved = {}

    def _wrap(self, orig):
        def f(*a, **kw):
            if not self.armed:
                return orig(*a, **kw)
            self.count += 1
            k = self.count
            if ("before", k) in self.plan:
                raise _Crash()
            r = orig(*a, **kw)
            if ("after", k) in self.plan:
                raise _Crash()
            return r
        return f

    def __enter__(self):
        for nm in self.MUTATORS:
            self._saved[nm] = getattr(os, nm)
            setattr(os, nm, self._wrap(self._saved[nm]))
        return self

    def __exit__(self, *exc):
        for nm, f in self._saved.items():
            setattr(os, nm, f)
        return False


# --------------------------------------------------------------------------
# reading the directory back

def _canonical_id(s):
    return s.isascii() and s.isdigit() and s[0] != "0"


def snapshot(directory, name):
    """-> (current bytes or None, {k: bytes})"""
    cur = None
    rot = {}
    for e in os.listdir(directory):
        if e == name:
            with open(os.path.join(directory, e), "rb") as f:
                cur = f.read()
        elif e.startswith(name + ".") and _canonical_id(e[len(name) + 1:]):
            with open(os.path.join(directory, e), "rb") as f:
                rot[int(e[len(name) + 1:])] = f.read()
    return cur, rot


# --------------------------------------------------------------------------
# the oracle

def _in_order(files, W):
    """Are the files found in W one after the other, in order, without overlap?  (earliest match is complete)"""
    pos = 0
    for f in files:
        j = W.find(f, pos)
        if j < 0:
            return False
        pos = j + len(f)
    return True


def _show(b, lim=60):
    return repr(b if len(b) <= lim else b[:lim // 2] + b"..." + b[-lim // 2:])


def judge(L, N, chunks, crashed, cur, rot):
    """chunks: [(bytes, certain)] in write order.  -> None or a failure string."""
    ids = sorted(rot, reverse=True)
    files = [rot[k] for k in ids] + [cur if cur is not None else b""]
    D = b"".join(files)
    uncertain = [j for j, (_, c) in enumerate(chunks) if not c]
    variants = []
    for pick in itertools.product((False, True), repeat=min(len(uncertain), 6)):
        keep = dict(zip(uncertain, pick))
        variants.append(b"".join(b for j, (b, c) in enumerate(chunks) if c or keep.get(j, True)))
    layout = "rotated %r + current; sizes %r" % (ids, [len(f) for f in files])
    if L:
        for k in ids:
            if len(rot[k]) < L:
                return "SHORT-ROTATED file .%d has %d bytes < rotateLength %d (%s)" % (k, len(rot[k]), L, layout)
    if not crashed:
        W = variants[0]
        if N is None:
            if D != W:
                tag = "LOST" if len(D) < len(W) else "DUP-OR-REORDER"
                return "%s no retention count: written %s, directory holds %s (%s)" % (tag, _show(W), _show(D), layout)
            return None
        if not W.endswith(D):
            return "NOT-SUFFIX written %s, directory holds %s (%s)" % (_show(W), _show(D), layout)
        if len(ids) > N:
            return "TOO-MANY-ROTATED %d rotated files kept with maxRotatedFiles=%d (%s)" % (len(ids), N, layout)
        if len(D) < len(W) and len(ids) != N:
            return ("TOO-FEW-ROTATED %d bytes were dropped although only %d of %d allowed rotated files are kept (%s)"
                    % (len(W) - len(D), len(ids), N, layout))
        return None
    if not any(_in_order(files, W) for W in variants):
        return "DUP-OR-REORDER after crash: written %s, files oldest first %s (%s)" % (
            _show(variants[-1]), [_show(f, 24) for f in files], layout)
    if N is None and D not in variants:
        return "LOST after crash, no retention count: written %s, directory holds %s (%s)" % (
            _show(variants[-1]), _show(D), layout)
    return None


# --------------------------------------------------------------------------
# driving the real LogFile

NAME = "test.log"

_LAST = {"nontrivial": True}


def drive(L, N, ops, plan=(), name=NAME, sub="d", parent=None, each_step=False):
    """Run one history on the real code.  ops: ("w", kind, n) | "R" (reopen) | "S" (restart) | "F" (flush).
    -> (failure or None, number of mutating file-system calls seen, crashed?)"""
    directory = _workdir(sub)
    if parent is not None:
        directory = os.path.join(directory, parent)
        os.makedirs(directory)
    chunks = []
    fs = _FS(plan)
    crashed = False
    lf = None

    def abandon(obj):
        f = getattr(obj, "_file", None)
        try:
            if f is not None:
                f.close()
        except Exception:
            pass

    def start():
        nonlocal crashed
        for _ in range(len(plan) + 2):
            fs.armed = True
            try:
                return LogFile(name, directory, rotateLength=L, maxRotatedFiles=N)
            except _Crash:
                crashed = True
            finally:
                fs.armed = False
        raise RuntimeError("cannot construct LogFile")

    def observe(where):
        cur, rot = snapshot(directory, name)
        if rot or (cur is not None and len(cur) < sum(len(b) for b, _ in chunks)):
            _LAST["nontrivial"] = True
        r = judge(L, N, chunks, crashed, cur, rot)
        return None if r is None else "%s [%s]" % (r, where)

    _LAST["nontrivial"] = False
    with fs:
        try:
            lf = start()
            wi = 0
            for step, op in enumerate(ops):
                data = None
                fs.armed = True
                try:
                    if op == "R":
                        lf.reopen()
                    elif op == "S":
                        lf.close()
                        fs.armed = False
                        lf = start()
                    elif op == "F":
                        lf.flush()
                    else:
                        data = make_data(op[1], op[2], wi)
                        wi += 1
                        lf.write(data)
                        chunks.append((as_bytes(data), True))
                except _Crash:
                    fs.armed = False
                    crashed = True
                    if data is not None:
                        chunks.append((as_bytes(data), False))
                    abandon(lf)
                    lf = start()
                finally:
                    fs.armed = False
                if each_step:
                    lf.flush()
                    r = observe("after step %d %r" % (step, op))
                    if r is not None:
                        return r, fs.count, crashed
            lf.close()
            lf = None
            return observe("after close"), fs.count, crashed
        except Exception as e:
            return "EXC %s: %s" % (type(e).__name__, str(e)[:160]), fs.count, crashed
        finally:
            fs.armed = False
            if lf is not None:
                abandon(lf)


class _C53(Bounded):
    prop = "C53"
    functions = ["LogFile.__init__", "LogFile._openFile", "LogFile.shouldRotate", "LogFile.write",
                 "LogFile.rotate", "LogFile.listLogs", "BaseLogFile.reopen", "BaseLogFile.close"]

    def nontrivial(self, case):
        return _LAST["nontrivial"]


# op alphabets.  sizes in bytes: b1=1 b2=2 b5=5 ; text: a1 = 1 char 1 byte, u2 = 1 char 2 bytes,
# uu = 2 chars 6 bytes (3-byte characters), m4 = 4 chars 10 bytes (1+3+2+4), e = empty write
W_B1 = ("w", "b", 1)
W_B2 = ("w", "b", 2)
W_B5 = ("w", "b", 5)
W_B0 = ("w", "b", 0)
W_A1 = ("w", "a", 1)
W_A0 = ("w", "a", 0)
W_U2 = ("w", "2", 1)
W_UU = ("w", "3", 2)
W_U4 = ("w", "4", 1)
W_M4 = ("w", "m", 4)


def _random_history(rng, maxlen, Lmax):
    L = rng.choice((1, 2, 3, rng.randrange(1, Lmax + 1), rng.randrange(1, Lmax + 1)))
    N = rng.choice((None, None, 1, 2, 3, rng.randrange(1, 6)))
    ops = []
    for _ in range(rng.randrange(1, maxlen + 1)):
        x = rng.random()
        if x < 0.08:
            ops.append("R")
        elif x < 0.16:
            ops.append("S")
        elif x < 0.19:
            ops.append("F")
        else:
            kind = rng.choice("bbba234m")
            per = {"b": 1, "a": 1, "2": 2, "3": 3, "4": 4, "m": 3}[kind]
            n = rng.choice((0, 1, 1, 2, max(1, L // per), max(1, (L - 1) // per), L // per + 1,
                            rng.randrange(0, 2 * L // per + 2)))
            ops.append(("w", kind, n))
    return L, N, tuple(ops)


class Histories(_C53):
    title = ("real LogFile driven through write(bytes/str)/reopen/restart histories, directory read back and compared "
             "with a ledger of everything written: suffix/equality, rotated sizes >= rotateLength, retention count")
    scope = ("quick: every history of length <= 4 over the 7 operations {write 1 byte, write 5 bytes, write 1 "
             "two-byte character, write 2 three-byte characters, write empty bytes, reopen(), restart} x rotateLength "
             "in {1,2,3,6} x maxRotatedFiles in {None,1,2}; every history of length <= 6 over {write 1 byte, write 1 "
             "two-byte character, restart} x rotateLength {1,2} x maxRotatedFiles {None,1,2,3}; rotateLength None/0 "
             "on length <= 3; runs of 11..13 one-byte / one-character writes at rotateLength 1 with a restart or "
             "reopen() at every position, maxRotatedFiles {None,9,10,11} (two-digit identifiers). "
             "thorough: length <= 4 over 9 operations (adds 1 four-byte character, mixed 4-character text), "
             "rotateLength {1,2,3,5,6,7}, maxRotatedFiles {None,1,2,3}; length <= 5 over the 7 operations with the "
             "quick parameters; length <= 9 over the 3-operation "
             "alphabet; 30000 seeded random histories of up to 40 operations, rotateLength up to 64, observed after "
             "flush() after every step.")

    ALPHA_Q = (W_B1, W_B5, W_U2, W_UU, W_B0, "R", "S")
    ALPHA_T = (W_B1, W_B5, W_U2, W_UU, W_B0, "R", "S", W_U4, W_M4)
    ALPHA_LONG = (W_B1, W_U2, "S")

    def cases(self, tier, rng):
        thorough = tier != "quick"
        seen = set()

        def emit(c):
            if c in seen:
                return False
            seen.add(c)
            return True

        plans = [(self.ALPHA_Q, 4, (1, 2, 3, 6), (None, 1, 2))]
        if thorough:
            plans = [(self.ALPHA_T, 4, (1, 2, 3, 5, 6, 7), (None, 1, 2, 3)),
                     (self.ALPHA_Q, 5, (1, 2, 3, 6), (None, 1, 2))]
        for alpha, maxlen, Ls, Ns in plans:
            for n in range(1, maxlen + 1):
                for ops in itertools.product(alpha, repeat=n):
                    if not any(isinstance(o, tuple) for o in ops):
                        continue
                    for L in Ls:
                        for N in Ns:
                            c = (L, N, ops)
                            if emit(c):
                                yield c
        for n in range(1, (9 if thorough else 6) + 1):
            for ops in itertools.product(self.ALPHA_LONG, repeat=n):
                if ops[0] == "S" or ops.count("S") > 3:
                    continue
                for L in (1, 2):
                    for N in (None, 1, 2, 3):
                        c = (L, N, ops)
                        if emit(c):
                            yield c
        for n in range(1, 4):
            for ops in itertools.product((W_B1, W_B5, W_UU, "R", "S"), repeat=n):
                for L in (None, 0):
                    for N in (None, 1):
                        c = (L, N, ops)
                        if emit(c):
                            yield c
        # two-digit identifiers: runs of 11..13 small writes at rotateLength 1, a restart/reopen at every position
        for total in (11, 12, 13):
            for w in (W_B1, W_U2):
                for ins in (None, "S", "R"):
                    for p in ((None,) if ins is None else range(1, total)):
                        ops = (w,) * total if ins is None else (w,) * p + (ins,) + (w,) * (total - p)
                        for N in (None, 9, 10, 11):
                            c = (1, N, ops)
                            if emit(c):
                                yield c
        if thorough:
            for _ in range(30000):
                L, N, ops = _random_history(rng, 40, 64)
                yield (L, N, ops, "each")

    def check(self, case):
        L, N, ops = case[:3]
        r, _, _ = drive(L, N, ops, each_step=len(case) > 3)
        return r


class CrashInRotate(_C53):
    title = ("the same histories with the process dying before / just after the k-th rename or remove issued by the "
             "LogFile (object abandoned, new LogFile on the same path, history continues): retained files in written "
             "order without overlap; without retention count nothing lost")
    scope = ("quick: every history of length <= 5 over {write 1 byte, write 2 three-byte characters, restart} plus length <= 4 over {write 1 byte, write 5 bytes, write 1 two-byte character, reopen()} x "
             "rotateLength {1,2} x maxRotatedFiles {None,1,2,3} x EVERY mutating file-system call of the history "
             "(counted by a crash-free dry run of the real code) x crash before/after it; a run of 12 one-byte writes (with and without a restart in the middle) at "
             "rotateLength 1, maxRotatedFiles {None,10}, every crash point; thorough: lengths 7 / 5, "
             "rotateLength {1,2,3}, plus 12000 seeded random histories (up to 30 operations, rotateLength up to 32) "
             "with one or two crash points, observed after every step.")

    ALPHA_1 = (W_B1, W_UU, "S")
    ALPHA_2 = (W_B1, W_B5, W_U2, "R")

    def _histories(self, thorough):
        Ls = (1, 2, 3) if thorough else (1, 2)
        for alpha, maxlen in ((self.ALPHA_1, 7 if thorough else 5), (self.ALPHA_2, 5 if thorough else 4)):
            for n in range(2, maxlen + 1):
                for ops in itertools.product(alpha, repeat=n):
                    if sum(1 for o in ops if isinstance(o, tuple)) < 2 or ops[0] in ("S", "R"):
                        continue
                    for L in Ls:
                        for N in (None, 1, 2, 3):
                            yield L, N, ops
        # two-digit identifiers
        for N in (None, 10):
            yield 1, N, (W_B1,) * 12
            yield 1, N, (W_B1,) * 6 + ("S",) + (W_B1,) * 6

    def cases(self, tier, rng):
        thorough = tier != "quick"
        seen = set()
        for L, N, ops in self._histories(thorough):
            if (L, N, ops) in seen:
                continue
            seen.add((L, N, ops))
            _, count, _ = drive(L, N, ops)            # dry run: how many crash points does this history have
            for k in range(1, count + 1):
                yield (L, N, ops, (("before", k),))
                yield (L, N, ops, (("after", k),))
        if thorough:
            for _ in range(12000):
                L, N, ops = _random_history(rng, 30, 32)
                _, count, _ = drive(L, N, ops)
                if not count:
                    continue
                plan = {(rng.choice(("before", "after")), rng.randrange(1, count + 1))}
                if rng.random() < 0.4:
                    plan.add((rng.choice(("before", "after")), rng.randrange(1, count + 3)))
                yield (L, N, ops, tuple(sorted(plan)), "each")

    def check(self, case):
        L, N, ops, plan = case[:4]
        r, _, crashed = drive(L, N, ops, plan=plan, each_step=len(case) > 4)
        if not crashed:
            raise Bounded.Skip()
        return r


class PathSpellings(_C53):
    title = ("the property does not depend on how the log file or its directory is called: the crash-free check of "
             "Histories for file and directory names containing dots, digits and shell-pattern characters")
    scope = ("13 file names (plain, dotted, numeric extension, containing [ ] * ? and a leading dot) in a plain "
             "directory and 4 directory names ([x], a*b, d.1, plain) with a plain file name x rotateLength {1,3} x "
             "maxRotatedFiles {None,2} x 6 fixed histories of 3..8 writes with a restart and a reopen (thorough: "
             "every history of length <= 4 over {write 1 byte, write 5 bytes, restart}).")

    NAMES = ("log", "test.log", "a.b.c", "app.5", "app.0", "7", ".hidden", "x[1].log", "x[a-z].log", "x].log",
             "x*.log", "x?.log", "[!x]")
    DIRS = ("plain", "[x]", "a*b", "d.1")
    HIST = (
        (W_B1, W_B1, W_B1),
        (W_B5, W_B1, W_B5, W_B1),
        (W_B1, W_B1, "S", W_B1, W_B1),
        (W_B1, W_B5, "R", W_B1, W_B1, W_B1),
        (W_UU, W_B1, W_U2, "S", W_B5, W_B1),
        (W_B1, W_B1, W_B1, W_B1, "S", W_B1, W_B1, "R", W_B1, W_B1),
    )

    def cases(self, tier, rng):
        hist = list(self.HIST)
        if tier != "quick":
            for n in range(2, 5):
                for ops in itertools.product((W_B1, W_B5, "S"), repeat=n):
                    if ops[0] != "S" and ops not in hist:
                        hist.append(ops)
        spell = [(nm, "plain") for nm in self.NAMES] + [("test.log", d) for d in self.DIRS[1:]]
        for nm, d in spell:
            for L in (1, 3):
                for N in (None, 2):
                    for ops in hist:
                        yield (nm, d, L, N, ops)

    def check(self, case):
        nm, d, L, N, ops = case
        r, _, _ = drive(L, N, ops, name=nm, parent=d)
        return None if r is None else "%s (file name %r in directory %r)" % (r, nm, d)


class RetentionZero(_C53):
    title = "retention count 0: the crash-free check of Histories with maxRotatedFiles=0 (no rotated file may be kept)"
    scope = ("every history of length <= 4 (thorough 5) over {write 1 byte, write 5 bytes, write 1 two-byte "
             "character, restart} x rotateLength {1,2,3} with maxRotatedFiles=0.")

    def cases(self, tier, rng):
        for n in range(1, (5 if tier != "quick" else 4) + 1):
            for ops in itertools.product((W_B1, W_B5, W_U2, "S"), repeat=n):
                if ops[0] == "S":
                    continue
                for L in (1, 2, 3):
                    yield (L, 0, ops)

    def check(self, case):
        L, N, ops = case
        r, _, _ = drive(L, N, ops)
        return r


BOUNDED = [Histories, CrashInRotate, PathSpellings, RetentionZero]
