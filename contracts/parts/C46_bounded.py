"""C46 bounded-exhaustive checks: endpoint description quoting round-trips.

Property: for any text, inserting quoteStringArgument(text) as a positional or keyword argument of a
server or client endpoint description and parsing the description yields exactly that text at that
position.

The oracle is the statement itself: the description is *built* from a list of arguments of which one
is the quoted text, so the expected outcome of parsing is known by construction (the text, at the
positional index / under the keyword where it was put).  Nothing of the tokenizer is re-implemented.

Two levels are checked:
  * the parser (`_parse`, which both serverFromString and clientFromString use): the text must come back
    at its positional index (index 0 is the endpoint type) or under its keyword;
  * end to end: serverFromString / clientFromString build a real endpoint on a MemoryReactor, the endpoint
    is told to listen / connect, and the value the reactor receives (UNIX address, TCP interface, host,
    bind address, ...) must be the text.  Only the public reactor calls are observed.
"""

import itertools

from pyvc.api import Bounded

from twisted.internet import endpoints
from twisted.internet.endpoints import (
    clientFromString,
    quoteStringArgument,
    serverFromString,
)
from twisted.internet.protocol import Factory, Protocol
from twisted.internet.testing import MemoryReactor

# every character that matters to the description syntax (argument separator, keyword separator, escape),
# an ordinary ASCII letter and a non-ASCII letter
CORE = (":", "=", "\\", "a", "\xe9")
# wider alphabet for the seeded random part
RICH = CORE + ("/", " ", ".", "0", "\u20ac", "\U0001f600", "\u0301", "\n", "\t", "\x00", "\xff", "%", "'", '"', ",")

SPECIAL = set(":=\\")


def _texts(alphabet, maxlen):
    for n in range(maxlen + 1):
        for t in itertools.product(alphabet, repeat=n):
            yield "".join(t)


def _random_texts(rng, count, lo, hi):
    for _ in range(count):
        n = rng.randint(lo, hi)
        # bias towards the delimiters: half of the characters are drawn from the syntax characters
        yield "".join(rng.choice(CORE[:3]) if rng.random() < 0.5 else rng.choice(RICH) for _ in range(n))


# fillers are themselves ordinary, documented-style arguments (the Windows path one is the docstring's example)
_POS_FILL = ("p0", "C\\:/p1", "p2")
_KW_FILL = ("k0=v0", "k1=C\\:/v1", "k2=v2")


def _layouts(n_max):
    """(n, idx, kinds): n arguments after the endpoint type, the text is argument idx, kinds[j] in 'pk' says
    whether neighbour j is positional or keyword (kinds[idx] is ignored)."""
    for n in range(1, n_max + 1):
        for idx in range(n):
            for kinds in itertools.product("pk", repeat=n - 1):
                yield n, idx, "".join(kinds[:idx]) + "T" + "".join(kinds[idx:])


def _build(prefix, layout, textarg):
    parts = [prefix]
    for j, kind in enumerate(layout):
        if kind == "T":
            parts.append(textarg)
        elif kind == "p":
            parts.append(_POS_FILL[j])
        else:
            parts.append(_KW_FILL[j])
    # index 0 is the endpoint type; then one index per positional argument written before the text
    text_index = 1 + layout[:layout.index("T")].count("p")
    return ":".join(parts), text_index


class _ParseBase(Bounded):
    prop = "C46"
    functions = ["quoteStringArgument", "_tokenize", "_parse"]
    keyword = False

    def cases(self, tier, rng):
        maxlen = 5 if tier == "quick" else 7
        layouts = [lay for _, _, lay in _layouts(3)]
        for text in _texts(CORE, maxlen):
            for lay in layouts:
                yield (lay, text)
        nrand = 400 if tier == "quick" else 20000
        for text in _random_texts(rng, nrand, 1, 24):
            for lay in layouts:
                yield (lay, text)

    def nontrivial(self, case):
        return bool(SPECIAL & set(case[-1]))

    def check(self, case):
        layout, text = case
        quoted = quoteStringArgument(text)
        if self.keyword:
            desc, _ = _build("tcp", layout, "key=" + quoted)
        else:
            desc, index = _build("tcp", layout, quoted)
        try:
            args, kw = endpoints._parse(desc)
        except Exception as e:
            return "parsing %r raised %r" % (desc, e)
        if self.keyword:
            if "key" not in kw:
                return "parsing %r: no keyword 'key' (args=%r kw=%r), expected key -> %r" % (desc, args, kw, text)
            if kw["key"] != text:
                return "parsing %r: key -> %r, expected %r" % (desc, kw["key"], text)
        else:
            if index >= len(args):
                return "parsing %r: no positional argument %d (args=%r kw=%r), expected %r there" % (
                    desc, index, args, kw, text)
            if args[index] != text:
                return "parsing %r: positional argument %d is %r, expected %r (args=%r kw=%r)" % (
                    desc, index, args[index], text, args, kw)
        return None


class ParsePositional(_ParseBase):
    title = ("_parse('type:...:' + quoteStringArgument(text) + ':...') has text at the positional index where it was "
             "inserted")
    scope = ("every text of length 0..5 (thorough 0..7) over {':', '=', '\\\\', 'a', U+00E9}, in every argument "
             "position of descriptions with 1..3 arguments, every positional/keyword choice for the neighbours "
             "(17 layouts); plus 400 (thorough 20000) seeded random texts of length 1..24 over a 20-character "
             "alphabet (delimiters, ASCII, BMP and astral non-ASCII, combining mark, NUL, newline)")
    keyword = False


class ParseKeyword(_ParseBase):
    title = "_parse('type:...:key=' + quoteStringArgument(text) + ':...') maps 'key' to text"
    scope = ParsePositional.scope
    keyword = True


# ---------------------------------------------------------------------------------------------------
# end to end through serverFromString / clientFromString and a MemoryReactor

_FACTORY = Factory.forProtocol(Protocol)


def _listen(desc):
    r = MemoryReactor()
    serverFromString(r, desc).listen(_FACTORY)
    return r


def _connect(desc):
    r = MemoryReactor()
    clientFromString(r, desc).connect(_FACTORY)
    return r


# name -> (template with {q}, how to run, how to read the value the text must equal)
_POSITIONAL = {
    "server unix:{q}": (_listen, lambda r: r.unixServers[-1][0]),
    "server unix:{q}:mode=660:backlog=5": (_listen, lambda r: r.unixServers[-1][0]),
    "server unix:{q}:lockfile=0": (_listen, lambda r: r.unixServers[-1][0]),
    "client unix:{q}": (_connect, lambda r: r.unixClients[-1][0]),
    "client unix:{q}:lockfile=1:timeout=9": (_connect, lambda r: r.unixClients[-1][0]),
    "client tcp:{q}:80": (_connect, lambda r: r.tcpClients[-1][0]),
    "client tcp:{q}:port=80": (_connect, lambda r: r.tcpClients[-1][0]),
    "client tcp:{q}:80:timeout=7": (_connect, lambda r: r.tcpClients[-1][0]),
    "client ssl:{q}:443": (_connect, lambda r: r.sslClients[-1][0]),
}

_KEYWORD = {
    "server unix:address={q}": (_listen, lambda r: r.unixServers[-1][0]),
    "server unix:mode=660:address={q}:backlog=5": (_listen, lambda r: r.unixServers[-1][0]),
    "server tcp:0:interface={q}": (_listen, lambda r: r.tcpServers[-1][3]),
    "server tcp:port=0:interface={q}:backlog=5": (_listen, lambda r: r.tcpServers[-1][3]),
    "server tcp6:0:interface={q}": (_listen, lambda r: r.tcpServers[-1][3]),
    "client unix:path={q}": (_connect, lambda r: r.unixClients[-1][0]),
    "client unix:timeout=9:path={q}:lockfile=1": (_connect, lambda r: r.unixClients[-1][0]),
    "client tcp:host={q}:port=80": (_connect, lambda r: r.tcpClients[-1][0]),
    "client tcp:80:host={q}": (_connect, lambda r: r.tcpClients[-1][0]),
    "client tcp:h:80:bindAddress={q}": (_connect, lambda r: r.tcpClients[-1][4][0]),
    "client ssl:host={q}:port=443": (_connect, lambda r: r.sslClients[-1][0]),
}

# the ssl client templates need pyOpenSSL to build a context factory; without it they are outside what can be run
try:
    from OpenSSL import SSL as _SSL  # noqa: F401
except Exception:
    for _table in (_POSITIONAL, _KEYWORD):
        for _name in [n for n in _table if n.startswith("client ssl:")]:
            del _table[_name]

# slower templates (plugin lookup, TLS context construction) get a smaller exhaustive scope
_SLOW = ("server tcp6:", "client ssl:")


class _EndpointBase(Bounded):
    prop = "C46"
    functions = ["quoteStringArgument", "serverFromString", "clientFromString", "_parseServer", "_parse",
                 "_tokenize"]
    table = {}

    def cases(self, tier, rng):
        maxlen = 5 if tier == "quick" else 6
        slowlen = 3 if tier == "quick" else 4
        for text in _texts(CORE, maxlen):
            for name in self.table:
                if name.startswith(_SLOW) and len(text) > slowlen:
                    continue
                yield (name, text)
        nrand = 150 if tier == "quick" else 5000
        for text in _random_texts(rng, nrand, 1, 24):
            for name in self.table:
                if name.startswith(_SLOW) and rng.random() < 0.8:
                    continue
                yield (name, text)

    def nontrivial(self, case):
        return bool(SPECIAL & set(case[-1]))

    def check(self, case):
        name, text = case
        run, read = self.table[name]
        desc = name.split(" ", 1)[1].replace("{q}", quoteStringArgument(text))
        try:
            reactor = run(desc)
            got = read(reactor)
        except Exception as e:
            return "%s with description %r raised %r; expected the endpoint to receive %r" % (
                name.split(" ")[0], desc, e, text)
        if got != text:
            return "%s description %r: the reactor was given %r, expected %r" % (name.split(" ")[0], desc, got, text)
        return None


class EndpointPositional(_EndpointBase):
    title = ("serverFromString/clientFromString(template with quoteStringArgument(text) as a positional argument), "
             "then listen/connect on a MemoryReactor: the reactor receives text as address/path/host")
    scope = ("8 templates, 9 when pyOpenSSL is importable (unix server address; unix client path; tcp and ssl client "
             "host; with and without trailing keyword arguments); every text of length 0..5 (thorough 0..6) over "
             "{':', '=', '\\\\', 'a', U+00E9} (ssl template: 0..3 / 0..4); plus 150 (thorough 5000) seeded random texts "
             "of length 1..24 over a 20-character alphabet")
    table = _POSITIONAL


class EndpointKeyword(_EndpointBase):
    title = ("serverFromString/clientFromString(template with key=quoteStringArgument(text)), then listen/connect on "
             "a MemoryReactor: the reactor receives text as address/interface/path/host/bindAddress")
    scope = ("10 templates, 11 when pyOpenSSL is importable (unix server address=, tcp and tcp6(plugin) server "
             "interface=, unix client path=, tcp/ssl client host=, tcp client bindAddress=; text first, in the middle "
             "and last); every text of length 0..5 (thorough 0..6) over {':', '=', '\\\\', 'a', U+00E9} (tcp6/ssl "
             "templates: 0..3 / 0..4; a fifth of the random texts); plus 150 (thorough 5000) seeded random texts of "
             "length 1..24 over a 20-character alphabet")
    table = _KEYWORD


BOUNDED = [ParsePositional, ParseKeyword, EndpointPositional, EndpointKeyword]
