"""C23 bounded tier: HTTP/1.1 client completes every request exactly once with the exact body.

The real HTTP11ClientProtocol / HTTPClientParser / Response objects are driven with a generated response
stream that is cut at a truncation point (connection lost there) and delivered in segments.  What the
application sees (the request Deferred, the body consumer's dataReceived / connectionLost) is compared with
an oracle that comes from the way the response was *built* (hand-built responses: every wire byte is tagged
head / body data / framing when it is generated, RFC 9112 section 6.3 says which framing applies) or from an
independent HTTP implementation (h11 used as a client parser on the same truncated stream).
"""
import functools
import itertools

import h11

from pyvc.api import Bounded

from zope.interface import implementer

from twisted.internet.defer import Deferred
from twisted.internet.error import ConnectionDone, ConnectionLost
from twisted.internet.protocol import Protocol
from twisted.python.failure import Failure
from twisted.web._newclient import HTTP11ClientProtocol, Request, Response, ResponseDone
from twisted.web.http import PotentialDataLoss
from twisted.web.http_headers import Headers
from twisted.web.iweb import UNKNOWN_LENGTH, IBodyProducer


# ---------------------------------------------------------------------------------------------------------
# driver: the real client on a fake transport
# ---------------------------------------------------------------------------------------------------------

class _Transport:
    """A transport double that behaves like a TCP transport as far as the client can tell: it records what
    it is asked to do and never raises."""

    def __init__(self):
        self.written = []
        self.disconnecting = False
        self.paused = False
        self.held = None        # policy "held": segments that arrived while the client had paused the transport
        self.proto = None

    def write(self, data):
        self.written.append(bytes(data))

    def writeSequence(self, seq):
        self.written.append(b"".join(seq))

    def loseConnection(self):
        self.disconnecting = True

    def abortConnection(self):
        self.disconnecting = True

    def pauseProducing(self):
        self.paused = True

    def resumeProducing(self):
        self.paused = False
        # a transport that kept the bytes back while paused hands them over from inside resumeProducing (in-memory
        # transports, pumps and TLS layers do): the protocol is re-entered from its own deliverBody call
        while self.held and not self.paused and not self.disconnecting:
            self.proto.dataReceived(self.held.pop(0))

    def stopProducing(self):
        self.disconnecting = True

    def registerProducer(self, producer, streaming):
        pass

    def unregisterProducer(self):
        pass

    def getPeer(self):
        return None

    def getHost(self):
        return None


class _Consumer(Protocol):
    def __init__(self):
        self.events = []

    def dataReceived(self, data):
        self.events.append(("data", bytes(data)))

    def connectionLost(self, reason):
        self.events.append(("lost", reason))


@implementer(IBodyProducer)
class _Producer:
    """A request body of unknown length that is finished when the driver says so."""
    length = UNKNOWN_LENGTH

    def __init__(self):
        self.finished = Deferred()
        self.stopped = False

    def startProducing(self, consumer):
        consumer.write(b"x")
        return self.finished

    def stopProducing(self):
        self.stopped = True

    def pauseProducing(self):
        pass

    def resumeProducing(self):
        pass

    def finish(self):
        if not self.stopped and not self.finished.called:
            self.finished.callback(None)


POLICIES = ("immediate", "later", "later2", "buffered", "held")
# immediate: deliverBody(consumer) inside the request Deferred's callback
# later:     deliverBody right after the dataReceived call in which the Deferred fired has returned
# later2:    deliverBody after two more segments have been delivered (or at connection loss if there are fewer):
#            first part of the body through the Response's buffer, the rest live
# buffered:  deliverBody only after the connection has been lost (everything went through the Response's buffer)
# held:      the transport honours pauseProducing: segments that arrive while it is paused are kept back and handed to
#            the protocol synchronously from inside resumeProducing; deliverBody is called once one segment has been
#            kept back (or just before the connection loss is reported: a paused transport does not notice the loss)
# For later2 / buffered the transport double keeps delivering although the parser paused it (pauseProducing is
# advisory: data already read, e.g. by a TLS layer, still arrives); the Response is specified to buffer it.


def run_client(method, segments, policy, persistent, clean_close, finish_at=None, abort=False):
    """Issue one request, feed `segments`, then lose the connection.  Returns (fired, fired_at, consumer,
    escaped) where fired is the list of results the request Deferred delivered, fired_at the index of the
    segment during which it fired (len(segments) = at connection loss) and escaped a description of an
    exception that escaped the protocol, if any.

    finish_at None: the request has no body (fully written at once).  Otherwise the request has a body producer
    that finishes just before segment number finish_at is delivered (len(segments): just before the connection
    loss; -1: never).

    abort: the application calls HTTP11ClientProtocol.abort() after the last segment; the connection loss that
    follows is the transport's answer to it."""
    tr = _Transport()
    proto = HTTP11ClientProtocol()
    proto.makeConnection(tr)
    if policy == "held":
        tr.held, tr.proto = [], proto
    consumer = _Consumer()
    fired = []
    state = {"delivered": False, "at": None, "now": 0, "since": 0}

    def deliver(resp):
        state["delivered"] = True
        resp.deliverBody(consumer)

    def got(result):
        fired.append(result)
        state["at"] = state["now"]
        if isinstance(result, Response) and policy == "immediate":
            deliver(result)
        return None

    producer = None if finish_at is None else _Producer()
    d = proto.request(Request(method, b"/", Headers({b"host": [b"h"]}), producer, persistent=persistent))
    d.addBoth(got)
    try:
        for k, seg in enumerate(segments):
            state["now"] = k
            if finish_at == k:
                producer.finish()
            if tr.disconnecting:
                break  # the client asked for the connection to be closed: a transport delivers nothing more
            have = bool(fired) and isinstance(fired[0], Response)
            if tr.held is not None and (tr.paused or tr.held):
                tr.held.append(seg)
            else:
                proto.dataReceived(seg)
            if fired and isinstance(fired[0], Response) and not state["delivered"]:
                if have:
                    state["since"] += 1
                if policy == "later" or (policy == "later2" and state["since"] >= 2) or (policy == "held" and tr.held):
                    deliver(fired[0])
        state["now"] = len(segments)
        if finish_at == len(segments):
            producer.finish()
        if policy == "held" and fired and isinstance(fired[0], Response) and not state["delivered"]:
            deliver(fired[0])
        if tr.held:
            tr.resumeProducing()
        if abort:
            aborted = []
            proto.abort().addBoth(aborted.append)
        proto.connectionLost(Failure(ConnectionDone() if clean_close else ConnectionLost()))
        if fired and isinstance(fired[0], Response) and not state["delivered"]:
            deliver(fired[0])
        if abort and aborted != [None]:
            return fired, state["at"], consumer, "the Deferred returned by abort() fired %r" % (aborted,)
    except Exception as e:  # nothing may escape into the reactor
        return fired, state["at"], consumer, "%s: %s" % (type(e).__name__, e)
    return fired, state["at"], consumer, None


def judge(expected, obs, seg_with_header_end, nseg, status):
    """expected = (deferred, body, end): deferred in {'failure','response'}; body bytes; end in
    {'done','potential','failure'} (None when there is no response)."""
    fired, fired_at, consumer, escaped = obs
    want_d, want_body, want_end = expected
    if escaped:
        return "exception escaped the protocol: %s" % escaped
    if len(fired) != 1:
        return "request Deferred fired %d times" % len(fired)
    res = fired[0]
    if want_d == "failure":
        if not isinstance(res, Failure):
            return "headers incomplete, Deferred fired with %r instead of a failure" % (res,)
        if consumer.events:
            return "no response but consumer saw %r" % (consumer.events,)
        return None
    if not isinstance(res, Response):
        return "headers complete, Deferred fired with %r instead of the response" % (res,)
    if res.code != status:
        return "response code %r, sent %r" % (res.code, status)
    if seg_with_header_end is not None and fired_at != seg_with_header_end:
        return "headers complete in segment %d of %d, Deferred fired at %r" % (seg_with_header_end, nseg, fired_at)
    ev = consumer.events
    nlost = sum(1 for e in ev if e[0] == "lost")
    if nlost != 1:
        return "consumer connectionLost called %d times" % nlost
    if ev[-1][0] != "lost":
        return "consumer got data after connectionLost: %r" % (ev,)
    body = b"".join(e[1] for e in ev if e[0] == "data")
    if body != want_body:
        return "body delivered %r, body bytes received %r" % (body, want_body)
    reason = ev[-1][1]
    if not isinstance(reason, Failure):
        return "connectionLost reason %r is not a Failure" % (reason,)
    if want_end == "done":
        if not reason.check(ResponseDone):
            return "whole body arrived, connectionLost(%r) instead of ResponseDone" % (reason.value,)
    elif want_end == "potential":
        if not reason.check(PotentialDataLoss):
            return "close-delimited body, connectionLost(%r) instead of PotentialDataLoss" % (reason.value,)
    else:
        if reason.check(ResponseDone, PotentialDataLoss):
            return "truncated body, connectionLost(%r) instead of a failure" % (reason.value,)
    return None


def cut(stream, points):
    out, prev = [], 0
    for p in points:
        out.append(stream[prev:p])
        prev = p
    out.append(stream[prev:])
    return [s for s in out if s]


def seg_index_of(segments, pos):
    """index of the segment that contains stream byte `pos`"""
    n = 0
    for k, s in enumerate(segments):
        n += len(s)
        if pos < n:
            return k
    return len(segments)


# ---------------------------------------------------------------------------------------------------------
# hand-built responses: the generator is the specification (each byte is tagged when produced)
# ---------------------------------------------------------------------------------------------------------

HEAD_, DATA_, FRAME_, JUNK_ = 0, 1, 2, 3

INTERIMS = {
    0: (),
    1: (b"HTTP/1.1 100 Continue\r\n\r\n",),
    2: (b"HTTP/1.1 103 Early Hints\r\nLink: </a>; rel=preload\r\n\r\n", b"HTTP/1.1 100 Continue\r\n\r\n"),
    3: (b"HTTP/1.1 102 \r\nX-P: 1\r\n\r\n",),
}

STATUS_LINES = {
    (200, 0): b"HTTP/1.1 200 OK\r\n",
    (200, 1): b"HTTP/1.0 200 OK\r\n",
    (200, 2): b"HTTP/1.1 200 \r\n",
    (404, 0): b"HTTP/1.1 404 Not Found\r\n",
    (204, 0): b"HTTP/1.1 204 No Content\r\n",
    (304, 0): b"HTTP/1.1 304 Not Modified\r\n",
    (201, 0): b"HTTP/1.1 201 Created\r\n",
}

JUNKS = {0: b"", 1: b"x", 2: b"HTTP/1.1 500 No\r\nContent-Length: 1\r\n\r\nZ"}


def _chunk(data, style, k):
    n = len(data)
    if style == 0:
        size = b"%x" % n
    elif style == 1:
        size = b"%x;x=%d" % (n, k)
    else:
        size = b"0%X;q=\"a b\";r" % n
    return [(size + b"\r\n", FRAME_), (data, DATA_), (b"\r\n", FRAME_)]


def build(spec):
    """spec -> dict(wire, tags, H, end, kind, status).  end is the stream offset at which the message is
    complete (None for a close-delimited body)."""
    method, interim, (status, sl), framing, chunks, style, junk, conn_close, persistent = spec
    body = b"".join(chunks)
    pieces = [(i, HEAD_) for i in INTERIMS[interim]]
    pieces.append((STATUS_LINES[(status, sl)], HEAD_))
    pieces.append((b"X-A: 1\r\n", HEAD_))
    if framing == "cl":
        n = len(body)
        if style == 0:
            h = b"Content-Length: %d\r\n" % n
        elif style == 1:
            h = b"content-length:%d\r\n" % n
        else:
            h = b"CONTENT-LENGTH: 0%d \r\ncontent-length: %d, %d\r\n" % (n, n, n)
        pieces.append((h, HEAD_))
    elif framing == "chunked":
        if style == 0:
            h = b"Transfer-Encoding: chunked\r\n"
        elif style == 1:
            h = b"transfer-encoding:chunked\r\n"
        else:
            # RFC 9112 6.3 rule 3: Transfer-Encoding overrides Content-Length
            h = b"Content-Length: 999\r\nTransfer-Encoding: Chunked\r\n"
        pieces.append((h, HEAD_))
    if conn_close:
        pieces.append((b"Connection: close\r\n", HEAD_))
    pieces.append((b"X-Z: end\r\n", HEAD_))
    pieces.append((b"\r\n", HEAD_))
    nobody = method == b"HEAD" or status in (204, 304)
    kind = "nobody"
    if not nobody:
        if framing == "cl":
            kind = "cl"
            pieces.append((body, DATA_))
        elif framing == "chunked":
            kind = "chunked"
            for k, c in enumerate(chunks):
                if c:
                    pieces.extend(_chunk(c, style, k))
            pieces.append((b"0\r\n" if style != 2 else b"000;last\r\n", FRAME_))
            if style == 1:
                pieces.append((b"X-T: 1\r\n", FRAME_))
            elif style == 2:
                pieces.append((b"X-T: 1\r\nX-U:\r\n", FRAME_))
            pieces.append((b"\r\n", FRAME_))
        else:
            kind = "close"
            pieces.append((body, DATA_))
    wire = bytearray()
    tags = bytearray()
    for data, tag in pieces:
        wire += data
        tags += bytes([tag]) * len(data)
    H = tags.count(bytes([HEAD_]))
    end = None if kind == "close" else len(wire)
    if kind != "close":
        j = JUNKS[junk]
        wire += j
        tags += bytes([JUNK_]) * len(j)
    return dict(wire=bytes(wire), tags=bytes(tags), H=H, end=end, kind=kind, status=status)


def expect(model, t):
    """What the application must see when exactly the first t bytes of the stream arrive before the close."""
    if t < model["H"]:
        return ("failure", None, None)
    wire, tags = model["wire"], model["tags"]
    body = bytes(wire[i] for i in range(model["H"], t) if tags[i] == DATA_)
    if model["kind"] == "close":
        return ("response", body, "potential")
    return ("response", body, "done" if t >= model["end"] else "failure")


BODIES = [(), (b"a",), (b"ab", b"c"), (b"\r\n", b"0\r\n\r\n"), (b"0123456789abcdef", b"\n")]


def _core_specs():
    """small set for which every 2-way split of every truncation is run"""
    G, Hd = b"GET", b"HEAD"
    out = []
    for framing in ("cl", "chunked", "close"):
        out.append((G, 0, (200, 0), framing, (b"ab", b"c"), 0, 0, False, False))
    out.append((G, 1, (200, 0), "chunked", (b"\r\n", b"0\r\n\r\n"), 1, 1, False, True))
    out.append((G, 0, (200, 0), "cl", (), 0, 1, False, False))
    out.append((G, 0, (204, 0), "none", (), 0, 0, False, True))
    out.append((Hd, 0, (200, 0), "cl", (b"abc",), 0, 0, False, False))
    out.append((G, 0, (304, 0), "cl", (b"abc",), 0, 1, True, True))
    return out


def _wide_specs(tier):
    G, Hd = b"GET", b"HEAD"
    seen = set()
    out = []

    def add(s):
        if s not in seen:
            seen.add(s)
            out.append(s)

    for s in _core_specs():
        add(s)
    # framing x body x style x status-line spelling
    for framing in ("cl", "chunked", "close"):
        for chunks in BODIES:
            for style in (0, 1, 2):
                if framing == "close" and style:
                    continue
                for st in ((200, 0), (200, 1), (200, 2), (404, 0)):
                    add((G, 0, st, framing, chunks, style, 0, False, False))
    # interim responses, junk after the message, Connection: close, persistent connection
    for framing in ("cl", "chunked", "close"):
        for interim in (1, 2, 3):
            for chunks in ((), (b"ab", b"c")):
                add((G, interim, (200, 0), framing, chunks, 1 if framing != "close" else 0, 0, False, False))
        for junk in (1, 2):
            for persistent in (False, True):
                for cc in (False, True):
                    add((G, 0, (201, 0), framing, (b"ab", b"c"), 0, junk, cc, persistent))
                    add((G, 1, (200, 0), framing, (), 2 if framing != "close" else 0, junk, cc, persistent))
    # responses that never have a body, whatever their framing headers say
    for method, st in ((Hd, (200, 0)), (Hd, (404, 0)), (G, (204, 0)), (G, (304, 0)), (Hd, (304, 0))):
        for framing in ("cl", "chunked", "none"):
            for interim in (0, 1):
                for junk in (0, 2):
                    for persistent in (False, True):
                        add((method, interim, st, framing, (b"abc",), 0, junk, False, persistent))
    return out


class TruncatedResponses(Bounded):
    prop = "C23"
    title = ("hand-built response, every truncation point, segmented delivery: request Deferred and body consumer "
             "versus the byte-tagged construction of the response")
    scope = ("GET/HEAD; status 200/201/404/204/304 (HTTP/1.1, HTTP/1.0, empty reason phrase); 0-2 interim 1xx "
             "responses with and without headers; body framed by Content-Length (3 header spellings incl. leading zero, "
             "repeated equal values), chunked (plain / extensions + trailer / quoted extension, leading zeros, upper-case "
             "hex, Transfer-Encoding beside Content-Length) or connection close; bodies (), a, ab|c, CRLF|0CRLFCRLF, "
             "16+1 bytes; optional junk / second response after the message; Connection: close; persistent or not; "
             "connection lost after every byte count 0..len; delivery: one segment, byte at a time, 4 seeded random "
             "segmentations, and for the 8 core responses every 2-way split (thorough: every 2-way split for all, "
             "every 3-way split for core); deliverBody in the callback / after the segment / two segments later / after "
             "the connection loss (quick: all four for the core responses, one rotating timing for the others)")
    functions = ["HTTP11ClientProtocol.request", "HTTP11ClientProtocol.dataReceived",
                 "HTTP11ClientProtocol.connectionLost", "HTTP11ClientProtocol._finishResponse_WAITING",
                 "HTTP11ClientProtocol._disconnectParser", "HTTPClientParser.statusReceived",
                 "HTTPClientParser.allHeadersReceived", "HTTPClientParser.connectionLost", "HTTPParser.lineReceived",
                 "_contentLength", "_IdentityTransferDecoder.dataReceived", "_IdentityTransferDecoder.noMoreData",
                 "_ChunkedTransferDecoder.dataReceived", "_ChunkedTransferDecoder.noMoreData", "Response.deliverBody",
                 "Response._bodyDataReceived", "Response._bodyDataFinished"]

    def cases(self, tier, rng):
        core = set(_core_specs())
        for idx, spec in enumerate(_wide_specs(tier)):
            n = len(build(spec)["wire"])
            # quick: the core responses with all four deliverBody timings, the others with one (rotating)
            policies = POLICIES if (tier != "quick" or spec in core) else (POLICIES[idx % len(POLICIES)],)
            for policy in policies:
                for t in range(0, n + 1):
                    if spec in core:
                        mode = "all3" if tier != "quick" and n <= 60 else "all2"
                    else:
                        mode = "all2" if tier != "quick" else "basic"
                    yield (spec, policy, t, mode, rng.getrandbits(32))

    def nontrivial(self, case):
        return case[2] > 0

    def check(self, case):
        import random
        spec, policy, t, mode, seed = case
        model = build(spec)
        stream = model["wire"][:t]
        want = expect(model, t)
        clean = t == len(model["wire"])
        segmentations = [[stream] if stream else [], [stream[i:i + 1] for i in range(t)]]
        r = random.Random(seed)
        for _ in range(4):
            if t >= 2:
                k = r.randint(1, min(5, t - 1))
                segmentations.append(cut(stream, sorted(r.sample(range(1, t), k))))
        if mode in ("all2", "all3"):
            for i in range(1, t):
                segmentations.append(cut(stream, [i]))
        if mode == "all3":
            for i in range(1, t):
                for j in range(i + 1, t):
                    segmentations.append(cut(stream, [i, j]))
        for segs in segmentations:
            obs = run_client(spec[0], segs, policy, spec[8], clean)
            k = seg_index_of(segs, model["H"] - 1)
            bad = judge(want, obs, k, len(segs), model["status"])
            if bad:
                return "%s; stream %r cut %r" % (bad, stream, [len(s) for s in segs])
        return None


class AbortedByApplication(Bounded):
    prop = "C23"
    title = ("the connection loss is the application's own doing (HTTP11ClientProtocol.abort() after the bytes received "
             "so far): same oracle as TruncatedResponses -- the request Deferred fires exactly once, the body consumer "
             "gets the body bytes received and exactly one connectionLost (ResponseDone / PotentialDataLoss / failure)")
    scope = ("the 8 core responses (Content-Length, chunked, close-delimited, interim + chunked with trailers, empty "
             "Content-Length body, 204, HEAD, 304), abort after every byte count 0..len, delivery in one segment, byte at a "
             "time and every 2-way split, all five deliverBody timings, clean and unclean loss report")
    functions = ["HTTP11ClientProtocol.abort", "HTTP11ClientProtocol._connectionLost_ABORTING",
                 "HTTP11ClientProtocol._finishResponse", "HTTPClientParser.connectionLost",
                 "_IdentityTransferDecoder.noMoreData", "Response._bodyDataFinished"]

    def cases(self, tier, rng):
        for spec in _core_specs():
            n = len(build(spec)["wire"])
            for policy in POLICIES:
                for t in range(0, n + 1):
                    yield (spec, policy, t)

    def nontrivial(self, case):
        return case[2] > 0

    def check(self, case):
        spec, policy, t = case
        model = build(spec)
        stream = model["wire"][:t]
        want = expect(model, t)
        segmentations = [[stream] if stream else [], [stream[i:i + 1] for i in range(t)]]
        segmentations += [cut(stream, [i]) for i in range(1, t)]
        for segs in segmentations:
            for clean in (True, False):
                obs = run_client(spec[0], segs, policy, spec[8], clean, abort=True)
                k = seg_index_of(segs, model["H"] - 1)
                bad = judge(want, obs, k, len(segs), model["status"])
                if bad:
                    return "%s; abort() after stream %r cut %r" % (bad, stream, [len(s) for s in segs])
        return None


# ---------------------------------------------------------------------------------------------------------
# h11-serialized responses, judged by h11 parsing the same truncated stream as a client
# ---------------------------------------------------------------------------------------------------------

@functools.lru_cache(maxsize=None)
def h11_serialize(spec):
    """spec = (method, req_version, interims, status, use_cl, datas, conn_close) -> wire bytes as an h11 server
    writes them (h11 chooses chunked for an HTTP/1.1 peer, close-delimited for an HTTP/1.0 peer)."""
    method, reqv, interims, status, use_cl, datas, conn_close = spec
    srv = h11.Connection(our_role=h11.SERVER)
    srv.receive_data(method + b" / HTTP/" + reqv + b"\r\nHost: h\r\n\r\n")
    while True:
        ev = srv.next_event()
        if ev is h11.NEED_DATA or isinstance(ev, h11.EndOfMessage):
            break
    wire = b""
    for code in interims:
        wire += srv.send(h11.InformationalResponse(status_code=code, headers=[("X-I", "1")]))
    headers = [("X-A", "1")]
    if use_cl:
        headers.append(("Content-Length", str(sum(len(d) for d in datas))))
    if conn_close:
        headers.append(("Connection", "close"))
    wire += srv.send(h11.Response(status_code=status, headers=headers))
    nobody = method == b"HEAD" or status in (204, 304)
    if not nobody:
        for dchunk in datas:
            wire += srv.send(h11.Data(data=dchunk))
    wire += srv.send(h11.EndOfMessage()) or b""
    close_delimited = (not nobody) and (not use_cl) and reqv == b"1.0"
    return wire, close_delimited


def h11_expect(method, stream, close_delimited):
    """Parse `stream` followed by EOF with h11 as the client."""
    cli = h11.Connection(our_role=h11.CLIENT)
    cli.send(h11.Request(method=method, target="/", headers=[("Host", "h")]))
    cli.send(h11.EndOfMessage())
    cli.receive_data(stream)
    cli.receive_data(b"")
    got_response, body, done, status = False, b"", False, None
    try:
        while True:
            ev = cli.next_event()
            if ev is h11.NEED_DATA or ev is h11.PAUSED:
                break
            if isinstance(ev, h11.Response):
                got_response, status = True, ev.status_code
            elif isinstance(ev, h11.Data):
                body += bytes(ev.data)
            elif isinstance(ev, h11.EndOfMessage):
                done = True
                break
            elif isinstance(ev, h11.ConnectionClosed):
                break
    except h11.RemoteProtocolError:
        pass
    if not got_response:
        return ("failure", None, None), None
    if close_delimited:
        return ("response", body, "potential"), status
    return ("response", body, "done" if done else "failure"), status


class H11Responses(Bounded):
    prop = "C23"
    title = ("h11-serialized response, every truncation point, segmented delivery: twisted client's Deferred / body / "
             "close reason versus h11 (as client) parsing the same truncated stream")
    scope = ("h11 server output for GET/HEAD from an HTTP/1.1 or HTTP/1.0 peer; status 200/404/204/304; 0-2 interim "
             "responses (100, 103); Content-Length, chunked (h11's choice for 1.1) or close-delimited (h11's choice for "
             "1.0); Data events (), a, ab|c, CRLF|0CRLFCRLF, 20 bytes|LF; Connection: close or not; persistent or not; "
             "connection lost after every byte count 0..len; one segment, byte at a time, every 2-way split (quick: "
             "2-way splits and all four timings for every eleventh response, one rotating timing for the rest), 3 seeded random segmentations; four deliverBody timings")
    functions = TruncatedResponses.functions

    def _specs(self):
        out = []
        datas_all = [(), (b"a",), (b"ab", b"c"), (b"\r\n", b"0\r\n\r\n"), (b"x" * 20, b"\n")]
        for method in (b"GET", b"HEAD"):
            for reqv in (b"1.1", b"1.0"):
                for status in (200, 404, 204, 304):
                    for use_cl in (True, False):
                        for datas in datas_all:
                            if (method == b"HEAD" or status in (204, 304)) and datas not in ((), (b"ab", b"c")):
                                continue
                            if status == 404 and datas != (b"ab", b"c"):
                                continue
                            for interims in ((), (100,), (103, 100)):
                                if interims and (reqv == b"1.0" or datas not in ((b"ab", b"c"),)):
                                    continue  # h11 refuses 1xx to a 1.0 peer
                                for cc in (False, True):
                                    out.append((method, reqv, interims, status, use_cl, datas, cc))
        return out

    def cases(self, tier, rng):
        for n, spec in enumerate(self._specs()):
            wire, _ = h11_serialize(spec)
            full = tier != "quick" or n % 11 == 0
            # quick: every eleventh response with all four deliverBody timings and all 2-way splits, the others
            # with one timing (rotating)
            policies = list(enumerate(POLICIES)) if full else [(n // 3, POLICIES[n % len(POLICIES)])]
            for pi, policy in policies:
                persistent = (n + pi) % 2 == 0
                for t in range(0, len(wire) + 1):
                    yield (spec, policy, persistent, t, full, rng.getrandbits(32))

    def nontrivial(self, case):
        return case[3] > 0

    def check(self, case):
        import random
        spec, policy, persistent, t, full, seed = case
        wire, close_delimited = h11_serialize(spec)
        stream = wire[:t]
        want, status = h11_expect(spec[0], stream, close_delimited)
        # where the final response's header block ends: first CRLFCRLF after the interim responses (the
        # serializer is h11, its heads are CRLF-delimited)
        pos = 0
        for _ in range(len(spec[2]) + 1):
            k = wire.find(b"\r\n\r\n", pos)
            pos = k + 4
        H = pos
        if (want[0] == "response") != (t >= H):
            return "reference disagreement: h11 says %r at t=%d, header block ends at %d" % (want[0], t, H)
        segmentations = [[stream] if stream else [], [stream[i:i + 1] for i in range(t)]]
        r = random.Random(seed)
        for _ in range(3):
            if t >= 2:
                k = r.randint(1, min(5, t - 1))
                segmentations.append(cut(stream, sorted(r.sample(range(1, t), k))))
        if full:
            for i in range(1, t):
                segmentations.append(cut(stream, [i]))
        for segs in segmentations:
            obs = run_client(spec[0], segs, policy, persistent, t == len(wire))
            bad = judge(want, obs, seg_index_of(segs, H - 1), len(segs), status)
            if bad:
                return "%s; stream %r cut %r" % (bad, stream, [len(s) for s in segs])
        return None


# ---------------------------------------------------------------------------------------------------------
# larger random responses and segmentations
# ---------------------------------------------------------------------------------------------------------

class RandomLarge(Bounded):
    prop = "C23"
    title = "seeded random larger bodies / chunkings / segmentations, random truncation: same comparison as TruncatedResponses"
    scope = ("bodies of 0..3000 bytes over an alphabet biased to CR, LF, '0', ';' in 1..6 chunks; all framings and "
             "styles of TruncatedResponses; random truncation point (biased to the ends and chunk edges) and random "
             "segmentation into 1..12 pieces; quick 4000 cases, thorough 40000; not exhaustive")
    functions = TruncatedResponses.functions

    def cases(self, tier, rng):
        for _ in range(4000 if tier == "quick" else 40000):
            yield (rng.getrandbits(48),)

    def check(self, case):
        import random
        r = random.Random(case[0])
        nchunks = r.randint(0, 6)
        chunks = []
        for _ in range(nchunks):
            ln = r.choice([1, 2, 3, 15, 16, 17, 255, 256, r.randint(1, 1000)])
            chunks.append(bytes(r.choice(b"\r\n0;a\x00\xffA:") for _ in range(ln)))
        framing = r.choice(["cl", "chunked", "close"])
        style = r.choice([0, 1, 2]) if framing != "close" else 0
        method = r.choice([b"GET", b"GET", b"GET", b"HEAD"])
        st = r.choice([(200, 0), (200, 1), (200, 2), (404, 0), (201, 0), (204, 0), (304, 0)])
        spec = (method, r.choice([0, 0, 1, 2, 3]), st, framing, tuple(chunks), style, r.choice([0, 1, 2]),
                r.random() < 0.3, r.random() < 0.5)
        model = build(spec)
        n = len(model["wire"])
        edges = [0, n, model["H"], model["H"] - 1, model["H"] + 1, n - 1]
        if model["end"] is not None:
            edges += [model["end"], model["end"] - 1, model["end"] + 1]
        tags = model["tags"]
        edges += [i for i in range(1, n) if tags[i] != tags[i - 1]]
        t = r.choice(edges) if r.random() < 0.5 else r.randint(0, n)
        t = max(0, min(n, t))
        stream = model["wire"][:t]
        k = r.randint(0, min(11, max(0, t - 1)))
        segs = cut(stream, sorted(r.sample(range(1, t), k))) if k else ([stream] if stream else [])
        policy = r.choice(POLICIES)
        obs = run_client(method, segs, policy, spec[8], t == n)
        bad = judge(expect(model, t), obs, seg_index_of(segs, model["H"] - 1), len(segs), model["status"])
        if bad:
            return "%s; spec %r policy %s t=%d cut %r" % (bad[:300], spec[:3] + spec[5:], policy, t, [len(s) for s in segs])
        return None


# ---------------------------------------------------------------------------------------------------------
# the response arrives while the request body is still being written (protocol state machine)
# ---------------------------------------------------------------------------------------------------------

class RequestStillTransmitting(Bounded):
    prop = "C23"
    title = ("response arriving while the request body producer is still running: Deferred exactly once, consumer "
             "exactly once with the exact body, for every point at which the producer finishes (or never)")
    scope = ("the 8 core responses of TruncatedResponses; request with a chunked body producer that finishes before "
             "segment k for every k, just before the connection loss, or never; every truncation point; one segment, "
             "byte at a time (quick: bytewise only for every fourth truncation point), split in the middle; four "
             "deliverBody timings.  "
             "Oracle weaker than the statement where documented behaviour says so: if the connection is lost while "
             "the request is still being written and the response is incomplete, a failure (documented "
             "RequestTransmissionFailed) is accepted in place of the response; the time of firing is not checked")
    functions = ["HTTP11ClientProtocol.request", "HTTP11ClientProtocol._finishResponse_TRANSMITTING",
                 "HTTP11ClientProtocol._connectionLost_TRANSMITTING",
                 "HTTP11ClientProtocol._connectionLost_TRANSMITTING_AFTER_RECEIVING_RESPONSE",
                 "HTTP11ClientProtocol._connectionLost_WAITING", "HTTP11ClientProtocol._disconnectParser",
                 "HTTPClientParser.allHeadersReceived", "HTTPClientParser.connectionLost", "Response.deliverBody"]

    def cases(self, tier, rng):
        for spec in _core_specs():
            n = len(build(spec)["wire"])
            for policy in POLICIES:
                for t in range(0, n + 1):
                    yield (spec, policy, t, tier != "quick" or t % 4 == 0)

    def check(self, case):
        spec, policy, t, bytewise = case
        model = build(spec)
        stream = model["wire"][:t]
        want = expect(model, t)
        clean = t == len(model["wire"])
        segmentations = [[stream] if stream else []]
        if t > 1:
            segmentations.append(cut(stream, [t // 2]))
        if bytewise and t > 2:
            segmentations.append([stream[i:i + 1] for i in range(t)])
        for segs in segmentations:
            for fa in [-1] + list(range(0, len(segs) + 1)):
                obs = run_client(spec[0], segs, policy, spec[8], clean, finish_at=fa)
                fired, _, consumer, escaped = obs
                w = want
                if (fa == -1 and not escaped and len(fired) == 1 and isinstance(fired[0], Failure)
                        and want[0] == "response" and want[2] != "done"):
                    # connection lost while the request was still being written, response incomplete
                    w = ("failure", None, None)
                bad = judge(w, obs, None, len(segs), model["status"])
                if bad:
                    return "%s; stream %r cut %r producer finishes at %r" % (bad, stream, [len(s) for s in segs], fa)
        return None


class ReentrantNextRequest(Bounded):
    prop = "C23"
    title = "the next request issued from inside the first response's end-of-body notification (keep-alive reuse)"
    scope = ("persistent connection; first response 200 with a Content-Length body of 0..3 bytes or chunked; the body "
             "consumer's connectionLost issues the second request on the same protocol; second response 204 / 304 / 200 "
             "with Content-Length 0 / 200 with a 2-byte body / chunked, optionally after a 100 Continue; the byte stream "
             "of both responses cut at every point (second response only sent once the second request is on the wire); "
             "exhaustive")
    functions = ["HTTP11ClientProtocol.request", "HTTP11ClientProtocol._finishResponse_WAITING",
                 "HTTP11ClientProtocol._disconnectParser", "HTTPClientParser.connectionLost", "Response._bodyDataFinished"]

    FIRST = {"cl0": (b"HTTP/1.1 200 OK\r\nContent-Length: 0\r\n\r\n", b""),
             "cl3": (b"HTTP/1.1 200 OK\r\nContent-Length: 3\r\n\r\nabc", b"abc"),
             "chunked": (b"HTTP/1.1 200 OK\r\nTransfer-Encoding: chunked\r\n\r\n2\r\nab\r\n0\r\n\r\n", b"ab")}
    SECOND = {"204": (b"HTTP/1.1 204 No Content\r\n\r\n", 204, b""),
              "304": (b"HTTP/1.1 304 Not Modified\r\n\r\n", 304, b""),
              "cl0": (b"HTTP/1.1 200 OK\r\nContent-Length: 0\r\n\r\n", 200, b""),
              "cl2": (b"HTTP/1.1 200 OK\r\nContent-Length: 2\r\n\r\nxy", 200, b"xy"),
              "chunked": (b"HTTP/1.1 200 OK\r\nTransfer-Encoding: chunked\r\n\r\n1\r\nz\r\n0\r\n\r\n", 200, b"z"),
              "100+204": (b"HTTP/1.1 100 Continue\r\n\r\nHTTP/1.1 204 No Content\r\n\r\n", 204, b"")}

    def cases(self, tier, rng):
        for f in self.FIRST:
            for s2 in self.SECOND:
                n1, n2 = len(self.FIRST[f][0]), len(self.SECOND[s2][0])
                cuts1 = range(0, n1) if tier == "thorough" else sorted(set([0, 1, n1 // 2, n1 - 2, n1 - 1]) & set(range(0, n1)))
                cuts2 = range(0, n2) if tier == "thorough" else sorted(set([0, 1, n2 // 2, n2 - 1]) & set(range(0, n2)))
                for c1 in cuts1:
                    for c2 in cuts2:
                        yield (f, s2, c1, c2)

    def check(self, case):
        f, s2, c1, c2 = case
        first, body1 = self.FIRST[f]
        second, code2, body2 = self.SECOND[s2]
        t = _Transport()
        proto = HTTP11ClientProtocol()
        proto.makeConnection(t)
        t.proto = proto
        got1, got2, cons2 = [], [], _Consumer()
        seconds = []

        class First(_Consumer):
            def connectionLost(self_, reason):
                _Consumer.connectionLost(self_, reason)
                # the application reuses the connection at once
                d2 = proto.request(Request(b"GET", b"/second", Headers({b"host": [b"h"]}), None, persistent=True))
                seconds.append(d2)

                def have2(resp):
                    got2.append(resp)
                    if isinstance(resp, Response):
                        resp.deliverBody(cons2)
                    return None
                d2.addBoth(have2)

        cons1 = First()
        d1 = proto.request(Request(b"GET", b"/first", Headers({b"host": [b"h"]}), None, persistent=True))

        def have1(resp):
            got1.append(resp)
            if isinstance(resp, Response):
                resp.deliverBody(cons1)
            return None
        d1.addBoth(have1)
        try:
            for seg in (first[:c1], first[c1:]):
                if seg:
                    proto.dataReceived(seg)
            if len(seconds) != 1:
                return "first response %s cut at %d: end of body reported %d time(s) to the consumer" % (f, c1, len(seconds))
            if sum(1 for w in t.written if b"/second" in w) != 1:
                return "second request not written exactly once: %r" % (t.written,)
            for seg in (second[:c2], second[c2:]):
                if seg:
                    proto.dataReceived(seg)
        except Exception as e:
            return "first %s cut %d, second %s cut %d: raised %r" % (f, c1, s2, c2, e)
        where = "first %s cut %d, second %s cut %d" % (f, c1, s2, c2)
        if len(got1) != 1 or not isinstance(got1[0], Response):
            return "%s: first request completed as %r" % (where, got1)
        if b"".join(d for k, d in cons1.events if k == "data") != body1:
            return "%s: first body %r" % (where, cons1.events)
        if len(got2) != 1:
            return "%s: second request Deferred fired %d time(s) (expected exactly once)" % (where, len(got2))
        if not isinstance(got2[0], Response) or got2[0].code != code2:
            return "%s: second request completed as %r" % (where, got2[0])
        if b"".join(d for k, d in cons2.events if k == "data") != body2:
            return "%s: second body %r, sent %r" % (where, cons2.events, body2)
        if sum(1 for k, _ in cons2.events if k == "lost") != 1:
            return "%s: second body consumer told about the end %d time(s)" % (where, sum(1 for k, _ in cons2.events if k == "lost"))
        if t.disconnecting:
            return "%s: connection dropped although both exchanges were clean and persistent" % where
        return None


BOUNDED = [TruncatedResponses, H11Responses, RandomLarge, RequestStillTransmitting, AbortedByApplication, ReentrantNextRequest]
