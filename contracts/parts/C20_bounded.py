"""C20 (bounded tier) -- HTTP server responses are framed exactly and headers cannot be injected.

Every case is a small "response script" (status code / reason phrase, header operations, cookies, a
sequence of body writes, finish) run by the REAL twisted.web.http.Request inside the REAL HTTPChannel
(request bytes are delivered to HTTPChannel.dataReceived; the script runs in Request.process()).  The bytes
that reach the transport are then parsed by h11 acting as an HTTP/1.1 client that was told which request
method it sent, and the parse is compared with a reference model that is written from the property
statement and RFC 9110/9112/6265 only:

  * status       == the code that was set
  * headers      == the header model (case-insensitive names; set replaces, add appends; text names are
                    ISO-8859-1, text values UTF-8; each CRLF / CR / LF of a value becomes one SP; a name that
                    is not an RFC 9110 token must be refused by the setter and leave no trace), plus nothing
                    but framing headers (Transfer-Encoding: chunked, Content-Length, Connection: close)
  * Set-Cookie   == one field per addCookie call, in order, that parses (RFC 6265 5.2) to the cookie pair
                    and attribute list that were given, with CR / LF / ";" of every component replaced by SP
  * body         == concatenation of the writes, or empty for HEAD / 204 / 304
  * framing      == the response ends exactly where the parser says it ends: no byte is left over, a
                    pipelined second request on the same connection is answered by a second, well delimited
                    response, and a response that is delimited by nothing (no chunking, no Content-Length,
                    not bodiless) is followed by connection close.

Nothing is said about header order across different names, about the capitalisation of names, about
leading / trailing optional whitespace of values (a field parser strips it) or about the wording of the
default reason phrases.
"""
import itertools
import re

import h11

from pyvc.api import Bounded
from twisted.internet.testing import StringTransport
from twisted.web import http

# ----------------------------------------------------------------------------------------------------------
# vocabulary of the reference model (RFC 9110 5.6.2, 5.5; RFC 9112 4)
# ----------------------------------------------------------------------------------------------------------

TCHAR = frozenset(b"!#$%&'*+-.^_`|~0123456789abcdefghijklmnopqrstuvwxyzABCDEFGHIJKLMNOPQRSTUVWXYZ")
# Octets that an HTTP/1.1 field parser must not accept inside a field value or a reason phrase even after
# line breaks have been dealt with (h11 refuses exactly NUL and the remaining ASCII white space VT, FF; the
# RFC refuses every CTL but HTAB).  For these the property can only be met by refusing the value when it is
# set or by replacing / removing the octet; all three are accepted.
HOSTILE = frozenset(b"\x00\x0b\x0c")
_LINEBREAK = re.compile(rb"\r\n|\r|\n")
NO_BODY = (204, 304)
FRAMING_NAMES = (b"content-length", b"transfer-encoding", b"connection")
SERVER_OWNED = (b"date", b"server")


def is_token(b):
    return len(b) > 0 and all(c in TCHAR for c in b)


def ows_strip(b):
    return b.strip(b" \t")


def encode_text(x, codec):
    """bytes stay; text is encoded; None when the text has no encoding (lone surrogate, > U+00FF for latin-1)"""
    if isinstance(x, bytes):
        return x
    try:
        return x.encode(codec)
    except UnicodeEncodeError:
        return None


def sp_for_linebreaks(b):
    return _LINEBREAK.sub(b" ", b)


def value_alternatives(b, extra=b""):
    """The octet strings an exact server may emit for field-value component `b`: every line break (and
    every octet of `extra`) is one SP.  A line break at the very end may also simply be dropped.  Octets
    the parser cannot accept may have been replaced by SP or removed."""
    alts = set()
    bases = [b]
    if any(c in HOSTILE for c in b):
        bases.append(bytes(c for c in b if c not in HOSTILE))  # removed before the line breaks are looked at
    for base in list(bases):
        m = re.search(rb"(\r\n|\r|\n)\Z", base)
        if m:
            bases.append(base[:m.start()])
    for base in bases:
        s = sp_for_linebreaks(base)
        for ch in extra:
            s = s.replace(bytes([ch]), b" ")
        alts.add(s)
        if any(c in HOSTILE for c in s):
            alts.add(bytes(32 if c in HOSTILE else c for c in s))
            alts.add(bytes(c for c in s if c not in HOSTILE))
    return alts


def is_hostile(b):
    return b is not None and any(c in HOSTILE for c in sp_for_linebreaks(b))


def clean_reason(b):
    """reason-phrase = *( HTAB / SP / VCHAR / obs-text )"""
    return all(c == 9 or c == 32 or 0x21 <= c <= 0x7E or c >= 0x80 for c in b)


# ----------------------------------------------------------------------------------------------------------
# running a script on the real server classes
# ----------------------------------------------------------------------------------------------------------

COOKIE_KW = {"Expires": "expires", "Domain": "domain", "Path": "path", "Max-Age": "max_age", "Comment": "comment",
             "Secure": "secure", "HttpOnly": "httpOnly", "SameSite": "sameSite"}
SECOND_BODY = b"SECOND-RESPONSE"
FLAG = object()  # a cookie attribute without a value (Secure, HttpOnly)


class _ScriptedRequest(http.Request):
    def process(self):
        if self.path == b"/second":
            self.setHeader(b"content-length", b"%d" % len(SECOND_BODY))
            self.write(SECOND_BODY)
            self.finish()
            return
        script = self.channel._c20_script
        log = self.channel._c20_log
        for i, op in enumerate(script):
            try:
                kind = op[0]
                if kind == "code":
                    if op[2] is None:
                        self.setResponseCode(op[1])
                    else:
                        self.setResponseCode(op[1], op[2])
                elif kind == "set":
                    self.setHeader(op[1], op[2])
                elif kind == "add":
                    self.responseHeaders.addRawHeader(op[1], op[2])
                elif kind == "raw":
                    self.responseHeaders.setRawHeaders(op[1], list(op[2]))
                elif kind == "cookie":
                    self.addCookie(op[1], op[2], **{COOKIE_KW[a]: v for a, v in op[3]})
                elif kind == "write":
                    self.write(op[1])
                elif kind == "finish":
                    self.finish()
            except Exception as e:  # the reference decides whether a refusal was legitimate
                log.append((i, type(e).__name__))


def run_script(version, method, script, pipeline):
    """-> (bytes written to the transport, connection closed by the server?, [(op index, exception name)])"""
    ch = http.HTTPChannel()
    ch.timeOut = None
    ch.requestFactory = _ScriptedRequest
    ch._c20_script = script
    ch._c20_log = []
    tr = StringTransport()
    ch.makeConnection(tr)
    data = method + b" / " + version + b"\r\nHost: x\r\n\r\n"
    if pipeline:
        data += b"GET /second " + version + b"\r\nHost: x\r\n\r\n"
    ch.dataReceived(data)
    return tr.value(), bool(tr.disconnecting), ch._c20_log


# ----------------------------------------------------------------------------------------------------------
# the independent parser
# ----------------------------------------------------------------------------------------------------------

def parse_with_h11(wire, closed, method, pipeline):
    """-> (list of responses, leftover) or a string describing why the octets are not HTTP/1.1.
    A response is a dict(status, reason, version, headers=[(lower name, value)], body, complete)."""
    conn = h11.Connection(h11.CLIENT, max_incomplete_event_size=1 << 20)
    out = []
    try:
        conn.send(h11.Request(method=method, target=b"/", headers=[(b"Host", b"x")]))
        conn.send(h11.EndOfMessage())
        conn.receive_data(wire)
        if closed:
            conn.receive_data(b"")
        cur = None
        sent_second = False
        while True:
            ev = conn.next_event()
            if ev is h11.NEED_DATA:
                break
            if ev is h11.PAUSED:
                if pipeline and not sent_second and conn.our_state is h11.DONE and conn.their_state is h11.DONE:
                    conn.start_next_cycle()
                    conn.send(h11.Request(method=b"GET", target=b"/second", headers=[(b"Host", b"x")]))
                    conn.send(h11.EndOfMessage())
                    sent_second = True
                    continue
                break
            if isinstance(ev, h11.ConnectionClosed):
                break
            if isinstance(ev, (h11.Response, h11.InformationalResponse)):
                cur = dict(status=ev.status_code, reason=bytes(ev.reason), version=bytes(ev.http_version),
                           headers=[(bytes(n), bytes(v)) for n, v in ev.headers], body=b"", complete=False,
                           informational=isinstance(ev, h11.InformationalResponse))
                out.append(cur)
            elif isinstance(ev, h11.Data):
                cur["body"] += bytes(ev.data)
            elif isinstance(ev, h11.EndOfMessage):
                cur["complete"] = True
                if ev.headers:
                    cur["trailers"] = [(bytes(n), bytes(v)) for n, v in ev.headers]
                if pipeline and not sent_second and conn.our_state is h11.DONE and conn.their_state is h11.DONE:
                    conn.start_next_cycle()
                    conn.send(h11.Request(method=b"GET", target=b"/second", headers=[(b"Host", b"x")]))
                    conn.send(h11.EndOfMessage())
                    sent_second = True
        leftover = bytes(conn.trailing_data[0])
    except h11.ProtocolError as e:
        return "h11 cannot parse the emitted octets (%s)" % (e,)
    return out, leftover


# ----------------------------------------------------------------------------------------------------------
# RFC 6265 5.2 set-cookie-string parsing (user-agent side), used on both the emitted and the expected string
# ----------------------------------------------------------------------------------------------------------

def parse_set_cookie(s):
    parts = s.split(b";")
    first = parts[0]
    if b"=" in first:
        n, v = first.split(b"=", 1)
    else:
        n, v = b"", first
    attrs = []
    for p in parts[1:]:
        if b"=" in p:
            an, av = p.split(b"=", 1)
        else:
            an, av = p, b""
        attrs.append((ows_strip(an).lower(), ows_strip(av)))
    return ows_strip(n), ows_strip(v), sorted(attrs)


# ----------------------------------------------------------------------------------------------------------
# the reference model and the comparison
# ----------------------------------------------------------------------------------------------------------

def check_exchange(version, method, script, pipeline=False):
    """Run `script` and compare with the model.  Returns None or a description of the disagreement."""
    wire, closed, log = run_script(version, method, script, pipeline)
    refused = dict(log)

    code = 200
    reason_to_check = None
    headers = {}          # lower-case name -> list of sets of acceptable values
    cookies = []          # list of sets of acceptable parsed cookies
    writes = []
    user_cl = None
    for i, op in enumerate(script):
        kind = op[0]
        if kind == "code":
            ok_reason = op[2] is None or clean_reason(op[2])
            if i in refused:
                if ok_reason:
                    return "setResponseCode(%r, %r) refused (%s) although the reason phrase is valid" % (
                        op[1], op[2], refused[i])
                continue
            code = op[1]
            reason_to_check = op[2] if (op[2] is not None and ok_reason) else None
        elif kind in ("set", "add", "raw"):
            name = encode_text(op[1], "iso-8859-1")
            values = [op[2]] if kind != "raw" else list(op[2])
            enc = [encode_text(v, "utf-8") for v in values]
            name_ok = name is not None and is_token(name)
            if i in refused:
                if name_ok and all(e is not None and not is_hostile(e) for e in enc):
                    return "%s(%r, %r) refused (%s) although name and value are valid" % (
                        kind, op[1], op[2], refused[i])
                continue
            if not name_ok:
                return "%s(%r, ...): the name is not a token but was not refused when set" % (kind, op[1])
            if any(e is None for e in enc):
                raise Bounded.Skip()  # text that has no UTF-8 encoding was accepted: nothing to compare with
            lname = name.lower()
            if lname in FRAMING_NAMES or lname in SERVER_OWNED:
                if lname == b"content-length" and kind == "set":
                    user_cl = enc[0]
                else:
                    raise Bounded.Skip()  # framing headers belong to the server
            alts = [frozenset(ows_strip(a) for a in value_alternatives(e)) for e in enc]
            if kind == "add":
                headers.setdefault(lname, []).extend(alts)
            elif alts:
                headers[lname] = alts
            else:
                headers.pop(lname, None)  # a header given an empty list of values is not a header
        elif kind == "cookie":
            comps = [encode_text(op[1], "utf-8"), encode_text(op[2], "utf-8")]
            attrs = []
            for a, v in op[3]:
                if a in ("Secure", "HttpOnly"):
                    if v:
                        attrs.append((a, FLAG))
                elif a == "SameSite":
                    if v:
                        attrs.append((a, encode_text(v, "utf-8").lower()))
                else:
                    if v is not None:
                        attrs.append((a, encode_text(v, "utf-8")))
            allc = comps + [v for _, v in attrs if v is not FLAG]
            if i in refused:
                if all(c is not None and not is_hostile(c) for c in allc):
                    return "addCookie%r refused (%s) although every component is valid" % (op[1:], refused[i])
                continue
            if any(c is None for c in allc):
                raise Bounded.Skip()
            choices = [sorted(value_alternatives(c, b";")) for c in comps]
            for a, v in attrs:
                choices.append([None] if v is FLAG else sorted(value_alternatives(v, b";")))
            acceptable = set()
            for pick in itertools.product(*choices):
                s = pick[0] + b"=" + pick[1]
                for (a, _), pv in zip(attrs, pick[2:]):
                    s += b"; " + a.encode("ascii") + (b"" if pv is None else b"=" + pv)
                n, v, at = parse_set_cookie(s)
                acceptable.add((n, v, tuple(at)))
            cookies.append((acceptable, 1 + len(attrs)))
        elif kind == "write":
            if i in refused:
                return "write(%r) raised %s" % (op[1], refused[i])
            writes.append(op[1])
        elif kind == "finish":
            if i in refused:
                return "finish() raised %s" % (refused[i],)

    bodiless = method == b"HEAD" or code in NO_BODY
    sent = b"".join(writes)
    body = b"" if bodiless else sent
    if user_cl is not None and user_cl != b"%d" % len(sent):
        raise Bounded.Skip()  # precondition: a Content-Length given by the application is the true length

    parsed = parse_with_h11(wire, closed, method, pipeline)
    if isinstance(parsed, str):
        return "%s; wire %r" % (parsed, wire[:300])
    responses, leftover = parsed
    want = 2 if (pipeline and not closed) else 1
    if pipeline and closed and version == b"HTTP/1.1":
        return "HTTP/1.1 keep-alive request: the server closed the connection; wire %r" % (wire[:300],)
    if len(responses) != want:
        return "expected %d response(s), the parser sees %d: %r; wire %r" % (
            want, len(responses), [(r["status"], r["body"][:40]) for r in responses], wire[:300])
    r = responses[0]
    if r.get("informational"):
        return "parsed as an interim response %r" % (r["status"],)
    if not r["complete"]:
        return ("the response has no end: not chunked, no Content-Length, not bodiless and the connection stays "
                "open; wire %r" % (wire[:300],))
    if leftover:
        return "octets left over after the response: %r; wire %r" % (leftover[:80], wire[:300])
    if r["status"] != code:
        return "status %r, set %r; wire %r" % (r["status"], code, wire[:200])
    if reason_to_check is not None and ows_strip(r["reason"]) != ows_strip(reason_to_check):
        return "reason phrase %r, set %r" % (r["reason"], reason_to_check)
    if r.get("trailers"):
        return "unexpected trailer fields %r" % (r["trailers"],)

    # ---- header fields
    got = {}
    for n, v in r["headers"]:
        got.setdefault(n, []).append(v)
    te = got.pop(b"transfer-encoding", None)
    got.pop(b"connection", None)
    for so in SERVER_OWNED:
        got.pop(so, None)
    cl = got.get(b"content-length")
    if user_cl is None:
        got.pop(b"content-length", None)
    got_cookies = got.pop(b"set-cookie", []) if cookies else []
    if cookies and b"set-cookie" in headers:
        # header fields given directly and cookies are both expected on the wire
        direct = headers[b"set-cookie"]
        missing = [sorted(a) for a in direct if not any(gv in a for gv in got_cookies)]
        if missing:
            return "Set-Cookie field(s) set directly are missing: %r; emitted %r" % (missing, got_cookies)
        for a in direct:
            for k, gv in enumerate(got_cookies):
                if gv in a:
                    del got_cookies[k]
                    break
    exp = {k: v for k, v in headers.items() if not (cookies and k == b"set-cookie")}
    if sorted(got) != sorted(exp):
        return "header names %r, set %r; wire %r" % (sorted(got), sorted(exp), wire[:300])
    for n in exp:
        if len(got[n]) != len(exp[n]):
            return "header %r has values %r, set %r" % (n, got[n], [sorted(a) for a in exp[n]])
        for gv, alts in zip(got[n], exp[n]):
            if gv not in alts:
                return "header %r has value %r, expected one of %r; wire %r" % (n, gv, sorted(alts), wire[:300])
    if len(got_cookies) != len(cookies):
        return "%d Set-Cookie fields for %d cookies: %r" % (len(got_cookies), len(cookies), got_cookies)
    for gv, (acceptable, npieces) in zip(got_cookies, cookies):
        if gv.count(b";") != npieces - 1:
            return "Set-Cookie %r has %d ';'-separated pieces, %d were given" % (gv, gv.count(b";") + 1, npieces)
        n, v, at = parse_set_cookie(gv)
        if (n, v, tuple(at)) not in acceptable:
            return "Set-Cookie %r parses to %r, expected one of %r" % (gv, (n, v, at), sorted(acceptable)[:4])

    # ---- framing
    if te is not None and [x.lower() for x in te] != [b"chunked"]:
        return "Transfer-Encoding %r" % (te,)
    if te is not None and version != b"HTTP/1.1":
        return "chunked transfer coding sent to an HTTP/1.0 client"
    if te is not None and cl is not None:
        return "both Transfer-Encoding and Content-Length"
    if code == 204 and (te is not None or (cl is not None and user_cl is None)):
        return "204 response with framing headers te=%r cl=%r" % (te, cl)
    if cl is not None and not bodiless and cl != [b"%d" % len(body)]:
        return "Content-Length %r for a body of %d octets" % (cl, len(body))
    if r["body"] != body:
        return "body %r, expected %r (writes %r); wire %r" % (r["body"][:80], body[:80], writes[:6], wire[:300])
    if bodiless:
        end = wire.find(b"\r\n\r\n")
        rest = wire[end + 4:]
        if not pipeline and rest != b"":
            return "bodiless response followed by octets %r" % (rest[:80],)
    if te is None and cl is None and not bodiless and not closed:
        return "response delimited by connection close, but the connection stays open"
    if want == 2:
        s = responses[1]
        if not (s["status"] == 200 and s["complete"] and s["body"] == SECOND_BODY):
            return "the pipelined second response is damaged: %r; wire %r" % (
                (s["status"], s["complete"], s["body"][:40]), wire[:400])
    return None


def script_of(code=None, reason=None, hdr_ops=(), cookies=(), writes=(), cl=False):
    s = []
    if code is not None:
        s.append(("code", code, reason))
    s.extend(hdr_ops)
    for c in cookies:
        s.append(("cookie",) + tuple(c))
    if cl:
        s.append(("set", b"content-length", b"%d" % sum(len(w) for w in writes)))
    for w in writes:
        s.append(("write", w))
    s.append(("finish",))
    return tuple(s)


def words(alphabet, maxlen):
    """all sequences (as tuples of alphabet items) of length 0..maxlen"""
    for k in range(maxlen + 1):
        yield from itertools.product(alphabet, repeat=k)


def bjoin(t):
    return b"".join(t)


def sjoin(t):
    return "".join(t)


VERSIONS = (b"HTTP/1.1", b"HTTP/1.0")
METHODS = (b"GET", b"HEAD")

FUNCTIONS = ["Request.write", "Request.finish", "Request.setResponseCode", "Request.setHeader", "Request.addCookie",
             "HTTPChannel.writeHeaders", "HTTPChannel.requestDone", "Headers.setRawHeaders", "Headers.addRawHeader",
             "_sanitizeLinearWhitespace", "_NameEncoder.encode", "toChunk"]


def tags_of(script):
    """Input classes of a script, computed from the script alone (never from the outcome).  They are the last
    element of every case so that a known-finding region can be written as `'tag' in case[-1]`:
      reason-linebreak  the reason phrase contains CR or LF
      reason-ctl        the reason phrase contains NUL, VT or FF
      value-ctl         a header value given under a valid name contains NUL, VT or FF
      cookie-ctl        a component of a cookie contains NUL, VT or FF
      cookie+set-cookie addCookie is used and a Set-Cookie header is also given directly"""
    tags = set()
    direct = has_cookie = False
    for op in script:
        if op[0] == "code" and op[2] is not None:
            if b"\r" in op[2] or b"\n" in op[2]:
                tags.add("reason-linebreak")
            if any(c in HOSTILE for c in op[2]):
                tags.add("reason-ctl")
        elif op[0] in ("set", "add", "raw"):
            name = encode_text(op[1], "iso-8859-1")
            if name is None or not is_token(name):
                continue
            if name.lower() == b"set-cookie":
                direct = True
            vals = [encode_text(v, "utf-8") for v in (op[2] if op[0] == "raw" else (op[2],))]
            if all(v is not None for v in vals) and any(is_hostile(v) for v in vals):
                tags.add("value-ctl")
        elif op[0] == "cookie":
            has_cookie = True
            comps = [op[1], op[2]] + [v for a, v in op[3] if a not in ("Secure", "HttpOnly", "SameSite") and v is not None]
            comps = [encode_text(c, "utf-8") for c in comps]
            if all(c is not None for c in comps) and any(is_hostile(c) for c in comps):
                tags.add("cookie-ctl")
    if direct and has_cookie:
        tags.add("cookie+set-cookie")
    return tuple(sorted(tags))


# ----------------------------------------------------------------------------------------------------------
# the bounded contracts
# ----------------------------------------------------------------------------------------------------------

class _C20(Bounded):
    """Subclasses enumerate raw cases and turn a raw case into (version, method, script, pipeline?).  The case
    handed to the engine is the raw case plus the input tags of its script."""
    prop = "C20"
    functions = FUNCTIONS

    def raw_cases(self, tier, rng):
        raise NotImplementedError

    def plan(self, raw):
        raise NotImplementedError

    def cases(self, tier, rng):
        for raw in self.raw_cases(tier, rng):
            yield raw + (tags_of(self.plan(raw)[2]),)

    def check(self, case):
        ver, meth, script, pipeline = self.plan(case[:-1])
        return check_exchange(ver, meth, script, pipeline)


class HeaderFields(_C20):
    prop = "C20"
    title = ("one header set through setHeader / addRawHeader / setRawHeaders, then a sentinel header and a body: "
             "h11's parse of the emitted bytes against the header model")
    scope = ("names: all byte strings of length <= 2 over {a Z - ! : = ( SP HT CR LF NUL DEL 0xE9} and all text of "
             "length <= 2 over {a - : SP CR LF NUL U+E9 U+100 U+212A U+D800}; values: all byte strings of length "
             "<= 3 (thorough 4) over {a SP HT CR LF : NUL VT FF DEL 0x85 0xE9 0xFF} and all text of length <= 3 over "
             "{a SP CR LF FS NEL U+2028 U+E9 U+1F600 U+D800 NUL}; three setter APIs; two-value setRawHeaders over "
             "values of length <= 1; every sequence of 1..3 operations from {setHeader, addRawHeader, setRawHeaders "
             "with two values, setRawHeaders with no value} x names {b'x-h', 'X-H', b'x-g'}; GET on HTTP/1.1 (names "
             "also HEAD on HTTP/1.0); exhaustive")
    functions = FUNCTIONS

    NAME_B = (b"a", b"Z", b"-", b"!", b":", b"=", b"(", b" ", b"\t", b"\r", b"\n", b"\x00", b"\x7f", b"\xe9")
    NAME_T = ("a", "-", ":", " ", "\r", "\n", "\x00", "\xe9", chr(0x100), chr(0x212A), chr(0xD800))
    VAL_B = (b"a", b" ", b"\t", b"\r", b"\n", b":", b"\x00", b"\x0b", b"\x0c", b"\x7f", b"\x85", b"\xe9", b"\xff")
    VAL_T = ("a", " ", "\r", "\n", "\x1c", "\x85", chr(0x2028), "\xe9", chr(0x1F600), chr(0xD800), "\x00")

    def raw_cases(self, tier, rng):
        for api in ("set", "add", "raw"):
            for nm in itertools.chain(map(bjoin, words(self.NAME_B, 2)), map(sjoin, words(self.NAME_T, 2))):
                for ver, meth in ((b"HTTP/1.1", b"GET"), (b"HTTP/1.0", b"HEAD")):
                    yield (ver, meth, api, nm, b"v")
        nb = 3 if tier == "quick" else 4
        for api in ("set", "add", "raw"):
            for v in itertools.chain(map(bjoin, words(self.VAL_B, nb)), map(sjoin, words(self.VAL_T, 3))):
                yield (b"HTTP/1.1", b"GET", api, b"x-h" if api != "add" else "X-h", v)
        for v1 in itertools.chain(map(bjoin, words(self.VAL_B, 1)), map(sjoin, words(self.VAL_T, 1))):
            for v2 in itertools.chain(map(bjoin, words(self.VAL_B, 1)), map(sjoin, words(self.VAL_T, 1))):
                yield (b"HTTP/1.1", b"GET", "raw2", b"x-h", (v1, v2))
        # replace / append semantics across spellings of one name
        opchoices = [(api, nm) for api in ("set", "add", "raw", "raw0") for nm in (b"x-h", "X-H", b"x-g")]
        for k in (1, 2, 3):
            for seq in itertools.product(opchoices, repeat=k):
                yield (b"HTTP/1.1", b"GET", "seq", seq, b"")

    def nontrivial(self, case):
        return len(case[3]) > 0 and (case[2] == "seq" or len(case[4]) > 0)

    def plan(self, raw):
        ver, meth, api, nm, v = raw
        if api == "seq":
            ops = []
            for j, (a, n) in enumerate(nm):
                val = (b"v%d" % j) if j % 2 else ("w%d\r\n" % j)
                ops.append(("raw", n, ()) if a == "raw0" else ("raw", n, (val, b"second")) if a == "raw"
                           else (a, n, val))
            return ver, meth, script_of(hdr_ops=tuple(ops), writes=(b"body",)), False
        if api == "raw2":
            op = ("raw", nm, v)
        elif api == "raw":
            op = ("raw", nm, (v,))
        else:
            op = (api, nm, v)
        script = script_of(hdr_ops=(("set", b"x-before", b"0"), op, ("add", b"x-after", b"1")), writes=(b"body",))
        return ver, meth, script, False


class Cookies(_C20):
    title = ("addCookie with adversarial names, values and attributes: the Set-Cookie fields h11 sees, parsed per "
             "RFC 6265, against the cookies given; no other header appears or disappears")
    scope = ("cookie name and value: all pairs of byte strings of length <= 2 over {a ; = CR LF SP NUL 0xE9} "
             "(thorough: plus {, \"}), and of text of length <= 1 over {a ; CR LF U+E9 U+2028 U+D800}; each of "
             "Expires/Domain/Path/Max-Age/Comment alone with every byte string of length <= 3 over {a ; = CR LF SP}; "
             "all combinations of secure, httpOnly, sameSite in {None, lax, Strict, b'STRICT'}; two cookies; a "
             "cookie together with a directly set Set-Cookie header; exhaustive")
    def raw_cases(self, tier, rng):
        alpha = (b"a", b";", b"=", b"\r", b"\n", b" ", b"\x00", b"\xe9")
        if tier != "quick":
            alpha += (b",", b'"')
        ws = [bjoin(t) for t in words(alpha, 2)]
        for k in ws:
            for v in ws:
                yield ("kv", k, v, ())
        ts = [sjoin(t) for t in words(("a", ";", "\r", "\n", "\xe9", chr(0x2028), chr(0xD800)), 1)]
        for k in ts:
            for v in ts:
                yield ("kv", k, v, ())
        for a in ("Expires", "Domain", "Path", "Max-Age", "Comment"):
            for t in words((b"a", b";", b"=", b"\r", b"\n", b" "), 3):
                yield ("kv", b"k", b"v", ((a, bjoin(t)),))
            for t in words(("a", ";", "\r\n", "\xe9"), 2):
                yield ("kv", "k", "v", ((a, sjoin(t)),))
        for sec in (None, True):
            for ho in (False, True):
                for ss in (None, "lax", "Strict", b"STRICT"):
                    for path in (None, b"/;\r\nSet-Cookie: evil=1"):
                        yield ("kv", b"k\r\n", b"v;", (("Path", path), ("Secure", sec), ("HttpOnly", ho),
                                                      ("SameSite", ss)))
        for k in (b"a", b"a\r\nX-Evil: 1", b"a;b"):
            for v in (b"1", b"1\r\n\r\nHTTP/1.1 200 OK\r\n\r\n", chr(0x20AC) + ";"):
                yield ("two", k, v, ())
                yield ("direct", k, v, ())

    def plan(self, raw):
        mode, k, v, attrs = raw
        cookies = [(k, v, attrs)]
        ops = [("set", b"x-before", b"0")]
        if mode == "two":
            cookies.append((b"second", b"2", (("Path", b"/"),)))
        if mode == "direct":
            ops.append(("add", b"set-cookie", b"direct=1"))
        script = script_of(hdr_ops=tuple(ops), cookies=cookies, writes=(b"body",))
        return b"HTTP/1.1", b"GET", script, False


class StatusLine(_C20):
    title = ("setResponseCode with every short reason phrase: h11 sees one response with that status, the headers "
             "set and the body, or the phrase is refused when set")
    scope = ("reason phrases: all byte strings of length <= 3 (thorough 4) over {O SP HT CR LF : NUL VT DEL 0xE9 "
             "0xFF} with code 200 on HTTP/1.1 GET, followed by a sentinel header; codes {200 201 204 299 304 404 "
             "500 599 999} x {default phrase, b'', b'Fine', b'two words', CRLF-injection phrase} x HTTP/1.0, 1.1 "
             "x GET, HEAD; exhaustive")
    ALPHA = (b"O", b" ", b"\t", b"\r", b"\n", b":", b"\x00", b"\x0b", b"\x7f", b"\xe9", b"\xff")

    def raw_cases(self, tier, rng):
        for code in (200, 201, 204, 299, 304, 404, 500, 599, 999):
            for reason in (None, b"", b"Fine", b"two words", b"OK\r\nX-Evil: 1", b"OK\r\n\r\nHTTP/1.1 200 OK\r\n\r\n"):
                for ver in VERSIONS:
                    for meth in METHODS:
                        yield (ver, meth, code, reason)
        n = 3 if tier == "quick" else 4
        for t in words(self.ALPHA, n):
            yield (b"HTTP/1.1", b"GET", 200, bjoin(t))

    def nontrivial(self, case):
        return bool(case[3])

    def plan(self, raw):
        ver, meth, code, reason = raw
        script = script_of(code=code, reason=reason, hdr_ops=(("set", b"x-after", b"1"),), writes=(b"bo", b"dy"))
        return ver, meth, script, ver == b"HTTP/1.1"


class Framing(_C20):
    title = ("every short sequence of writes then finish: h11's body against the concatenation of the writes, "
             "bodiless for HEAD/204/304, delimitation checked by a pipelined second request or connection close")
    scope = ("write sequences of length 0..3 (thorough 4) over {b'', a, CRLF, '0 CRLF CRLF', 'HTTP/1.1 200 OK CRLF "
             "CRLF', 17 octets}; codes {200 204 304 404}; HTTP/1.0 and 1.1; GET and HEAD; with and without an "
             "application-supplied correct Content-Length; on HTTP/1.1 a second request is pipelined behind the "
             "first; exhaustive")
    CHUNKS = (b"", b"a", b"\r\n", b"0\r\n\r\n", b"HTTP/1.1 200 OK\r\n\r\n", b"0123456789abcdefg")

    def raw_cases(self, tier, rng):
        n = 3 if tier == "quick" else 4
        for ver in VERSIONS:
            for meth in METHODS:
                for code in (200, 204, 304, 404):
                    for cl in (False, True):
                        if cl and code == 204:
                            continue  # RFC 9110 8.6: an application must not give a 204 a Content-Length
                        for ws in words(self.CHUNKS, n):
                            yield (ver, meth, code, cl, ws)

    def nontrivial(self, case):
        return any(case[4])

    def plan(self, raw):
        ver, meth, code, cl, ws = raw
        return ver, meth, script_of(code=code, writes=ws, cl=cl), ver == b"HTTP/1.1"


class RandomResponses(_C20):
    title = ("seeded random whole responses (code, reason, several headers through all setter APIs, cookies with "
             "attributes, writes): h11's parse against the model")
    scope = ("quick 2500 / thorough 40000 random scripts: 0..4 header operations with names from a pool of valid "
             "(case variants, repeated) and random names, values of 0..12 random octets 0..255 or random code points "
             "(biased towards CR, LF, NUL, ':', ';', SP and non-ASCII); 0..2 cookies with random attributes; random "
             "reason phrase; 0..4 writes of 0..40 random octets; both versions and methods; codes 200..999; in two "
             "thirds of the scripts NUL/VT/FF are removed from values and the reason phrase is RFC-valid; random "
             "sampling, not exhaustive")
    functions = FUNCTIONS

    HOT_B = (b"\r", b"\n", b"\r\n", b"\x00", b":", b";", b" ", b"\t", b"=", b"\x0b", b"\x0c", b"\x85", b"\xff", b"a", b"Z")
    HOT_T = ("\r", "\n", "\r\n", "\x00", ":", ";", " ", "=", "\x85", chr(0x2028), "\xe9", chr(0x100), chr(0x1F600), "a")

    def _bytes(self, rng, n, clean=False):
        out = []
        for _ in range(rng.randint(0, n)):
            if clean:
                out.append(bytes([rng.choice((rng.randint(0x21, 0x7E), 0x20, rng.randint(0x80, 0xFF)))]))
            elif rng.random() < 0.4:
                out.append(rng.choice(self.HOT_B))
            else:
                out.append(bytes([rng.randint(0, 255)]))
        return b"".join(out)

    def _text(self, rng, n):
        out = []
        for _ in range(rng.randint(0, n)):
            if rng.random() < 0.4:
                out.append(rng.choice(self.HOT_T))
            else:
                cp = rng.choice((rng.randint(0, 0x7F), rng.randint(0x80, 0x7FF), rng.randint(0x800, 0xFFFF),
                                 rng.randint(0x10000, 0x10FFFF)))
                out.append(chr(cp))
        return "".join(out)

    _tame = False

    def _value(self, rng, n=12):
        v = self._bytes(rng, n) if rng.random() < 0.5 else self._text(rng, n)
        if self._tame:  # keep CR and LF, drop the octets no field parser accepts (NUL, VT, FF)
            for h in HOSTILE:
                v = v.replace(bytes([h]), b"") if isinstance(v, bytes) else v.replace(chr(h), "")
        return v

    def _name(self, rng):
        r = rng.random()
        if r < 0.6:
            nm = rng.choice((b"x-a", b"X-A", b"x-b", b"etag", b"ETag", b"www-authenticate", b"x_1.2~", b"a"))
            return nm if rng.random() < 0.5 else nm.decode("ascii")
        if r < 0.8:
            return bytes(rng.choice(sorted(TCHAR)) for _ in range(rng.randint(1, 6)))
        return self._value(rng, 4)

    def raw_cases(self, tier, rng):
        n = 2500 if tier == "quick" else 40000
        for _ in range(n):
            ver = rng.choice(VERSIONS)
            meth = rng.choice(METHODS)
            code = rng.choice((200, 204, 304, 404, rng.randint(200, 999)))
            # two thirds of the scripts stay away from the octets that fail for the already known reasons
            # (NUL / VT / FF in values, anything but HTAB SP VCHAR obs-text in the reason phrase), so that
            # the rest of the model is exercised as well
            self._tame = rng.random() < 0.67
            r = rng.random()
            reason = None if r < 0.3 else (self._bytes(rng, 10, clean=True) if (r < 0.7 or self._tame)
                                           else self._bytes(rng, 10))
            ops = []
            for _ in range(rng.randint(0, 4)):
                api = rng.choice(("set", "add", "raw"))
                if api == "raw":
                    ops.append((api, self._name(rng), tuple(self._value(rng) for _ in range(rng.randint(0, 3)))))
                else:
                    ops.append((api, self._name(rng), self._value(rng)))
            cookies = []
            for _ in range(rng.choice((0, 0, 1, 2))):
                attrs = []
                for a in ("Expires", "Domain", "Path", "Max-Age", "Comment"):
                    if rng.random() < 0.3:
                        attrs.append((a, self._value(rng, 6)))
                attrs.append(("Secure", rng.choice((None, True))))
                attrs.append(("HttpOnly", rng.choice((False, True))))
                attrs.append(("SameSite", rng.choice((None, None, "lax", b"Strict"))))
                cookies.append((self._value(rng, 6), self._value(rng, 6), tuple(attrs)))
            writes = tuple(self._bytes(rng, 40) for _ in range(rng.randint(0, 4)))
            cl = rng.random() < 0.3 and code != 204
            yield (ver, meth, script_of(code=code, reason=reason, hdr_ops=tuple(ops), cookies=tuple(cookies),
                                        writes=writes, cl=cl))

    def plan(self, raw):
        ver, meth, script = raw
        return ver, meth, script, ver == b"HTTP/1.1"


BOUNDED = [HeaderFields, Cookies, StatusLine, Framing, RandomResponses]
