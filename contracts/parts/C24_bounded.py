"""C24 bounded-exhaustive checks: what the HTTP/1.1 client writes is exactly the
intended request, as judged by an independent parser (h11); invalid methods and
targets are refused before a single byte is written.

The oracle never looks at twisted's own parsing/validation code:
  * the wire bytes are parsed with h11 (server role);
  * "valid method" is RFC 9110 5.6.2 token = 1*tchar, written here as VCHAR
    minus the delimiter set;
  * "certainly valid target byte" is the RFC 3986 URI alphabet (minus '#',
    which never belongs in a request-target); "certainly invalid" is anything
    outside VCHAR (CTL, SP, DEL, non-ASCII).  Bytes in between (such as '"' or
    '<') may be refused or sent, but if sent they must round-trip;
  * origin-form of a URL is RFC 9112 3.2.1: absolute-path ["?" query], "/" for
    an empty path, fragment never sent.
"""
import io
import itertools

import h11
from zope.interface import implementer

from pyvc.api import Bounded

from twisted.internet.defer import Deferred, succeed
from twisted.internet.task import Clock, Cooperator
from twisted.internet.testing import StringTransport
from twisted.web.client import Agent, FileBodyProducer, ProxyAgent
from twisted.web.http_headers import Headers
from twisted.web.iweb import UNKNOWN_LENGTH, IBodyProducer
from twisted.web._newclient import HTTP11ClientProtocol, Request


# --------------------------------------------------------------------------
# independent specification pieces

_DELIMITERS = b'"(),/:;<=>?@[\\]{}'
_TCHAR = frozenset(c for c in range(0x21, 0x7F) if c not in _DELIMITERS)
_VCHAR = frozenset(range(0x21, 0x7F))
_URI_SURE = frozenset(
    b"ABCDEFGHIJKLMNOPQRSTUVWXYZabcdefghijklmnopqrstuvwxyz0123456789"
    b"-._~:/?[]@!$&'()*+,;=%"
)
_FRAMING = (b"connection", b"content-length", b"transfer-encoding")
_OWS = b" \t"


def spec_method_valid(m):
    return len(m) > 0 and all(c in _TCHAR for c in m)


def spec_target_class(t):
    """'valid' / 'invalid' / 'either' (see module docstring)."""
    if any(c not in _VCHAR for c in t):
        return "invalid"
    if len(t) > 0 and all(c in _URI_SURE for c in t):
        return "valid"
    return "either"


def spec_origin_form(url):
    """RFC 9112 3.2.1 origin-form of an http(s) URL given as bytes."""
    rest = url.split(b"://", 1)[1]
    cut = len(rest)
    for d in b"/?#":
        i = rest.find(bytes([d]))
        if i != -1:
            cut = min(cut, i)
    tail = rest[cut:]
    h = tail.find(b"#")
    if h != -1:
        tail = tail[:h]
    q = tail.find(b"?")
    path, query = (tail, None) if q == -1 else (tail[:q], tail[q + 1:])
    if path == b"":
        path = b"/"
    return path if query is None else path + b"?" + query


def parse_wire(data):
    """Parse with h11 as a server would.  Returns a dict or an error string."""
    conn = h11.Connection(h11.SERVER, max_incomplete_event_size=1 << 22)
    conn.receive_data(data)
    req = None
    body = bytearray()
    while True:
        try:
            ev = conn.next_event()
        except h11.RemoteProtocolError as e:
            return "h11 rejects the bytes: %s" % (e,)
        if ev is h11.NEED_DATA:
            return "incomplete message (h11 wants more data; got request line/headers: %s, %d body bytes)" % (
                req is not None, len(body))
        if isinstance(ev, h11.Request):
            req = ev
        elif isinstance(ev, h11.Data):
            body += ev.data
        elif isinstance(ev, h11.EndOfMessage):
            if len(ev.headers):
                return "unexpected trailers %r" % (list(ev.headers),)
            break
        else:
            return "unexpected h11 event %r" % (ev,)
    trailing = bytes(conn.trailing_data[0])
    return {
        "method": bytes(req.method),
        "target": bytes(req.target),
        "version": bytes(req.http_version),
        "headers": [(bytes(n), bytes(v)) for n, v in req.headers],
        "body": bytes(body),
        "trailing": trailing,
    }


def compare_message(wire, method, target, user_headers, body):
    """None if `wire` is exactly one request with these parts, else a string.

    user_headers: list of (name, [values]) as given to Headers."""
    p = parse_wire(wire)
    if isinstance(p, str):
        return "%s; wire=%r" % (p, wire[:300])
    if p["trailing"]:
        return "bytes after the end of the message: %r; wire=%r" % (p["trailing"][:80], wire[:300])
    if p["version"] != b"1.1":
        return "version %r" % (p["version"],)
    if p["method"] != method:
        return "method on the wire %r, intended %r" % (p["method"], method)
    if p["target"] != target:
        return "target on the wire %r, intended %r" % (p["target"], target)
    if p["body"] != body:
        return "body on the wire %r (%d bytes), intended %r (%d bytes); wire=%r" % (
            p["body"][:60], len(p["body"]), body[:60], len(body), wire[:300])
    want = {}
    for name, values in user_headers:
        want.setdefault(name.lower(), []).extend(v.strip(_OWS) for v in values)
    got = {}
    for n, v in p["headers"]:
        got.setdefault(n.lower(), []).append(v.strip(_OWS))
    for n, vs in got.items():
        if n in _FRAMING:
            continue
        if n not in want:
            return "header %r on the wire was never given" % (n,)
    for n, vs in want.items():
        g = got.get(n, [])
        if n in _FRAMING:
            # the client may add its own values; the user's must be there, in order
            it = iter(g)
            if not all(any(x == v for x in it) for v in vs):
                return "header %r: wire values %r do not contain the given %r" % (n, g, vs)
        elif g != vs:
            return "header %r: wire values %r, given %r" % (n, g, vs)
    return None


# --------------------------------------------------------------------------
# body producers

@implementer(IBodyProducer)
class ScriptedProducer:
    """Writes chunks[:k] inside startProducing; the rest (and the completion)
    when the harness calls drive().  k == len(chunks) and finish_sync gives a
    fully synchronous producer."""

    def __init__(self, length, chunks, k, finish_sync):
        self.length = length
        self.chunks = chunks
        self.k = k
        self.finish_sync = finish_sync and k == len(chunks)
        self.d = None
        self.stopped = False

    def startProducing(self, consumer):
        self.consumer = consumer
        for c in self.chunks[: self.k]:
            consumer.write(c)
        if self.finish_sync:
            return succeed(None)
        self.d = Deferred()
        return self.d

    def drive(self):
        if self.d is None:
            return
        for c in self.chunks[self.k:]:
            self.consumer.write(c)
        d, self.d = self.d, None
        d.callback(None)

    def stopProducing(self):
        self.stopped = True

    def pauseProducing(self):
        pass

    def resumeProducing(self):
        pass


class _Call:
    def cancel(self):
        pass


class FileProducerRig:
    """twisted.web.client.FileBodyProducer over BytesIO with a hand-cranked
    Cooperator: one read per tick (async) or all reads in the first tick."""

    def __init__(self, data, read_size, one_per_tick):
        self.pending = []

        def sched(f):
            self.pending.append(f)
            return _Call()

        coop = Cooperator(terminationPredicateFactory=lambda: (lambda: one_per_tick), scheduler=sched)
        self.producer = FileBodyProducer(io.BytesIO(data), cooperator=coop, readSize=read_size)

    def drive(self):
        n = 0
        while self.pending:
            n += 1
            if n > 100000:
                raise RuntimeError("cooperator never finished")
            self.pending.pop(0)()


def make_body(spec):
    """spec -> (bodyProducer or None, driver or None, intended body bytes)."""
    if spec is None:
        return None, None, b""
    kind = spec[0]
    if kind == "scripted":
        _, known, chunks, k, finish_sync = spec
        data = b"".join(chunks)
        p = ScriptedProducer(len(data) if known else UNKNOWN_LENGTH, list(chunks), k, finish_sync)
        return p, p, data
    if kind == "file":
        _, data, read_size, one_per_tick = spec
        rig = FileProducerRig(data, read_size, one_per_tick)
        return rig.producer, rig, data
    raise ValueError(spec)


# --------------------------------------------------------------------------
# running the real client

class Outcome:
    __slots__ = ("refused", "why", "wire", "result", "aborted")


def _watch(d, box):
    def ok(r):
        box.append(("ok", r))

    def err(f):
        box.append(("err", f))

    d.addCallbacks(ok, err)


def run_request(via, method, target, user_headers, persistent, body_spec, mutate=None):
    """Drive the real code.  via: 'writeTo' (Request.writeTo on a transport) or
    'protocol' (HTTP11ClientProtocol.request).  mutate: None or pairs
    ('method'|'uri', value) assigned to the Request after construction."""
    out = Outcome()
    out.refused = False
    out.why = None
    out.aborted = False
    out.result = None
    t = StringTransport()
    producer, driver, _ = make_body(body_spec)
    box = []
    try:
        hdrs = Headers()
        for n, vs in user_headers:
            for v in vs:
                hdrs.addRawHeader(n, v)
        req = Request(method, target, hdrs, producer, persistent=persistent)
        for attr, value in mutate or ():
            setattr(req, attr, value)
        if via == "writeTo":
            d = req.writeTo(t)
            _watch(d, box)
        else:
            proto = HTTP11ClientProtocol()
            proto.makeConnection(t)
            d = proto.request(req)
            # the response Deferred fires only on failure here (no response is fed)
            _watch(d, box)
        if driver is not None:
            driver.drive()
    except Exception as e:  # refusal by exception
        out.refused = True
        out.why = repr(e)
    if box and box[0][0] == "err":
        out.refused = True
        out.why = repr(box[0][1].value)
        reasons = getattr(box[0][1].value, "reasons", None)
        if reasons:
            out.why += " <- %r" % ([getattr(r, "value", r) for r in reasons],)
    out.result = box[0] if box else None
    out.wire = t.value()
    out.aborted = bool(t.disconnecting) or bool(getattr(t, "disconnected", False))
    return out


# --------------------------------------------------------------------------
# 1. refusal of invalid methods / targets

_BODY_A = ("scripted", True, (b"ab",), 1, True)
_BODY_U = ("scripted", False, (b"ab",), 1, True)
_HOST = ((b"Host", (b"h",)),)


class RefuseInvalidStartLine(Bounded):
    prop = "C24"
    title = ("method/target with an invalid byte: refused with zero bytes written; otherwise the wire parses (h11) "
             "to exactly that method and target")
    scope = ("method = 'GET' and target = '/a' with each of the 256 byte values inserted at start/middle/end, every "
             "1-byte string, every string of <= 2 (thorough 3) bytes over {A SP CR LF HT NUL : / DEL 0x80 ! ~ \" #}; "
             "given to Request() or assigned to .method/.uri afterwards; bodies none/known/chunked; via "
             "Request.writeTo and HTTP11ClientProtocol.request; a few (method, target) pairs both bad")
    functions = ["Request.__init__", "Request.writeTo", "Request._writeHeaders", "_ensureValidMethod",
                 "_ensureValidURI", "HTTP11ClientProtocol.request"]

    ALPHA = b"A \r\n\t\x00:/\x7f\x80!~\"#"

    def _strings(self, base, tier):
        seen = set()
        out = []

        def add(s):
            if s not in seen:
                seen.add(s)
                out.append(s)

        for b in range(256):
            c = bytes([b])
            add(c)
            for pos in (0, 1, len(base)):
                add(base[:pos] + c + base[pos:])
        for k in range(0, (3 if tier == "quick" else 4)):
            for tup in itertools.product(self.ALPHA, repeat=k):
                add(bytes(tup))
        return out

    def cases(self, tier, rng):
        modes = [("ctor", "writeTo", None), ("ctor", "protocol", None), ("attr", "writeTo", None),
                 ("attr", "writeTo", _BODY_A), ("attr", "writeTo", _BODY_U), ("attr", "protocol", _BODY_U),
                 ("ctor", "writeTo", _BODY_U)]
        for m in self._strings(b"GET", tier):
            for how, via, body in modes:
                yield ("method", m, b"/a", how, via, body)
        for u in self._strings(b"/a", tier):
            for how, via, body in modes:
                yield ("target", b"GET", u, how, via, body)
        bad_m = [b"G ET", b"GET\r\n", b"", b"G\x00", b"G:T"]
        bad_u = [b"/a b", b"/\r\nX: y", b"", b"/\x7f", b"/\xe9"]
        for m in bad_m:
            for u in bad_u:
                for how, via, body in modes[:4]:
                    yield ("both", m, u, how, via, body)
        if tier != "quick":
            for _ in range(20000):
                n = rng.randrange(1, 9)
                s = bytes(rng.choice((rng.randrange(256), rng.choice(b"GETa/?%-._~"))) for _ in range(n))
                how, via, body = rng.choice(modes)
                if rng.random() < 0.5:
                    yield ("method", s, b"/a", how, via, body)
                else:
                    yield ("target", b"GET", s, how, via, body)

    def nontrivial(self, case):
        return not (spec_method_valid(case[1]) and spec_target_class(case[2]) == "valid")

    def check(self, case):
        _, method, target, how, via, body = case
        if how == "ctor":
            o = run_request(via, method, target, _HOST, True, body)
        else:
            # build a harmless request, then assign the values under test
            o = run_request(via, b"GET", b"/a", _HOST, True, body, mutate=(("method", method), ("uri", target)))
        m_bad = any(c not in _TCHAR for c in method)  # contains an invalid character
        t_cls = spec_target_class(target)
        if o.refused:
            if o.wire != b"":
                return "refused (%s) but %r was already written" % (o.why, o.wire[:120])
            if spec_method_valid(method) and t_cls == "valid":
                return "valid method %r / target %r refused: %s" % (method, target, o.why)
            return None
        if m_bad or t_cls == "invalid":
            return "invalid %s accepted: method %r target %r, wire %r" % (
                "method" if m_bad else "target", method, target, o.wire[:120])
        # accepted (this includes the empty method/target, which contain no invalid byte): must round-trip
        return compare_message(o.wire, method, target, list(_HOST), make_body(body)[2])


# --------------------------------------------------------------------------
# 2. start line + headers + framing round trip

_METHODS = [b"GET", b"POST", b"PUT", b"HEAD", b"DELETE", b"OPTIONS", b"get", b"M-SEARCH", b"!#$%&'*+-.^_`|~", b"0"]
_TARGETS = [b"/", b"/a/b?c=d&e=%20", b"*", b"h:443", b"http://h:8080/p?q", b"/~user/;p=1/@:!$&'()*+,=[]",
            b"/" + b"x" * 300]
_HEADER_SETS = [
    ((b"Host", (b"h",)),),
    ((b"host", (b"example.com:8080",)), (b"X-A", (b"1",))),
    ((b"Host", (b"h",)), (b"X-Multi", (b"a", b"b", b"a"))),
    ((b"Host", (b"h",)), (b"X-Empty", (b"",))),
    ((b"Host", (b"h",)), (b"X-Sp", (b"a b\tc  d",)), (b"x-sp2", (b"a, b;q=0.5 : x",))),
    ((b"Host", (b"h",)), (b"X-Obs", (b"caf\xe9 \x80\xff",))),
    ((b"Host", (b"h",)), (b"x-case", (b"1",)), (b"X-CASE", (b"2",))),
    ((b"Host", (b"h",)), (b"!#$%&'*+-.^_`|~", (b"v",)), (b"0", (b"0",))),
    ((b"Host", (b"h",)), (b"Connection", (b"TE",)), (b"TE", (b"trailers",))),
    ((b"Host", (b"h",)), (b"X-Long", (b"v" * 3000,)), (b"Accept", (b"*/*",)), (b"Content-Type", (b"a/b",))),
    ((b"X-Before", (b"1",)), (b"Host", (b"[::1]:80",)), (b"X-Colon", (b":",)), (b"X-Num", (b"0", b"00"))),
]
_BODIES_SMALL = [
    None,
    ("scripted", True, (b"ab",), 1, True),
    ("scripted", False, (b"ab",), 1, True),
    ("scripted", True, (b"a", b"b"), 1, False),
    ("scripted", False, (b"a", b"b"), 1, False),
    ("scripted", True, (), 0, True),
    ("scripted", False, (), 0, True),
]


class StartLineHeadersRoundTrip(Bounded):
    prop = "C24"
    title = ("bytes written for (method, target, headers, body) parse with h11 as one HTTP/1.1 request with exactly "
             "those parts and no bytes left over")
    scope = ("full product of 10 method tokens (all tchar punctuation, lower case, PUT/POST/HEAD) x 7 targets "
             "(origin/asterisk/authority/absolute forms, every sub-delim, 300 bytes) x 11 header sets (multi-valued, "
             "empty value, inner SP/HT, obs-text, case-colliding names, all-punctuation name, user Connection, 3000-byte "
             "value, Host not first) x persistent/non-persistent x 7 bodies (none; empty/2-byte known and unknown "
             "length, sync and async) x via Request.writeTo / HTTP11ClientProtocol.request; user header sets never "
             "contain Content-Length or Transfer-Encoding")
    functions = ["Request.writeTo", "Request._writeHeaders", "Request._writeToBodyProducerChunked",
                 "Request._writeToBodyProducerContentLength", "Request._writeToEmptyBodyContentLength",
                 "ChunkedEncoder.write", "ChunkedEncoder.unregisterProducer", "LengthEnforcingConsumer.write",
                 "HTTP11ClientProtocol.request"]

    def cases(self, tier, rng):
        for m in _METHODS:
            for t in _TARGETS:
                for hi in range(len(_HEADER_SETS)):
                    for persistent in (False, True):
                        for bi in range(len(_BODIES_SMALL)):
                            for via in ("writeTo", "protocol"):
                                yield (m, t, hi, persistent, bi, via)

    def check(self, case):
        m, t, hi, persistent, bi, via = case
        hs = _HEADER_SETS[hi]
        body = _BODIES_SMALL[bi]
        o = run_request(via, m, t, hs, persistent, body)
        if o.refused:
            return "valid request refused: %s (wire so far %r)" % (o.why, o.wire[:80])
        if via == "writeTo" and (o.result is None or o.result[0] != "ok"):
            return "writeTo's Deferred did not fire with success after the producer finished: %r" % (o.result,)
        if o.aborted:
            return "the client dropped the connection while sending a valid request"
        return compare_message(o.wire, m, t, list(hs), make_body(body)[2])


# --------------------------------------------------------------------------
# 3. body framing

_CHUNK_ALPHA = (b"a", b"\r\n", b"0\r\n\r\n", b"1\r\nZ", b"0123456789abcdefg", b"\x00\xff")
_SIZES = (1, 9, 10, 15, 16, 17, 255, 256, 257, 4095, 4096, 4097, 65535, 65536, 65537, 100000)


def _schedules(n):
    """(k written synchronously, finish synchronously)"""
    yield (n, True)
    for k in range(0, n + 1):
        yield (k, False)


class BodyFraming(Bounded):
    prop = "C24"
    title = ("the body h11 decodes from the wire (Content-Length or chunked) is the concatenation of what the producer "
             "wrote, the message ends exactly at the end of the wire bytes")
    scope = ("write sequences of <= 3 (thorough 4) chunks over {a, CRLF, '0 CRLF CRLF', '1 CRLF Z', 17 bytes, NUL 0xff} "
             "(known length additionally the empty write) x known/unknown length x every split of the writes into "
             "'inside startProducing' / 'later', completion sync or async x POST/GET x writeTo/protocol; single writes "
             "of 1..100000 bytes around every hex digit boundary; FileBodyProducer over BytesIO with readSize 1/2/3/big, "
             "one read per tick or all at once; NON-EMPTY writes only for unknown length (empty writes: EmptyWrites)")
    functions = ["Request._writeToBodyProducerChunked", "Request._writeToBodyProducerContentLength",
                 "ChunkedEncoder.write", "ChunkedEncoder.unregisterProducer", "LengthEnforcingConsumer.write",
                 "LengthEnforcingConsumer._noMoreWritesExpected", "FileBodyProducer.startProducing",
                 "HTTP11ClientProtocol.request"]

    def cases(self, tier, rng):
        nmax = 3 if tier == "quick" else 4
        for known in (True, False):
            alpha = _CHUNK_ALPHA + ((b"",) if known else ())
            for n in range(0, nmax + 1):
                for chunks in itertools.product(alpha, repeat=n):
                    for k, fs in _schedules(n):
                        for method, via in ((b"POST", "writeTo"), (b"GET", "protocol")) if n == nmax and n > 2 else (
                                (b"POST", "writeTo"), (b"GET", "protocol"), (b"GET", "writeTo"), (b"PUT", "protocol")):
                            yield (method, via, ("scripted", known, chunks, k, fs))
        for size in _SIZES:
            for known in (True, False):
                for k, fs in ((1, True), (0, False)):
                    yield (b"POST", "writeTo", ("scripted", known, (bytes([65 + size % 26]) * size,), k, fs))
                yield (b"PUT", "protocol", ("scripted", known, (b"x" * size, b"\r\n0\r\n\r\n", b"y" * size), 1, False))
        for data in (b"", b"a", b"ab\r\n0\r\n\r\nc", b"0123456789abcdefg" * 4):
            for rs in (1, 2, 3, 1 << 16):
                for one_per_tick in (True, False):
                    for via in ("writeTo", "protocol"):
                        yield (b"POST", via, ("file", data, rs, one_per_tick))
        if tier != "quick":
            pool = list(_CHUNK_ALPHA) + [b"\r", b"\n", b"ffff\r\n", b";ext=1\r\n", b"GET / HTTP/1.1\r\nHost: h\r\n\r\n"]
            for _ in range(6000):
                n = rng.randrange(1, 9)
                chunks = []
                for _i in range(n):
                    if rng.random() < 0.3:
                        chunks.append(bytes(rng.randrange(256) for _j in range(rng.randrange(1, 40))))
                    elif rng.random() < 0.1:
                        chunks.append(b"q" * rng.choice(_SIZES))
                    else:
                        chunks.append(rng.choice(pool))
                known = rng.random() < 0.5
                k = rng.randrange(0, n + 1)
                yield (rng.choice((b"POST", b"GET", b"PATCH")), rng.choice(("writeTo", "protocol")),
                       ("scripted", known, tuple(chunks), k, k == n and rng.random() < 0.5))
            for _ in range(300):
                data = bytes(rng.randrange(256) for _j in range(rng.randrange(0, 200)))
                yield (b"POST", rng.choice(("writeTo", "protocol")),
                       ("file", data, rng.randrange(1, 50), rng.random() < 0.5))

    def nontrivial(self, case):
        return len(make_body(case[2])[2]) > 0

    def check(self, case):
        method, via, body = case
        o = run_request(via, method, b"/u", _HOST, False, body)
        if o.refused:
            return "valid request refused: %s (wire so far %r)" % (o.why, o.wire[:80])
        if via == "writeTo" and (o.result is None or o.result[0] != "ok"):
            return "writeTo's Deferred did not fire with success after the producer finished: %r" % (o.result,)
        if o.aborted:
            return "the client dropped the connection while sending a valid request"
        return compare_message(o.wire, method, b"/u", list(_HOST), make_body(body)[2])


class EmptyWrites(Bounded):
    prop = "C24"
    title = ("unknown-length producer that also makes empty writes (legal for IConsumer.write, e.g. a compressor "
             "returning b''): h11 still decodes exactly the concatenation and nothing follows the message")
    scope = ("write sequences of <= 3 (thorough 4) chunks over {'', a, CRLF} containing at least one empty write, "
             "unknown length, every sync/async split, via writeTo and protocol")
    functions = ["ChunkedEncoder.write", "ChunkedEncoder.unregisterProducer", "Request._writeToBodyProducerChunked"]

    def cases(self, tier, rng):
        nmax = 3 if tier == "quick" else 4
        for n in range(1, nmax + 1):
            for chunks in itertools.product((b"", b"a", b"\r\n"), repeat=n):
                if b"" not in chunks:
                    continue
                for k, fs in _schedules(n):
                    for via in ("writeTo", "protocol"):
                        yield (b"POST", via, ("scripted", False, chunks, k, fs))

    def check(self, case):
        method, via, body = case
        o = run_request(via, method, b"/u", _HOST, False, body)
        if o.refused:
            return "valid request refused: %s (wire so far %r)" % (o.why, o.wire[:80])
        return compare_message(o.wire, method, b"/u", list(_HOST), make_body(body)[2])


# --------------------------------------------------------------------------
# 4. the public entry points: Agent / ProxyAgent

class _Endpoint:
    def __init__(self):
        self.transports = []

    def connect(self, factory):
        proto = factory.buildProtocol(None)
        t = StringTransport()
        self.transports.append(t)
        proto.makeConnection(t)
        return succeed(proto)


class _EndpointFactory:
    def __init__(self, ep):
        self.ep = ep

    def endpointForURI(self, uri):
        return self.ep


_AGENT_URLS = [b"http://h", b"http://h/", b"http://h/?q", b"http://h/a/b?c=d#frag", b"http://h#f",
               b"http://h:8080/p;x?y=%7E", b"https://h/a?b?c", b"http://h//x", b"http://[::1]:81/z",
               b"http://h/a?#", b"HTTP://H/Up"]
# URL -> request-target derivation corner cases (kept apart from the main Agent check):
#  * empty path followed directly by a query: RFC 9112 3.2.1 demands "/?q=1" on the wire;
#  * a last path segment ending in ';' (';' is an ordinary pchar, "/a;" and "/a" are different paths).
_AGENT_URLS_DERIVATION = [b"http://h?q=1", b"http://h:8080?", b"https://h?a=b#f", b"http://h/a;", b"http://h/a;?q",
                          b"http://h/;", b"http://h/a;b", b"http://h/a;/b", b"http://h/a;;"]


class AgentEntryPoints(Bounded):
    prop = "C24"
    title = ("Agent.request / ProxyAgent.request: a method or URL with an invalid byte is refused with no byte written "
             "on any connection; otherwise h11 sees that method, the URL's origin-form (Agent) or the URL itself "
             "(ProxyAgent), the given headers and body")
    scope = ("11 clean URLs (empty path, fragment, port, IPv6, nested '?'; NOT empty path + query and NOT a path "
             "ending in ';', see AgentTargetDerivation) x 6 methods x 3 bodies; "
             "URL 'http://h/a' and method 'GET' with each of 256 byte values inserted at 3 positions (URL: inside the "
             "path, at the very start, at the very end); surrounding ASCII white space on a URL may be trimmed "
             "instead of refused; dropping an empty query ('/a?' sent as '/a') is tolerated")
    functions = ["Agent.request", "ProxyAgent.request", "_AgentBase._requestWithEndpoint", "_ensureValidMethod",
                 "_ensureValidURI", "Request.writeTo", "HTTP11ClientProtocol.request"]
    URLS = _AGENT_URLS
    BYTE_INSERTIONS = True

    def cases(self, tier, rng):
        for agent in ("agent", "proxy"):
            for url in self.URLS:
                if agent == "proxy" and b"#" in url:
                    continue  # what a proxy request does with a fragment is not part of the property
                for m in (b"GET", b"POST", b"PUT", b"HEAD", b"x-y", b"!#$%&'*+-.^_`|~"):
                    for bi in (0, 3, 4):
                        yield (agent, m, url, bi)
            for b in range(256 if self.BYTE_INSERTIONS else 0):
                c = bytes([b])
                for url in (b"http://h/a" + c + b"b", c + b"http://h/a", b"http://h/a" + c):
                    if url in _AGENT_URLS_DERIVATION:
                        continue  # 'http://h/a;' is examined by AgentTargetDerivation
                    yield (agent, b"GET", url, 0)
                for m in (c + b"GET", b"G" + c + b"T", b"GET" + c, c):
                    yield (agent, m, b"http://h/a", 2)
            if self.BYTE_INSERTIONS:
                yield (agent, b"", b"http://h/a", 0)

    def nontrivial(self, case):
        return True

    def check(self, case):
        kind, method, url, bi = case
        body = _BODIES_SMALL[bi]
        ep = _Endpoint()
        clock = Clock()
        if kind == "agent":
            agent = Agent.usingEndpointFactory(clock, _EndpointFactory(ep))
        else:
            agent = ProxyAgent(ep, reactor=clock)
        producer, driver, intended = make_body(body)
        hdrs = Headers({b"X-Given": [b"1", b"two words"]})
        refused, why = False, None
        box = []
        try:
            d = agent.request(method, url, hdrs, producer)
            _watch(d, box)
            if driver is not None:
                driver.drive()
        except Exception as e:
            refused, why = True, repr(e)
        if box and box[0][0] == "err":
            refused, why = True, repr(box[0][1].value)
        wire = b"".join(t.value() for t in ep.transports)

        ws = b" \t\n\r\x0b\x0c"
        trimmed = url.strip(ws)
        url_clean = len(url) > 0 and all(c in _URI_SURE or c == 0x23 for c in url)
        if refused:
            if wire != b"":
                return "refused (%s) but %r was already written" % (why, wire[:120])
            if spec_method_valid(method) and url_clean and self._parsable(url):
                return "valid method %r / URL %r refused: %s" % (method, url, why)
            return None
        if any(c not in _TCHAR for c in method):
            return "invalid method %r accepted, wire %r" % (method, wire[:120])
        if any(c not in _VCHAR for c in trimmed):
            return "URL %r with an invalid byte accepted, wire %r" % (url, wire[:120])
        if not self._parsable(trimmed):
            # not an http(s) URL at all after the inserted byte: only demand a well-formed single request
            p = parse_wire(wire)
            if isinstance(p, str):
                return "%s; wire=%r" % (p, wire[:200])
            if p["method"] != method or p["trailing"] or p["body"] != intended:
                return "wire %r is not the intended request" % (wire[:200],)
            return None
        if kind == "agent":
            target = spec_origin_form(trimmed)
            # dropping an EMPTY query ("/a?" -> "/a") is tolerated: not a different message for any server
            if target.endswith(b"?") and isinstance(parse_wire(wire), dict) and \
                    parse_wire(wire)["target"] == target[:-1]:
                target = target[:-1]
        else:
            target = trimmed
        # ('either' bytes such as '"' were accepted, so they must round-trip too)
        p = parse_wire(wire)
        if isinstance(p, dict) and not any(n == b"host" for n, _ in p["headers"]):
            return "no Host header on the wire: %r" % (wire[:200],)
        host = [v for n, v in p["headers"] if n == b"host"] if isinstance(p, dict) else []
        return compare_message(wire, method, target, [(b"X-Given", (b"1", b"two words")), (b"Host", tuple(host))],
                               intended)

    @staticmethod
    def _parsable(url):
        low = url[:8].lower()
        if not (low.startswith(b"http://") or low.startswith(b"https://")):
            return False
        rest = url.split(b"://", 1)[1]
        auth = rest
        for d in (b"/", b"?", b"#"):
            auth = auth.split(d, 1)[0]
        if auth == b"" or auth.startswith(b":"):
            return False
        if auth.startswith(b"["):
            return b"]" in auth
        if auth.count(b":") > 1:
            return False
        if b":" in auth:
            port = auth.split(b":", 1)[1]
            return port.isdigit() or port == b""
        return True


class AgentTargetDerivation(AgentEntryPoints):
    title = ("Agent.request: corner cases of deriving the request-target from the URL - empty path followed by a "
             "query must go out as '/?query' (RFC 9112 3.2.1), a path whose last segment ends in ';' must go out "
             "unchanged; judged with h11 (ProxyAgent: the URL itself is the target)")
    scope = ("URLs http://h?q=1, http://h:8080?, https://h?a=b#f, http://h/a;, http://h/a;?q, http://h/;, "
             "http://h/a;b, http://h/a;/b, http://h/a;; x 6 methods x 3 bodies x Agent/ProxyAgent")
    functions = ["Agent.request", "URI.fromBytes", "URI.originForm", "Request.writeTo"]
    URLS = _AGENT_URLS_DERIVATION
    BYTE_INSERTIONS = False


class ReentrantRequest(Bounded):
    prop = "C24"
    title = "a second request() issued from inside the body producer of the first (while it is being written)"
    scope = ("bodies of 1..3 chunks with known and unknown length; the producer calls protocol.request(<second>) from "
             "startProducing before / between / after its synchronous writes, or from a later write; the second request "
             "must be refused (RequestNotSent) and the wire must be exactly the first request (parsed by h11); exhaustive")
    functions = ["HTTP11ClientProtocol.request", "Request.writeTo", "Request._writeToBodyProducerChunked",
                 "Request._writeToBodyProducerContentLength"]

    def cases(self, tier, rng):
        for known in (True, False):
            for chunks in ((b"hello",), (b"ab", b"cd"), (b"a", b"", b"bc")):
                for k in range(0, len(chunks) + 1):          # written synchronously inside startProducing
                    for when in range(0, len(chunks) + 1):    # the nested request() comes before chunk number `when`
                        yield (known, chunks, k, when)

    def check(self, case):
        from twisted.web._newclient import RequestNotSent
        from twisted.python.failure import Failure
        known, chunks, k, when = case
        body = b"".join(chunks)
        t = StringTransport()
        proto = HTTP11ClientProtocol()
        proto.makeConnection(t)
        nested = []

        @implementer(IBodyProducer)
        class P:
            length = len(body) if known else UNKNOWN_LENGTH

            def __init__(self):
                self.d = Deferred()
                self.n = 0

            def _one(self, consumer):
                if self.n == when:
                    self._nest()
                consumer.write(chunks[self.n])
                self.n += 1

            def _nest(self):
                d2 = proto.request(Request(b"GET", b"/second", Headers({b"host": [b"h"]}), None))
                d2.addBoth(nested.append)

            def startProducing(self, consumer):
                self.consumer = consumer
                while self.n < k:
                    self._one(consumer)
                if k == len(chunks) and when == len(chunks):
                    self._nest()
                return self.d

            def drive(self):
                while self.n < len(chunks):
                    self._one(self.consumer)
                if k < len(chunks) and when == len(chunks):
                    self._nest()
                self.d.callback(None)

            def stopProducing(self):
                pass

            def pauseProducing(self):
                pass

            def resumeProducing(self):
                pass

        prod = P()
        try:
            d1 = proto.request(Request(b"POST", b"/first", Headers({b"host": [b"h"]}), prod))
            d1.addErrback(lambda f: None)
            prod.drive()
        except Exception as e:
            return "raised %r" % (e,)
        if len(nested) != 1:
            return "the nested request()'s Deferred fired %d time(s) at once" % len(nested)
        if not (isinstance(nested[0], Failure) and nested[0].check(RequestNotSent)):
            return "the nested request() was not refused: %r" % (nested[0],)
        bad = compare_message(t.value(), b"POST", b"/first", [(b"host", [b"h"])], body)
        if bad:
            return "wire is not the first request alone: %s" % bad
        return None


BOUNDED = [RefuseInvalidStartLine, StartLineHeadersRoundTrip, BodyFraming, EmptyWrites, AgentEntryPoints,
           AgentTargetDerivation, ReentrantRequest]
