"""C42 (bounded tier): the IMAP4 client parses what the IMAP4 server serializes.

Property: for any parenthesized nested list of byte strings (any bytes: quotes, backslashes, CR, LF, braces,
NIL-like text ...), None and integers,

    parseNestedParens(collapseNestedLists(items)) == items with every integer replaced by its decimal text.

The oracle is that normalisation (`expected`), nothing else.  An independent RFC 3501 reader of the wire form
(`rfc_read`, written from the grammar: quoted strings with backslash-escaped quoted-specials, literals
"{n}" CRLF n octets, NIL, atoms, parenthesized lists) is used ONLY to say in a failure message which side is at
fault (serializer emitted something an RFC reader would not read back / client parser misread a well-formed
serialization); it never makes a case fail on its own.

Every case is a tuple (label, structure, features).  `structure` uses tuples for lists (hashable); `features` is
a tuple of names of *input* features computed by the generator from the input alone, so that regions of inputs
can be named without recursion:
    "bs-quoted"          some byte-string item contains a backslash and is short and CR/LF free, so the server
                         serializes it as a quoted string (the backslash is escaped on the wire)
    "final-literal-ws"   the last top-level item is a byte string that the server sends as a literal
                         (contains CR or LF, or is longer than 1000 octets) and that ends in an ASCII whitespace
                         octet, so the serialization itself ends in whitespace
    "final-literal"      the last top-level item is sent as a literal (wire class only: the response line ends
                         right after the literal octets)
"""
import itertools

from pyvc.api import Bounded

from twisted.internet.testing import StringTransport
from twisted.mail import imap4

_ASCII_WS = b" \t\n\r\x0b\x0c"


# ----------------------------------------------------------------------------------------------------------------
# the specification side
# ----------------------------------------------------------------------------------------------------------------

def to_items(t):
    """tuple-encoded structure -> the nested lists handed to the serializer"""
    if isinstance(t, tuple):
        return [to_items(x) for x in t]
    return t


def expected(t):
    """What the property says the client must obtain: same shape, integers as their decimal text."""
    if isinstance(t, (tuple, list)):
        return [expected(x) for x in t]
    if t is None:
        return None
    if isinstance(t, int):
        return str(t).encode("ascii")
    return t


def _sent_as_literal(s):
    # documented behaviour of the server ("Strings ... will be sent as literals if they contain CR or LF") plus
    # the length rule; only used to *name* input regions and to choose interesting cases, never as an oracle.
    return b"\r" in s or b"\n" in s or len(s) > 1000


def features(t, wire=False):
    f = set()

    def walk(x):
        if isinstance(x, tuple):
            for y in x:
                walk(y)
        elif isinstance(x, bytes) and b"\\" in x and not _sent_as_literal(x):
            f.add("bs-quoted")

    walk(t)
    if t and isinstance(t[-1], bytes) and _sent_as_literal(t[-1]):
        if wire:
            f.add("final-literal")
        if t[-1][-1:] in [_ASCII_WS[i:i + 1] for i in range(len(_ASCII_WS))]:
            f.add("final-literal-ws")
    return tuple(sorted(f))


class _Unreadable(Exception):
    pass


def rfc_read(wire):
    """Independent RFC 3501 reader of `value *(SP value)`; value = "(" [values] ")" / quoted / literal / NIL / atom.
    Diagnostic only.  Octets that RFC 3501 does not allow inside a quoted string (8-bit, NUL) are accepted
    verbatim: the property does not restrict them."""
    pos = 0
    n = len(wire)

    def value():
        nonlocal pos
        if pos >= n:
            raise _Unreadable("value expected at end")
        c = wire[pos:pos + 1]
        if c == b"(":
            pos += 1
            out = []
            if wire[pos:pos + 1] == b")":
                pos += 1
                return out
            while True:
                out.append(value())
                d = wire[pos:pos + 1]
                if d == b")":
                    pos += 1
                    return out
                if d != b" ":
                    raise _Unreadable("SP or ) expected at %d" % pos)
                pos += 1
        if c == b'"':
            pos += 1
            buf = bytearray()
            while True:
                if pos >= n:
                    raise _Unreadable("unterminated quoted string")
                d = wire[pos:pos + 1]
                if d == b"\\":
                    e = wire[pos + 1:pos + 2]
                    if e not in (b"\\", b'"'):
                        raise _Unreadable("backslash before a non quoted-special at %d" % pos)
                    buf += e
                    pos += 2
                elif d == b'"':
                    pos += 1
                    return bytes(buf)
                elif d in (b"\r", b"\n"):
                    raise _Unreadable("CR/LF inside quoted string at %d" % pos)
                else:
                    buf += d
                    pos += 1
        if c == b"{":
            end = wire.find(b"}", pos)
            if end < 0 or not wire[pos + 1:end].isdigit() or wire[end + 1:end + 3] != b"\r\n":
                raise _Unreadable("malformed literal header at %d" % pos)
            k = int(wire[pos + 1:end])
            data = wire[end + 3:end + 3 + k]
            if len(data) != k:
                raise _Unreadable("short literal at %d" % pos)
            pos = end + 3 + k
            return data
        start = pos
        while pos < n and wire[pos:pos + 1] not in (b" ", b"(", b")", b'"', b"{", b"\r", b"\n"):
            pos += 1
        if pos == start:
            raise _Unreadable("atom expected at %d" % pos)
        atom = wire[start:pos]
        return None if atom == b"NIL" else atom

    out = []
    if n == 0:
        return out
    while True:
        out.append(value())
        if pos >= n:
            return out
        if wire[pos:pos + 1] != b" ":
            raise _Unreadable("SP expected at %d" % pos)
        pos += 1


def blame(wire, want):
    try:
        ref = rfc_read(wire)
    except _Unreadable as e:
        return "serializer: an RFC 3501 reader cannot read the serialization (%s)" % e
    if ref != want:
        return "serializer: an RFC 3501 reader reads the serialization as %r" % (ref,)
    return "client parser: the serialization is well formed and an RFC 3501 reader reads it back correctly"


def roundtrip(t):
    """Run the real serializer and the real parser; None if the property held, else a message."""
    items = to_items(t)
    want = expected(t)
    try:
        wire = imap4.collapseNestedLists(items)
    except Exception as e:  # the property quantifies over all such structures: the serializer must accept them
        return "collapseNestedLists(%r) raised %r" % (items, e)
    try:
        got = imap4.parseNestedParens(wire)
    except Exception as e:
        return "parseNestedParens(%r) raised %s(%s); expected %r [%s]" % (
            wire, type(e).__name__, str(e)[:60], want, blame(wire, want))
    if got != want:
        return "parseNestedParens(%r) == %r; expected %r [%s]" % (wire, got, want, blame(wire, want))
    return None


# ----------------------------------------------------------------------------------------------------------------
# 1. one hostile string in every syntactic position
# ----------------------------------------------------------------------------------------------------------------

# every octet that is a delimiter, an escape or a boundary for either side: atom/quoted/literal/list syntax, the
# bracket that the parser also treats as a list delimiter, white space that strip()/split() care about, a digit,
# NUL and an 8-bit octet
_ALPHA = [b"a", b'"', b"\\", b"(", b")", b"{", b"}", b"[", b"]", b"\r", b"\n", b" ", b"1", b"\x00", b"\xff"]

_SPECIAL_STRINGS = [
    b"NIL", b"nil", b"Nil", b"NIL ", b" NIL", b"(NIL)", b'"NIL"', b"NIL\r\n", b"\r\nNIL", b"NILL", b"NI",
    b"{3}", b"{3}\r\n", b"{3}\r\nabc", b"{0}", b"{0}\r\n", b"x{3}", b"{", b"{}", b"{a}", b"{-1}", b"}{",
    b"()", b"(a)", b"(a", b"a)", b"[a]", b"a b", b" a", b"a ", b"  ", b"\t", b"\x0b", b"\x0c", b"a\tb",
    b'""', b'"a"', b'a"b', b'\\"', b'"\\', b"\\\\", b"a\\b", b"\\a", b"a\\", b'\\\\"', b'"\\"',
    b"\r\n", b"a\r\nb", b"\r\n\r\n", b"a\r", b"a\n", b"\ra", b"\na", b"a\r ", b"a\n\t", b"x\r\x0b", b"\\\r", b'"\n',
    b"0", b"12", b"-1", b"1 2", b"%", b"*", b"\x7f", b"\x80", b"+", b"BODY[TEXT]", b"<0.5>",
]

_CONTEXTS = ("only", "first", "last", "inner", "inner-last", "middle", "twice")


def _place(ctx, s):
    if ctx == "only":
        return (s,)
    if ctx == "first":
        return (s, b"a")
    if ctx == "last":
        return (b"a", s)
    if ctx == "inner":
        return ((s,),)
    if ctx == "inner-last":
        return (b"a", (b"b", s))
    if ctx == "middle":
        return (7, s, None)
    return (s, (s, s), s)


class HostileStringPositions(Bounded):
    prop = "C42"
    title = ("parseNestedParens(collapseNestedLists(x)) vs x for one hostile byte string placed in every syntactic "
             "position of a nested list")
    scope = ("every byte string of length 0..3 (thorough 0..4) over the 15 octets a \" \\ ( ) { } [ ] CR LF SP 1 NUL "
             "0xFF, all 256 single octets, ~70 fixed NIL-like / literal-header-like / quote-and-backslash / CR-LF "
             "texts, and runs of a, \", \\, SP of length 999..1002 (both sides of the 1000-octet literal "
             "threshold); each placed alone, first, last, in a sublist, last in a sublist, between an integer and "
             "None, and repeated 4 times over two levels; exhaustive")
    functions = ["collapseNestedLists", "_quote", "_needsLiteral", "parseNestedParens", "collapseStrings",
                 "splitQuoted", "splitOn"]

    def cases(self, tier, rng):
        top = 3 if tier == "quick" else 4
        seen = set()

        def emit(s):
            if s in seen:
                return
            seen.add(s)
            for ctx in _CONTEXTS:
                t = _place(ctx, s)
                yield (ctx, t, features(t))

        for k in range(0, top + 1):
            for tup in itertools.product(_ALPHA, repeat=k):
                yield from emit(b"".join(tup))
        for b in range(256):
            yield from emit(bytes([b]))
        for s in _SPECIAL_STRINGS:
            yield from emit(s)
        for unit in (b"a", b'"', b"\\", b" "):
            for k in (999, 1000, 1001, 1002):
                yield from emit(unit * k)
        for k in (999, 1000, 1001):
            yield from emit(b"a" * (k - 1) + b"\r")
            yield from emit(b"a" * (k - 1) + b'"')

    def nontrivial(self, case):
        return len(case[1]) > 0

    def check(self, case):
        return roundtrip(case[1])


# ----------------------------------------------------------------------------------------------------------------
# 2. nested structures: exhaustive small shapes, exhaustive skeletons to depth 4, seeded random hostile structures
# ----------------------------------------------------------------------------------------------------------------

_LEAVES = [b"", b"a", b'"', b"\\", b"(", b")", b"{1}", b"\r", b"\n", b" ", b"NIL", None, 0, 12]
_LEAVES_QUICK = [b"", b"a", b'"', b"\\", b")", b"{1}", b"\r", b"NIL", None, 12]
_FILL = [b"a", b"\r)", None, 7, b'" (']


def _skeletons(depth, budget):
    """All list shapes (as tuples whose leaf slots are the marker Ellipsis) of nesting depth <= depth whose total
    number of slots (leaf slots + sublists) is <= budget.  Returns (shape, used) pairs."""
    def seqs(d, b):
        # sequences of elements using at most b slots
        yield (), 0
        if b <= 0:
            return
        for first, u1 in elems(d, b):
            for rest, u2 in seqs(d, b - u1):
                yield (first,) + rest, u1 + u2

    def elems(d, b):
        yield Ellipsis, 1
        if d > 1:
            for inner, u in seqs(d - 1, b - 1):
                yield inner, u + 1

    return seqs(depth, budget)


def _fill(shape, values):
    it = iter(values)

    def go(x):
        if x is Ellipsis:
            return next(it)
        return tuple(go(y) for y in x)

    return go(shape)


def _count_slots(shape):
    if shape is Ellipsis:
        return 1
    return sum(_count_slots(y) for y in shape)


_HOSTILE = b'a"\\(){}[]\r\n NIL01\x00\xff\t%*'


def _random_structure(rng, depth):
    def leaf():
        r = rng.random()
        if r < 0.10:
            return None
        if r < 0.22:
            return rng.choice([0, 1, 7, 12, 1000, -3, 2 ** 40])
        if r < 0.30:
            return rng.choice([b"NIL", b"nil", b"", b"{2}", b"{2}\r\n", b"()", b'""', b"\\", b"\r\n"])
        if r < 0.32:
            return bytes(rng.choice(_HOSTILE) for _ in range(rng.choice([999, 1000, 1001, 1003])))
        if r < 0.40:
            return bytes(rng.randrange(256) for _ in range(rng.randrange(0, 6)))
        return bytes(rng.choice(_HOSTILE) for _ in range(rng.randrange(0, 7)))

    def lst(d):
        out = []
        for _ in range(rng.randrange(0, 5)):
            if d > 1 and rng.random() < 0.4:
                out.append(lst(d - 1))
            else:
                out.append(leaf())
        return tuple(out)

    return lst(depth)


class NestedStructures(Bounded):
    prop = "C42"
    title = "parseNestedParens(collapseNestedLists(x)) vs x (integers as decimal text) for nested structures"
    scope = ("(A) every structure of nesting depth <= 2 with lists of length 0..2 over the leaves "
             "b'' a \" \\ ( ) {1} CR LF SP NIL None 0 12 (quick: 10 of these leaves) -- exhaustive; "
             "(B) every list skeleton of nesting depth <= 4 with <= 5 slots (quick <= 4), leaves filled in all ways "
             "from {a, CR+')', None, 7, '\" ('} -- exhaustive; "
             "(C) seeded random structures of depth <= 4, lists of 0..4 items, items None / integers (incl. negative "
             "and 2**40) / strings of 0..6 octets from a hostile alphabet or arbitrary octets / 999..1003-octet "
             "strings: 4000 quick, 60000 thorough -- sampled")
    functions = ["collapseNestedLists", "_quote", "_needsLiteral", "parseNestedParens", "collapseStrings",
                 "splitQuoted", "splitOn"]

    def cases(self, tier, rng):
        leaves = _LEAVES_QUICK if tier == "quick" else _LEAVES
        # (A)
        level1 = [()] + [(a,) for a in leaves] + [(a, b) for a in leaves for b in leaves]
        elems = list(leaves) + level1
        yield ("A", (), ())
        for a in elems:
            t = (a,)
            yield ("A", t, features(t))
        for a in elems:
            for b in elems:
                t = (a, b)
                yield ("A", t, features(t))
        # (B)
        slots = 4 if tier == "quick" else 5
        for shape, _used in _skeletons(4, slots):
            k = _count_slots(shape)
            for vals in itertools.product(_FILL, repeat=k):
                t = _fill(shape, vals)
                yield ("B", t, features(t))
        # (C)
        for _ in range(4000 if tier == "quick" else 60000):
            t = _random_structure(rng, rng.choice([1, 2, 3, 4, 4]))
            yield ("C", t, features(t))

    def nontrivial(self, case):
        return any(isinstance(x, tuple) for x in case[1])

    def check(self, case):
        return roundtrip(case[1])


# ----------------------------------------------------------------------------------------------------------------
# 3. the same round trip over the wire: real IMAP4Client line/literal reassembly, every segmentation
# ----------------------------------------------------------------------------------------------------------------

class _QuietLog:
    """Stands in for twisted.python.log inside imap4 while a client runs, so that exceptions which
    IMAP4Client.dispatchCommand catches and logs are recorded for the failure message instead of being printed."""

    def __init__(self):
        self.errors = []

    def err(self, _stuff=None, _why=None, **kw):
        import sys
        self.errors.append(_stuff if _stuff is not None else sys.exc_info()[1])

    def msg(self, *a, **kw):
        pass


def _client_run(prefix, cmdname, body, chunking):
    """Deliver `* <prefix><body>CRLF<tag> OK done CRLF` to a real IMAP4Client that has one command outstanding.
    Returns ("ok", parsed untagged lines) or ("no-result", detail)."""
    quiet = _QuietLog()
    saved = imap4.log
    imap4.log = quiet
    try:
        c = imap4.IMAP4Client()
        c.timeout = 0
        tr = StringTransport()
        c.makeConnection(tr)
        c.dataReceived(b"* OK ready\r\n")
        d = c.sendCommand(imap4.Command(cmdname, b"1", wantResponse=(cmdname,)))
        tag = tr.value().split(None, 1)[0]
        out = []
        d.addCallbacks(lambda r: out.append(("ok", r[0])), lambda f: out.append(("err", f.value)))
        stream = b"* " + prefix + body + b"\r\n" + tag + b" OK done\r\n"
        for chunk in chunking(stream):
            c.dataReceived(chunk)
    finally:
        imap4.log = saved
    if not out:
        why = "; ".join("%s: %s" % (type(e).__name__, str(e)[:60]) for e in quiet.errors[:2])
        return ("no-result", "command never completed%s%s" % (
            ", connection dropped" if tr.disconnecting else "", (", client logged " + why) if why else ""))
    return out[0]


def _chunkings(n, ways):
    yield "whole", lambda s: [s]
    yield "bytewise", lambda s: [s[i:i + 1] for i in range(len(s))]
    step = 1 if n <= 300 else n // 40
    for k in range(1, n, step):
        yield "split@%d" % k, (lambda s, k=k: [s[:k], s[k:]])
    if ways >= 3 and n <= 300:
        for j in range(1, n):
            for k in range(j + 1, n):
                yield "split@%d,%d" % (j, k), (lambda s, j=j, k=k: [s[:j], s[j:k], s[k:]])


_WIRE_ALPHA = [b"a", b'"', b"\\", b"(", b")", b"{", b"}", b"\r", b"\n", b" "]
_WIRE_SPECIALS = [b"NIL", b"{3}", b"x{3}", b"{3}\r\n", b"{3}\r\nabc", b"\r\n", b"a\r\nb", b"\r\n\r\n", b"\\\\",
                  b'\\"', b"a\\b", b"\r\n* 2 FETCH (X)", b"\r\nT OK done", b"x\r\n", b"a" * 1001]


def _wire_shapes(s):
    yield (s,)
    yield (b"a", s)
    yield (s, 5)
    yield ((s,), None)
    yield (s, (b"b", s))


class WireRoundTrip(Bounded):
    prop = "C42"
    title = ("an untagged response whose data is collapseNestedLists(x), delivered to a real IMAP4Client whole, "
             "byte-at-a-time, in every 2-way (short inputs: every 3-way) split, vs x (integers as decimal text)")
    scope = ("x built from one string s in 5 shapes ([s], [a,s], [s,5], [[s],None], [s,[b,s]]); s = every string of "
             "length 0..2 over a \" \\ ( ) { } CR LF SP, every string of length 3 over a \" \\ { CR LF (thorough: "
             "over all 10 octets), 15 fixed literal-header-like / CRLF / response-like texts incl. a 1001-octet "
             "string; sent both wrapped as '* 1 FETCH (...)' and bare as '* LIST ...', followed by the tagged OK; "
             "segmentations of the whole byte stream: one chunk, single bytes, every 2-way split (1001-octet "
             "string: 40 of them), and every 3-way split for len(s) <= 1 and the fixed texts (thorough: "
             "len(s) <= 2); exhaustive")
    functions = ["IMAP4Client.lineReceived", "IMAP4Client.rawDataReceived", "IMAP4Client._setupForLiteral",
                 "IMAP4Client._defaultHandler", "Command.finish", "collapseNestedLists", "parseNestedParens"]

    def cases(self, tier, rng):
        strings = [b""]
        for k in (1, 2):
            strings += [b"".join(t) for t in itertools.product(_WIRE_ALPHA, repeat=k)]
        three = [b"a", b'"', b"\\", b"{", b"\r", b"\n"] if tier == "quick" else _WIRE_ALPHA
        strings += [b"".join(t) for t in itertools.product(three, repeat=3)]
        strings += [s for s in _WIRE_SPECIALS if s not in strings]
        for s in strings:
            ways = 3 if (len(s) <= (1 if tier == "quick" else 2) or s in _WIRE_SPECIALS) else 2
            for t in _wire_shapes(s):
                yield ("fetch", t, features((t,)), ways)   # wrapped in one more list: never ends in a literal
                yield ("list", t, features(t, wire=True), ways)

    def check(self, case):
        mode, t, _, ways = case
        if mode == "fetch":
            prefix, cmd = b"1 FETCH ", b"FETCH"
            body = imap4.collapseNestedLists([to_items(t)])
            want = [b"1", b"FETCH", expected(t)]
            data_want = [expected(t)]
        else:
            prefix, cmd = b"LIST ", b"LIST"
            body = imap4.collapseNestedLists(to_items(t))
            want = [b"LIST"] + expected(t)
            data_want = expected(t)
        total = len(b"* " + prefix + body + b"\r\n0001 OK done\r\n")
        bad = []
        good = []
        for name, chunking in _chunkings(total, ways):
            try:
                kind, got = _client_run(prefix, cmd, body, chunking)
            except Exception as e:
                kind, got = "raised", "dataReceived raised %r" % (e,)
            if kind == "ok" and got == [want]:
                good.append(name)
            elif kind == "ok":
                bad.append((name, "parsed as %r" % (got,)))
            else:
                bad.append((name, "%s: %s" % (kind, str(got)[:160])))
        if not bad:
            return None
        return "response data %r, delivery %s: %s; expected %r; %d of %d segmentations wrong%s [%s]" % (
            body, bad[0][0], bad[0][1], [want], len(bad), len(bad) + len(good),
            (" (right e.g. for %s)" % good[0]) if good else "", blame(body, data_want))


BOUNDED = [HostileStringPositions, NestedStructures, WireRoundTrip]
