"""C55 -- log formatting never raises and always returns text.

Bounded-exhaustive executable contract.  The oracle is the property statement
itself (and the docstrings of the functions: "This implementation should never
raise an exception; if the formatting cannot be done, the returned string will
describe the event generically"):

    for every event in scope, each event text-formatting function RETURNS, and
    what it returns is a ``str`` (``None`` is also allowed where the function
    documents it: formatEventAsClassicLogText "or None if no output is
    appropriate", textFromEventDict "If it cannot handle the dict, it returns
    None").

Nothing about the *content* of the text is demanded, so any refactoring that
changes wording, ordering or which fallback message is used cannot fail a case.
The harness never looks at how the implementation catches anything; it only
builds hostile inputs from the list in the statement:

  * values whose ``__str__`` / ``__repr__`` / ``__format__`` raise (an Exception
    subclass, a BaseException subclass that is not an Exception, an exception
    whose own str and repr raise) or return non-text (bytes, None, int) or a
    str subclass;
  * attribute / index lookups and calls that raise those or simply do not exist;
  * arbitrary and malformed PEP-3101 format strings (every string over an
    alphabet of all the delimiter characters up to a length bound, and a
    grammar of roots x lookup paths x conversions x format specifications with
    nested fields x surrounding text), byte formats, non-string formats;
  * failures: real Failures (also of hostile exceptions), things that are not
    Failures, objects whose getTraceback raises or returns non-text;
  * odd log_time / log_system / log_level / log_namespace values;
  * already-flattened events (log_flattened) of every odd shape.

KeyboardInterrupt / SystemExit / GeneratorExit are never raised by the hostile
objects (the legacy formatter re-raises KeyboardInterrupt on purpose); the
BaseException that is used is a private subclass.  Objects that *mutate the
event* while being formatted are outside the statement and are not generated.

The callable ``formatTime`` argument of eventAsText / formatEventAsClassicLogText
is left at its default: it is code supplied by the caller, not part of the event.
"""
from __future__ import annotations

import decimal
import itertools

from pyvc.api import Bounded

from twisted.logger import LogLevel
from twisted.logger import _format as _fmt_mod
from twisted.logger._flatten import flattenEvent
from twisted.python import log as _legacy
from twisted.python.failure import Failure


# ---------------------------------------------------------------------------------------------------------------------
# hostile values
# ---------------------------------------------------------------------------------------------------------------------

class Boom(Exception):
    """An ordinary exception raised by hostile objects."""


class Nasty(BaseException):
    """A BaseException that is not an Exception (and not one of the interpreter-control exceptions)."""


class BadExc(Exception):
    """An exception whose own str and repr raise."""

    def __str__(self):
        raise Boom("str of the exception")

    def __repr__(self):
        raise Boom("repr of the exception")


class StrSub(str):
    """A legal text result that is not exactly str."""


_TOUCH = [0]  # number of hostile operations performed (only used to count a case as non-trivial)

FAULTS = ("exc", "base", "badexc", "bytes", "none", "int")
UNARY = ("ok", "sub") + FAULTS


def _act(beh, text):
    """What a hostile operation does: return text, return non-text, or raise."""
    _TOUCH[0] += 1
    if beh == "ok":
        return text
    if beh == "sub":
        return StrSub(text)
    if beh == "exc":
        raise Boom(text)
    if beh == "base":
        raise Nasty(text)
    if beh == "badexc":
        raise BadExc()
    if beh == "bytes":
        return text.encode("utf-8")
    if beh == "none":
        return None
    if beh == "int":
        return 7
    raise AssertionError(beh)


class Val:
    """A value with configurable str / repr / format behaviour (kind = (s, r, f)) and a lookup world:

    .a / [0] / [a]      another Val of the same kind
    .c .ce .cn .ck      callables returning a Val / raising Boom / Nasty / BadExc
    .e .n .k [e] [n] [k] lookups raising Boom / Nasty / BadExc
    anything else       AttributeError / KeyError (the natural failure)
    """

    def __init__(self, kind):
        self._kind = kind

    def __str__(self):
        return _act(self._kind[0], "S\xe9")

    def __repr__(self):
        return _act(self._kind[1], "R☃")

    def __format__(self, spec):
        f = self._kind[2]
        if f == "dflt":
            return object.__format__(self, spec)  # str(self) for an empty spec, TypeError otherwise
        r = _act(f, "F\xe9")
        if type(r) is str:
            return format(r, spec)
        return r

    def __getattr__(self, name):
        if name.startswith("_"):
            raise AttributeError(name)
        _TOUCH[0] += 1
        if name == "a":
            return type(self)(self._kind)
        if name == "c":
            return Fn("ok", self._kind)
        if name == "ce":
            return Fn("exc", self._kind)
        if name == "cn":
            return Fn("base", self._kind)
        if name == "ck":
            return Fn("badexc", self._kind)
        if name == "e":
            raise Boom("getattr")
        if name == "n":
            raise Nasty("getattr")
        if name == "k":
            raise BadExc()
        raise AttributeError(name)

    def __getitem__(self, key):
        _TOUCH[0] += 1
        if key == 0 or key == "a":
            return type(self)(self._kind)
        if key == "e":
            raise Boom("getitem")
        if key == "n":
            raise Nasty("getitem")
        if key == "k":
            raise BadExc()
        raise KeyError(key)


class CallVal(Val):
    """A Val that can also be called (returns another one)."""

    def __call__(self):
        _TOUCH[0] += 1
        return type(self)(self._kind)


class Fn:
    """A callable with no arguments: returns a Val or raises."""

    def __init__(self, beh, kind):
        self._beh = beh
        self._kind = kind

    def __call__(self):
        _TOUCH[0] += 1
        if self._beh == "ok":
            return Val(self._kind)
        return _act(self._beh, "call")


BENIGN = ("ok", "ok", "dflt")


def single_fault_kinds():
    """benign + every kind with exactly one of str / repr / format misbehaving + all three misbehaving alike."""
    out = [BENIGN, ("ok", "ok", "ok"), ("sub", "sub", "sub")]
    for x in FAULTS:
        out.append((x, "ok", "dflt"))
        out.append(("ok", x, "dflt"))
        out.append(("ok", "ok", x))
        out.append((x, x, "dflt"))
        out.append((x, x, x))
    return out


def all_kinds():
    return [(s, r, f) for s in UNARY for r in UNARY for f in ("dflt",) + UNARY]


# ---------------------------------------------------------------------------------------------------------------------
# the executable postcondition
# ---------------------------------------------------------------------------------------------------------------------

def _describe(e):
    try:
        s = str(e)
    except BaseException:
        s = "<str() of the exception raised>"
    return "%s(%s)" % (type(e).__name__, s[:100])


def _outcome(fn, *a, **kw):
    try:
        return ("ret", fn(*a, **kw))
    except (KeyboardInterrupt, SystemExit, MemoryError):
        raise
    except BaseException as e:  # Nasty must not leave the harness either
        return ("exc", e)


def _violation(name, outcome, none_ok=False):
    """None when `outcome` satisfies 'returned text', else a description."""
    tag, v = outcome
    if tag == "exc":
        return "%s raised %s" % (name, _describe(v))
    if v is None and none_ok:
        return None
    if not isinstance(v, str):
        return "%s returned %s, not text" % (name, type(v).__name__)
    return None


FLAG_COMBOS = tuple(itertools.product((True, False), repeat=3))


def _check_new_api(make_event, flags=((True, True, True),), unformattable=False, lite=False):
    """Run the public formatters of twisted.logger._format on fresh copies of the event.  lite: only formatEvent
    and formatEventAsClassicLogText (the latter is documented as time stamp + system + formatEvent text, i.e. the
    eventAsText text with default flags)."""
    bad = []
    calls = [("formatEvent", lambda ev: _fmt_mod.formatEvent(ev))]
    if not lite:
        calls.append(("_formatEvent", lambda ev: _fmt_mod._formatEvent(ev)))
    for name, call in calls:
        v = _violation(name, _outcome(call, make_event()))
        if v:
            bad.append(v)
    for tb, ts, sy in (() if lite else flags):
        v = _violation(
            "eventAsText(includeTraceback=%s, includeTimestamp=%s, includeSystem=%s)" % (tb, ts, sy),
            _outcome(_fmt_mod.eventAsText, make_event(), includeTraceback=tb, includeTimestamp=ts, includeSystem=sy))
        if v:
            bad.append(v)
    v = _violation("formatEventAsClassicLogText", _outcome(_fmt_mod.formatEventAsClassicLogText, make_event()),
                   none_ok=True)
    if v:
        bad.append(v)
    if unformattable:
        for err in (Boom("x"), BadExc()):
            v = _violation("formatUnformattableEvent", _outcome(_fmt_mod.formatUnformattableEvent, make_event(), err))
            if v:
                bad.append(v)
    return "; ".join(bad) if bad else None


def repr_is_hostile(kind):
    """Kinds whose repr misbehaves make the real code take its slowest path (it prints a traceback per value), so
    the scopes below are narrower for them."""
    return kind[1] not in ("ok", "sub")


class _Base(Bounded):
    prop = "C55"

    def __init__(self):
        self._last = (None, False)

    def nontrivial(self, case):
        """A case counts as non-trivial when the real code actually performed a hostile operation (the harness asks
        right after check(case))."""
        return self._last[0] == case and self._last[1]

    def _run(self, case, thunk):
        before = _TOUCH[0]
        r = thunk()
        self._last = (case, _TOUCH[0] != before)
        return r


# ---------------------------------------------------------------------------------------------------------------------
# 1. every short string over the delimiter alphabet as log_format
# ---------------------------------------------------------------------------------------------------------------------

ALPHABET = "{}a.[]()!:r0"


def _strings(alphabet, lo, hi):
    for k in range(lo, hi + 1):
        for t in itertools.product(alphabet, repeat=k):
            yield "".join(t)


class FormatStringAlphabet(_Base):
    title = ("every short string over the PEP-3101 / call-syntax delimiter alphabet as log_format of an event with "
             "hostile values: formatEvent and formatEventAsClassicLogText return text")
    scope = ("log_format = every string over the 12 characters '{}a.[]()!:r0' of length <= L and every '{' + w + '}' "
             "with |w| <= L, as str; event keys a and r hold a callable hostile object whose .a [0] [a] () lead to "
             "objects of the same kind.  quick: L = 4 for the kinds benign, (str raises, repr fine, format raises) with "
             "Exception and with a non-Exception BaseException; L = 3 for the kind str->bytes repr->None format->int.  "
             "thorough: L = 5 for benign and the Exception kind; L = 4 for the BaseException kind, (str->None, repr "
             "fine, format->bytes) and the repr-hostile kinds all three raise Exception, "
             "str->bytes repr->None format->int; L = 3 for all three raise a non-Exception BaseException / an "
             "exception whose own str and repr raise.  Exhaustive.  (Kinds with a misbehaving repr get the smaller "
             "L only because the real code then takes a ~0.5 ms path per call.)")
    functions = ["formatEvent", "eventAsText", "formatEventAsClassicLogText", "_formatEvent", "formatWithCall",
                 "formatUnformattableEvent"]

    def cases(self, tier, rng):
        if tier == "quick":
            plan = [(BENIGN, 4), (("exc", "ok", "exc"), 4), (("base", "ok", "base"), 4), (("bytes", "none", "int"), 3)]
        else:
            plan = [(BENIGN, 5), (("exc", "ok", "exc"), 5), (("base", "ok", "base"), 4), (("none", "ok", "bytes"), 4),
                    (("exc", "exc", "exc"), 4),
                    (("bytes", "none", "int"), 4), (("base", "base", "base"), 3), (("badexc", "badexc", "badexc"), 3)]
        for kind, n in plan:
            for s in _strings(ALPHABET, 0, n):
                yield (s, kind)
            for s in _strings(ALPHABET, n - 1, n):  # shorter wrapped strings are among the free strings above
                yield ("{" + s + "}", kind)

    def check(self, case):
        fmt, kind = case

        def make():
            return {"log_format": fmt, "a": CallVal(kind), "r": CallVal(kind)}

        return self._run(case, lambda: _check_new_api(make, lite=True))


# ---------------------------------------------------------------------------------------------------------------------
# 2. a grammar of fields (root, lookup path, conversion, specification, context) x hostile kinds
# ---------------------------------------------------------------------------------------------------------------------

ROOTS = ("a", "c()", "ce()", "cn()", "ck()", "a()", "c", "zz", "zz()", "", "()", "0", "w", "log_format")
PATHS = ("", ".a", ".z", ".e", ".n", ".k", "[0]", "[a]", "[z]", "[e]", "[n]", "[k]", ".c()", ".ce()", ".cn()", ".ck()",
         ".a()", ".c", ".a.a", ".a[0]", "[0].a", "[0][0]", ".c().a", ".c()[0]", ".c().c()", ".a.e", ".c().n",
         ".", "..a", ".a.", "[", "[]", "[0", "]", "[0]a", "[0]()", ".c()()", ".()", ".a .a", ".__class__", "._kind")
CONVS = ("", "!s", "!r", "!a", "!x", "!", "!rs")
SPECS = ("", ":", ":>4", ":4", ":x", ":{w}", ":>{w}", ":{a}", ":{a!r}", ":{zz}", ":{ce()}", ":{cn()}", ":{a:{w}}",
         ":{a:{a:{w}}}", ":{", ":}", ":{{", ":!r", "::", ":{a.e}", ":{c()}")
CONTEXTS = ("%s", "x%sy", "{{%s}}", "%s%s", "{%s", "%s}", "%s{a}", "{a}%s", "{{%s", "%s}}", "\n%s\n", "\xe9%s☃",
            "%s{a!r}", "{zz}%s")

CORE_FIELDS = ("a", "c()", "a.a", "a[0]", "a.c()", "ce()", "a.e", "zz", "w")
# narrower lists used under kinds whose repr misbehaves (slow path of the real code)
SLOW_ROOTS = ("a", "c()", "ce()", "cn()", "a()", "zz", "", "0")
SLOW_PATHS = ("", ".a", ".z", ".e", ".n", ".k", "[0]", "[z]", "[e]", ".c()", ".ce()", ".cn()", ".a.a", ".c().a",
              ".", "[", "[0]a", ".c()()")
SLOW_FIELDS = ("a", "c()", "a.e", "zz")
SLOW_SPECS = ("", ":>4", ":{w}", ":{a}", ":{zz}", ":{")
SLOW_CONTEXTS = ("%s", "x%sy", "%s%s", "{%s", "%s}", "%s{a!r}")


def _grammar_event(fmt, kind):
    return {"log_format": fmt, "a": Val(kind), "c": Fn("ok", kind), "ce": Fn("exc", kind), "cn": Fn("base", kind),
            "ck": Fn("badexc", kind), "w": 6}


class HostileFields(_Base):
    title = ("format fields built from a grammar (root, lookup path, call syntax, conversion, nested specification, "
             "context) over events whose values misbehave in str / repr / format / getattr / getitem / call: every "
             "formatter returns text")
    scope = ("field = root (14: hostile value, callables that return it / raise Exception / BaseException / an "
             "exception with raising str, non-callable called, missing key, empty, '()', positional 0, int, log_format) "
             "+ path (41: attribute, index, call steps up to depth 3 that exist / are missing / raise, malformed "
             "'.', '..a', '[', '[]', ']', '[0]a', '()()' ...) + conversion (7: none !s !r !a and malformed !x ! !rs) "
             "+ specification (21: plain, nested fields, nested hostile / missing / raising fields, nesting past the "
             "recursion limit, malformed) in a context (14: literal text, escaped / unbalanced braces, repeated field, "
             "neighbour fields).  Value kinds (s, r, f): the 33 'single-fault' kinds = benign, str-subclass results, "
             "and for each fault in {raise Exception, raise non-Exception BaseException, raise an exception whose own "
             "str/repr raise, return bytes, return None, return int}: only str / only repr / only format / str+repr / "
             "all three.  quick: (A) full root x path x conversion product under 5 kinds with a well-behaved repr, "
             "8 roots x 18 paths x {none, !r} under 2 repr-hostile kinds; (B) 9 core fields x {none, !r, !s} x (all "
             "specs alone + all contexts without spec) under the 15 single-fault kinds with a well-behaved repr, 4 "
             "fields x {none, !r} x (6 specs + 6 contexts) under the 18 repr-hostile ones; (C) 4 fields x {none, !r} "
             "x all 33 kinds through every formatter and all 8 eventAsText flag combinations.  thorough: (A) full "
             "product under all 33 kinds; (B) core fields x 3 conversions x specs x contexts under the 15 kinds, "
             "(specs + contexts) under the 18 repr-hostile kinds, 4 fields x 2 conversions x 6 specs under all 720 "
             "(s, r, f) kinds; (C) as quick with 9 fields; plus 15000 seeded random formats of 1..4 random fields "
             "with random literal text under random kinds.  (A), (B), random: formatEvent and "
             "formatEventAsClassicLogText")
    functions = ["formatEvent", "_formatEvent", "eventAsText", "formatEventAsClassicLogText", "formatWithCall",
                 "keycall", "PotentialCallWrapper.__getattr__", "PotentialCallWrapper.__getitem__",
                 "PotentialCallWrapper.__format__", "CallMapping.__getitem__", "formatUnformattableEvent"]

    def cases(self, tier, rng):
        quick = tier == "quick"
        single = single_fault_kinds()
        # (A) one field, no specification
        if quick:
            kinds_a = [BENIGN, ("exc", "ok", "dflt"), ("ok", "ok", "exc"), ("base", "ok", "base"),
                       ("bytes", "ok", "none"), ("ok", "exc", "dflt"), ("badexc", "badexc", "badexc")]
        else:
            kinds_a = single
        for kind in kinds_a:
            slow = quick and repr_is_hostile(kind)
            for root in (SLOW_ROOTS if slow else ROOTS):
                for path in (SLOW_PATHS if slow else PATHS):
                    for conv in (("", "!r") if slow else CONVS):
                        yield ("{" + root + path + conv + "}", kind, "lite")
        # (B) specifications and contexts
        for kind in single:
            slow = repr_is_hostile(kind)
            if slow and quick:
                fields, convs, specs, ctxs = SLOW_FIELDS, ("", "!r"), SLOW_SPECS, SLOW_CONTEXTS
            else:
                fields, convs, specs, ctxs = CORE_FIELDS, ("", "!r", "!s"), SPECS, CONTEXTS
            for f in fields:
                for conv in convs:
                    if quick or slow:
                        for spec in specs:
                            yield ("{" + f + conv + spec + "}", kind, "lite")
                        for ctx in ctxs[1:]:
                            yield (ctx.replace("%s", "{" + f + conv + "}"), kind, "lite")
                    else:
                        for spec in specs:
                            for ctx in ctxs:
                                yield (ctx.replace("%s", "{" + f + conv + spec + "}"), kind, "lite")
        if not quick:
            for kind in all_kinds():
                if kind in single:
                    continue
                for f in SLOW_FIELDS:
                    for conv in ("", "!r"):
                        for spec in SLOW_SPECS:
                            yield ("{" + f + conv + spec + "}", kind, "lite")
        # (C) every formatter and every flag combination
        for kind in single:
            for f in (SLOW_FIELDS if quick else CORE_FIELDS):
                for conv in ("", "!r"):
                    yield ("{" + f + conv + "}", kind, "flags")
        if not quick:
            kinds = all_kinds()
            text = ("", "", " ", "x", "{{", "}}", "{", "}", "\n", "\xe9")
            for _ in range(15000):
                parts = []
                for _i in range(rng.randint(1, 4)):
                    parts.append(rng.choice(text))
                    parts.append("{" + rng.choice(ROOTS) + rng.choice(PATHS) + rng.choice(PATHS[:27]) * rng.randint(0, 1)
                                 + rng.choice(CONVS) + rng.choice(SPECS) + "}")
                parts.append(rng.choice(text))
                yield ("".join(parts), rng.choice(kinds), "lite")

    def check(self, case):
        fmt, kind, mode = case
        if mode == "flags":
            return self._run(case, lambda: _check_new_api(lambda: _grammar_event(fmt, kind), FLAG_COMBOS))
        return self._run(case, lambda: _check_new_api(lambda: _grammar_event(fmt, kind), lite=True))


# ---------------------------------------------------------------------------------------------------------------------
# 3. odd log_format / log_flattened / keys: _formatEvent and formatUnformattableEvent
# ---------------------------------------------------------------------------------------------------------------------

class ReprOnly:
    """Hashable object usable as a dict key with hostile repr / str."""

    def __init__(self, kind):
        self._kind = kind

    def __repr__(self):
        return _act(self._kind[1], "K")

    def __str__(self):
        return _act(self._kind[0], "K")


def _format_value(name, kind):
    """log_format values: text, bytes and non-strings."""
    return {
        "absent": None, "none": None, "empty": "", "text": "x", "field": "{a}", "field-r": "{a!r}",
        "bytes": b"x", "bytes-field": b"{a}", "bytes-bad-utf8": b"\xff{a}", "bytes-empty": b"",
        "bytearray": bytearray(b"{a}"), "int": 5, "zero": 0, "false": False, "list": ["{a}"], "tuple": ("{a}",),
        "strsub": StrSub("{a}"), "hostile": Val(kind), "float-nan": float("nan"),
        "unbalanced": "{", "lone-close": "}", "surrogate": "\ud800{a}", "nul": "\x00{a}\x00",
    }[name]


FORMAT_NAMES = ("absent", "none", "empty", "text", "field", "field-r", "bytes", "bytes-field", "bytes-bad-utf8",
                "bytes-empty", "bytearray", "int", "zero", "false", "list", "tuple", "strsub", "hostile", "float-nan",
                "unbalanced", "lone-close", "surrogate", "nul")

FLATTENED_NAMES = ("absent", "real", "real-hostile-values", "empty-dict", "none", "int", "text", "list",
                   "real-missing-one", "hostile")

ERROR_NAMES = ("exception", "badexc", "str-bytes", "str-none", "nasty", "none", "text", "int", "hostile",
               "keyerror-hostile-arg", "exception-hostile-arg")


class _StrBytesExc(Exception):
    def __str__(self):
        return b"bytes"


class _StrNoneExc(Exception):
    def __str__(self):
        return None


def _error_value(name, kind):
    if name == "exception":
        return Boom("plain")
    if name == "badexc":
        return BadExc()
    if name == "str-bytes":
        return _StrBytesExc()
    if name == "str-none":
        return _StrNoneExc()
    if name == "nasty":
        return Nasty("n")
    if name == "none":
        return None
    if name == "text":
        return "not an exception"
    if name == "int":
        return 3
    if name == "hostile":
        return Val(kind)
    if name == "keyerror-hostile-arg":
        return KeyError(Val(kind))  # str(KeyError) is the repr of its argument
    if name == "exception-hostile-arg":
        return Exception(Val(kind))  # str(Exception) is the str of its argument
    raise AssertionError(name)


def _flattened_value(name, kind, fmt):
    if name == "absent":
        return None
    if name in ("real", "real-hostile-values", "real-missing-one"):
        ev = {"log_format": fmt, "a": "plain"}
        try:
            flattenEvent(ev)  # used only to obtain the key names the real code expects
        except Exception:
            raise Bounded.Skip()
        fl = ev.get("log_flattened")
        if not isinstance(fl, dict) or not fl:
            raise Bounded.Skip()
        if name == "real-hostile-values":
            return {k: Val(kind) for k in fl}
        if name == "real-missing-one":
            fl = dict(fl)
            del fl[sorted(fl)[0]]
        return fl
    return {"empty-dict": {}, "none": None, "int": 5, "text": "a!s:", "list": [1], "hostile": Val(kind)}[name]


class OddFormatsAndFallback(_Base):
    title = ("log_format of every type, already-flattened events of every shape, hostile keys and values: "
             "_formatEvent / formatEvent / eventAsText / classic text return text, and formatUnformattableEvent "
             "returns text for every (event, error)")
    scope = ("part 1: log_format in 23 values (absent, None, '', text, fields, bytes incl. invalid UTF-8, bytearray, "
             "int, 0, False, list, tuple, str subclass, hostile object, NaN, unbalanced braces, lone surrogate, NUL) x "
             "log_flattened in 10 shapes (absent, as produced by flattenEvent, the same with hostile values, with one "
             "key missing, {}, None, int, str, list, hostile object) x value kind (quick 13, thorough 33); part 2: "
             "formatUnformattableEvent(event, error) for events with 0..2 entries whose keys / values are hostile "
             "(repr raises / returns non-text), self-containing events, x 11 errors (Exception, exception whose str and "
             "repr raise, whose str returns bytes / None, non-Exception BaseException, None, text, int, hostile object, "
             "KeyError / Exception carrying a hostile argument) x kinds; exhaustive")
    functions = ["_formatEvent", "formatEvent", "eventAsText", "formatEventAsClassicLogText", "flatFormat",
                 "formatUnformattableEvent"]

    def cases(self, tier, rng):
        single = single_fault_kinds()
        kinds = single if tier != "quick" else [k for k in single if k[2] == "dflt" and k[0] == k[1] or
                                                k in (BENIGN, ("ok", "exc", "dflt"), ("exc", "ok", "dflt"),
                                                      ("ok", "none", "dflt"), ("ok", "badexc", "dflt"),
                                                      ("ok", "base", "dflt"), ("ok", "ok", "exc"))]
        for kind in kinds:
            for f in FORMAT_NAMES:
                for fl in FLATTENED_NAMES:
                    yield ("event", f, fl, kind)
        for kind in single:
            for shape in ("empty", "value", "key", "key-and-value", "two-values", "self", "nested-value",
                          "format-only"):
                for err in ERROR_NAMES:
                    yield ("unformattable", shape, err, kind)

    def check(self, case):
        if case[0] == "event":
            _, fname, flname, kind = case
            fmt_for_flatten = _format_value(fname, kind)
            if flname.startswith("real") and not isinstance(fmt_for_flatten, str):
                fmt_for_flatten = "{a}"
            fl = _flattened_value(flname, kind, fmt_for_flatten)

            def make():
                ev = {"a": Val(kind)}
                if fname != "absent":
                    ev["log_format"] = _format_value(fname, kind)
                if flname != "absent":
                    ev["log_flattened"] = dict(fl) if isinstance(fl, dict) else fl
                return ev

            return self._run(case, lambda: _check_new_api(make, unformattable=True))
        _, shape, ename, kind = case

        def make_ev():
            if shape == "empty":
                return {}
            if shape == "value":
                return {"a": Val(kind)}
            if shape == "key":
                return {ReprOnly(kind): 1}
            if shape == "key-and-value":
                return {ReprOnly(kind): Val(kind), "log_format": "{a}"}
            if shape == "two-values":
                return {"a": Val(BENIGN), "b": Val(kind), "log_namespace": "ns"}
            if shape == "self":
                ev = {"a": Val(kind)}
                ev["self"] = ev
                return ev
            if shape == "nested-value":
                return {"a": [1, {"k": (Val(kind),)}]}
            if shape == "format-only":
                return {"log_format": Val(kind)}
            raise AssertionError(shape)

        return self._run(case, lambda: _violation(
            "formatUnformattableEvent",
            _outcome(_fmt_mod.formatUnformattableEvent, make_ev(), _error_value(ename, kind))))


# ---------------------------------------------------------------------------------------------------------------------
# 4. odd log_time / log_system / log_level / log_namespace / log_failure
# ---------------------------------------------------------------------------------------------------------------------

class _Level:
    def __init__(self, name):
        self.name = name


class _LevelRaising:
    def __init__(self, exc):
        self._exc = exc

    @property
    def name(self):
        raise self._exc


class _TB:
    """Something in log_failure whose getTraceback misbehaves."""

    def __init__(self, beh):
        self._beh = beh

    def getTraceback(self, *a, **kw):
        return _act(self._beh, "Traceback: text\n")


def _real_failure(exc):
    try:
        raise exc
    except BaseException:
        return Failure()


def _failure_with_hostile_locals():
    def inner():
        local = Val(("exc", "exc", "exc"))  # noqa: F841  (captured by captureVars)
        raise Boom("with locals")
    try:
        inner()
    except Boom:
        return Failure(captureVars=True)


TIME_VALUES = {
    "absent": None, "none": None, "zero": 0, "zero-float": 0.0, "minus-one": -1, "fraction": 1.5, "now-ish": 1.6e9,
    "true": True, "year-5138": 1e11, "year-10000": 253402300800 + 2 * 86400, "year-0": -62135596800 - 2 * 86400,
    "1e18": 1e18, "minus-1e18": -1e18, "2**63": 2 ** 63, "2**31": 2 ** 31, "nan": float("nan"), "inf": float("inf"),
    "minus-inf": float("-inf"), "text": "bad", "digits-text": "1", "bytes": b"1", "list": [], "tuple": (1, 2),
    "decimal": decimal.Decimal("1.5"), "complex": 1j, "hostile": "HOSTILE",
}
SYSTEM_NAMES = ("absent", "none", "text", "empty", "bytes", "int", "tuple", "strsub",
                "str-exc", "str-base", "str-badexc", "str-bytes", "str-none", "str-int")
LEVEL_NAMES = ("absent", "none", "info", "critical", "text", "int", "name-text", "name-none", "name-int",
               "name-format-exc", "name-format-bytes", "name-str-exc", "name-raises-exc", "name-raises-base",
               "hostile")
NAMESPACE_NAMES = ("absent", "none", "text", "empty", "bytes", "int", "strsub", "format-exc", "format-base",
                   "format-bytes", "format-none", "str-exc", "str-bytes", "format-badexc")
FAILURE_NAMES = ("absent", "real", "real-badexc", "real-nasty", "real-hostile-arg", "real-locals", "none", "text",
                 "object", "hostile", "tb-ok", "tb-sub", "tb-exc", "tb-base", "tb-badexc", "tb-bytes", "tb-none",
                 "tb-int")
META_FORMATS = ("absent", "none", "empty", "text", "field-hostile", "bytes")


def _system_value(name):
    if name.startswith("str-"):
        return Val((name[4:], "ok", "dflt"))
    return {"none": None, "text": "sys", "empty": "", "bytes": b"sys", "int": 5, "tuple": ("t", 1),
            "strsub": StrSub("sys")}[name]


def _level_value(name):
    if name == "none":
        return None
    if name == "info":
        return LogLevel.info
    if name == "critical":
        return LogLevel.critical
    if name == "text":
        return "info"
    if name == "int":
        return 20
    if name == "name-text":
        return _Level("lvl")
    if name == "name-none":
        return _Level(None)
    if name == "name-int":
        return _Level(3)
    if name == "name-format-exc":
        return _Level(Val(("ok", "ok", "exc")))
    if name == "name-format-bytes":
        return _Level(Val(("ok", "ok", "bytes")))
    if name == "name-str-exc":
        return _Level(Val(("exc", "ok", "dflt")))
    if name == "name-raises-exc":
        return _LevelRaising(Boom("name"))
    if name == "name-raises-base":
        return _LevelRaising(Nasty("name"))
    if name == "hostile":
        return Val(("exc", "exc", "exc"))
    raise AssertionError(name)


def _namespace_value(name):
    if name.startswith("format-"):
        return Val(("ok", "ok", name[7:]))
    if name.startswith("str-"):
        return Val((name[4:], "ok", "dflt"))
    return {"none": None, "text": "ns", "empty": "", "bytes": b"ns", "int": 5, "strsub": StrSub("ns")}[name]


def _failure_value(name):
    if name == "real":
        return _real_failure(ValueError("real"))
    if name == "real-badexc":
        return _real_failure(BadExc())
    if name == "real-nasty":
        return _real_failure(Nasty("n"))
    if name == "real-hostile-arg":
        return _real_failure(KeyError(Val(("exc", "exc", "exc"))))
    if name == "real-locals":
        return _failure_with_hostile_locals()
    if name == "none":
        return None
    if name == "text":
        return "not a failure"
    if name == "object":
        return object()
    if name == "hostile":
        return Val(("exc", "exc", "exc"))
    if name.startswith("tb-"):
        return _TB(name[3:])
    raise AssertionError(name)


def _meta_event(fmt, time, system, level, namespace, failure):
    ev = {"a": Val(("exc", "ok", "dflt"))}
    if fmt != "absent":
        ev["log_format"] = {"none": None, "empty": "", "text": "x", "field-hostile": "{a}", "bytes": b"x"}[fmt]
    if time != "absent":
        v = TIME_VALUES[time]
        ev["log_time"] = Val(("exc", "exc", "exc")) if time == "hostile" else v
    if system != "absent":
        ev["log_system"] = _system_value(system)
    if level != "absent":
        ev["log_level"] = _level_value(level)
    if namespace != "absent":
        ev["log_namespace"] = _namespace_value(namespace)
    if failure != "absent":
        ev["log_failure"] = _failure_value(failure)
    return ev


class _Meta(_Base):
    """Cases are (log_format, log_time, log_system, log_level, log_namespace, log_failure) value names."""

    functions = ["eventAsText", "formatEvent", "formatEventAsClassicLogText", "formatTime", "_formatSystem",
                 "_formatTraceback", "_formatEvent"]

    def nontrivial(self, case):
        return True

    def check(self, case):
        return _check_new_api(lambda: _meta_event(*case), FLAG_COMBOS)


_META_VALUES = "log_time in 26 values (absent, None, 0, 0.0, -1, 1.5, 1.6e9, True, years 5138 / 10000 / 0, +-1e18, " \
               "2**63, 2**31, NaN, +-inf, 'bad', '1', b'1', [], tuple, Decimal, complex, hostile object)"


class OddTime(_Meta):
    title = ("events with an odd log_time: eventAsText (all 8 flag combinations), formatEvent, _formatEvent and "
             "formatEventAsClassicLogText (default formatTime) return text")
    scope = (_META_VALUES + " x log_format in 6 (absent, None, '', text, field of a value whose str raises, bytes) x "
             "log_failure in {absent, a real Failure}; the other fields absent; exhaustive")

    def cases(self, tier, rng):
        for t in TIME_VALUES:
            for f in META_FORMATS:
                for fa in ("absent", "real"):
                    yield (f, t, "absent", "absent", "absent", fa)


class OddSystem(_Meta):
    title = ("events with odd log_system / log_level / log_namespace: eventAsText (all 8 flag combinations), "
             "formatEvent, _formatEvent and formatEventAsClassicLogText return text")
    scope = ("log_system in 14 (absent, None, text, '', bytes, int, tuple, str subclass, objects whose str raises "
             "Exception / non-Exception BaseException / an exception with raising str, or returns bytes / None / int) "
             "x log_level in 15 (absent, None, LogLevel.info, LogLevel.critical, text, int, objects whose .name is "
             "text / None / int / a value with raising or bytes format / raising str, whose .name raises Exception / "
             "BaseException, object without .name) x log_namespace in 14 (absent, None, text, '', bytes, int, str "
             "subclass, objects whose format raises Exception / BaseException / exception with raising str or "
             "returns bytes / None, whose str raises / returns bytes) x (log_format, log_failure) in {(text, absent), "
             "(text, real Failure), (absent, real Failure)}, thorough also (absent, absent); valid or absent log_time; "
             "exhaustive")

    def cases(self, tier, rng):
        for s in SYSTEM_NAMES:
            for lv in LEVEL_NAMES:
                for ns in NAMESPACE_NAMES:
                    for f, fa in (("text", "absent"), ("text", "real"), ("absent", "real"), ("absent", "absent")):
                        if (f, fa) == ("absent", "absent") and tier == "quick":
                            continue  # documented: empty text, nothing else is looked at
                        yield (f, "absent" if fa == "absent" else "now-ish", s, lv, ns, fa)


class OddFailure(_Meta):
    title = ("events with an odd log_failure: eventAsText (all 8 flag combinations), formatEvent, _formatEvent and "
             "formatEventAsClassicLogText return text")
    scope = ("log_failure in 18 (absent, real Failures: of ValueError, of an exception whose own str and repr raise, "
             "of a non-Exception BaseException, of a KeyError carrying a hostile argument, with captured hostile "
             "locals; None, text, object(), hostile object; objects whose getTraceback returns text / str subclass / "
             "bytes / None / int or raises Exception / BaseException / an exception with raising str) x log_format in "
             "6 (absent, None, '', text, field of a value whose str raises, bytes) x log_time in {absent, 0, 1.6e9}; "
             "the other fields absent; exhaustive")

    def cases(self, tier, rng):
        for fa in FAILURE_NAMES:
            for f in META_FORMATS:
                for t in ("absent", "zero", "now-ish"):
                    yield (f, t, "absent", "absent", "absent", fa)


class OddMetaCombined(_Meta):
    title = ("events in which two (thorough: all) of log_format / log_time / log_system / log_level / log_namespace "
             "/ log_failure are odd at once: eventAsText (all 8 flag combinations), formatEvent, _formatEvent and "
             "formatEventAsClassicLogText return text")
    scope = ("value lists of OddTime / OddSystem / OddFailure; every pair of the six fields takes every pair of its "
             "values while the remaining fields are at their plain value (log_format text, others absent): all "
             "2-way combinations, exhaustive; thorough adds 30000 seeded random draws of all six fields")

    def cases(self, tier, rng):
        dims = (META_FORMATS, tuple(TIME_VALUES), SYSTEM_NAMES, LEVEL_NAMES, NAMESPACE_NAMES, FAILURE_NAMES)
        plain = ("text", "absent", "absent", "absent", "absent", "absent")
        seen = set()
        for i, j in itertools.combinations(range(6), 2):
            for vi in dims[i]:
                for vj in dims[j]:
                    c = list(plain)
                    c[i], c[j] = vi, vj
                    c = tuple(c)
                    if c not in seen:
                        seen.add(c)
                        yield c
        if tier != "quick":
            for _ in range(30000):
                c = tuple(rng.choice(d) for d in dims)
                if c not in seen:
                    seen.add(c)
                    yield c


# ---------------------------------------------------------------------------------------------------------------------
# 5. the legacy formatter (twisted.python.log)
# ---------------------------------------------------------------------------------------------------------------------

PERCENT_ALPHABET = "%()azsrd*"


def _legacy_dict(kind):
    return {"a": Val(kind), "message": (), "isError": 0, "system": "-", "time": 0.0}


def _legacy_kinds(tier):
    if tier != "quick":
        return single_fault_kinds()
    return [BENIGN, ("exc", "exc", "exc"), ("bytes", "none", "int"), ("base", "base", "base"),
            ("badexc", "badexc", "badexc")]


class LegacyFormat(_Base):
    title = ("twisted.python.log: _safeFormat(fmt, dict) returns text, and textFromEventDict with format=fmt returns "
             "text, for every short %-format, as str and as bytes, over hostile values")
    scope = ("fmt = every string over the 9 characters '%()azsrd*' of length <= L plus '%(a)' + every string of length "
             "<= L-2, each as str and as bytes, and None / int / list / hostile object / str subclass in place of the "
             "format; the dict holds key a with a hostile value, and message=() isError=0 (documented as required).  "
             "quick: L = 4 under 5 kinds (benign; str/repr/format all raising Exception / BaseException / an "
             "exception with raising str; returning bytes / None / int).  thorough: L = 5 under benign and "
             "all-raise-Exception, L = 4 under the other three, L = 3 under the remaining 28 single-fault kinds.  "
             "Exhaustive")
    functions = ["_safeFormat", "textFromEventDict"]

    def cases(self, tier, rng):
        def fmts(n):
            return list(_strings(PERCENT_ALPHABET, 0, n)) + ["%(a)" + s for s in _strings(PERCENT_ALPHABET, 0, n - 2)]

        if tier == "quick":
            plan = [(k, 4) for k in _legacy_kinds("quick")]
        else:
            five = [BENIGN, ("exc", "exc", "exc")]
            four = [k for k in _legacy_kinds("quick") if k not in five]
            plan = ([(k, 5) for k in five] + [(k, 4) for k in four] +
                    [(k, 3) for k in single_fault_kinds() if k not in five and k not in four])
        for kind, n in plan:
            for f in fmts(n):
                yield ("str", f, kind)
                yield ("bytes", f, kind)
            for other in ("none", "int", "list", "hostile", "strsub"):
                yield (other, "%(a)s", kind)

    def check(self, case):
        typ, f, kind = case
        if typ == "str":
            fmt = f
        elif typ == "bytes":
            fmt = f.encode("ascii")
        else:
            fmt = {"none": None, "int": 5, "list": [f], "hostile": Val(kind), "strsub": StrSub(f)}[typ]

        def both():
            bad = []
            v = _violation("_safeFormat", _outcome(_legacy._safeFormat, fmt, _legacy_dict(kind)))
            if v:
                bad.append(v)
            d = _legacy_dict(kind)
            d["format"] = fmt
            v = _violation("textFromEventDict", _outcome(_legacy.textFromEventDict, d), none_ok=True)
            if v:
                bad.append(v)
            return "; ".join(bad) if bad else None

        return self._run(case, both)


class LegacyEvent(_Base):
    title = ("twisted.python.log.textFromEventDict returns text or None for hostile message items, why, failure and "
             "isError combinations")
    scope = ("message = tuples of 0..2 items from {text, bytes, invalid UTF-8 bytes, None, int, hostile value} x isError "
             "{0, 1}; for the empty message: failure in 18 values (as in OddFailure) x why in 8 (absent, None, '', "
             "text, bytes, int, objects whose str raises / returns bytes) x format {absent, '%(a)s'}; for non-empty "
             "messages failure {absent, real} x why {absent, str raises} x format {absent, '%(a)s'} under the benign "
             "kind and all absent under the others; hostile value kinds: 5 (thorough 33); message and isError always "
             "present (documented as required); exhaustive")
    functions = ["textFromEventDict", "_safeFormat"]

    def cases(self, tier, rng):
        kinds = _legacy_kinds(tier)
        items = ("text", "bytes", "bad-utf8", "none", "int", "hostile")
        messages = [()] + [(x,) for x in items] + [(x, y) for x in items for y in items]
        whys = ("absent", "none", "empty", "text", "bytes", "int", "str-exc", "str-bytes")
        for kind in kinds:
            for m in messages:
                for is_error in (0, 1):
                    for fa in (("absent", "real") if m else FAILURE_NAMES):
                        for why in (whys if not m else ("absent", "str-exc")):
                            for f in ("absent", "%(a)s"):
                                if m and (fa, why, f) != ("absent", "absent", "absent") and kind is not kinds[0]:
                                    continue  # a non-empty message is documented to take priority
                                yield (m, is_error, fa, why, f, kind)

    def nontrivial(self, case):
        return True

    def check(self, case):
        m, is_error, fa, why, f, kind = case

        def item(x):
            return {"text": "t\xe9", "bytes": b"b", "bad-utf8": b"\xff", "none": None, "int": 3,
                    "hostile": Val(kind)}[x]

        d = _legacy_dict(kind)
        d["message"] = tuple(item(x) for x in m)
        d["isError"] = is_error
        if fa != "absent":
            d["failure"] = _failure_value(fa)
        if why != "absent":
            d["why"] = (Val((why[4:], "ok", "dflt")) if why.startswith("str-") else
                        {"none": None, "empty": "", "text": "why", "bytes": b"why", "int": 4}[why])
        if f != "absent":
            d["format"] = f
        return _violation("textFromEventDict", _outcome(_legacy.textFromEventDict, d), none_ok=True)


BOUNDED = [FormatStringAlphabet, HostileFields, OddFormatsAndFallback, OddTime, OddSystem, OddFailure,
           OddMetaCombined, LegacyFormat, LegacyEvent]
