"""C48 bounded tier: HTTP Digest credentials verify exactly the right responses.

Every case builds a little world: a controlled clock, one or two real
DigestCredentialFactory objects, a few challenges issued by them to client
addresses at known times, and then ONE Authorization parameter string (the
"response") that is handed to the real decode() from some client address at
some later time.  The credentials object that comes back is asked
checkPassword(q) for every q of a small password set.

Oracle (written from the property statement, RFC 2617 section 3.2.2 and
RFC 7235's auth-param grammar; nothing here looks at how twisted parses the
header or how it builds its opaque):

 * The harness itself is the issuer's ledger: it remembers every (nonce,
   opaque, address, issue time) the factory under test handed out.  A response
   is bound to an unaltered challenge iff its nonce and opaque parameters are
   *byte for byte* one issued pair; it comes from the right client iff the
   address equals the address the challenge was issued to (port numbers do not
   count, `None` and "" both mean "no address"); it is within the lifetime iff
   now - issue <= CHALLENGE_LIFETIME_SECS (the documented class constant).
 * The response digest is recomputed with hashlib from the parameters of the
   response, the factory's realm, the request method and the candidate
   password q, by the RFC 2617 formulas (request-digest with qop, and the
   RFC 2069 compatible form without).
 * `ref_parse` is a strict reading of `#auth-param` (token / quoted-string,
   quoted-pair, OWS, BWS, empty list elements, case-insensitive unique names).

The oracle is three valued.  ACCEPT is demanded only for the mainstream form
(lower-case names, no quoted-pairs, no whitespace at value edges, qop=auth
with 8LHEX nc and a cnonce, algorithm equal to the challenge's (or absent for
md5), exact lower-case hex digest, realm echoed, clearly inside the lifetime).
REJECT is demanded when *no* reasonable reading of the header makes it a
correct digest for q over an issued challenge for this address inside its
lifetime (several readings are tried: raw / unescaped quoted-pairs, exact /
edge-trimmed values, case-sensitive / insensitive names, "this header is
malformed").  Everything in between (legacy RFC 2069 responses, an algorithm
other than the challenged one, one second around the lifetime limit, odd
spellings) is EITHER and never reported.  For a header that is malformed by the
strict grammar the demand is only: no wrong password is ever accepted, and
nothing is accepted unless the nonce of a challenge that is valid here and now
occurs literally in the header.

Independently of all that: decode() may raise only a login failure
(cred.error.LoginFailed / Unauthorized) and checkPassword() must return a bool
(or raise a login failure); any other exception is a violation ("never another
exception").

Failure strings start with a stable tag:
   EXC decode <ExcType> ...          EXC checkPassword <ExcType> ...
   ACCEPTED-INVALID[<reason>] ...    REFUSED-VALID ...
"""
from __future__ import annotations

import hashlib
import os
import random
import time as _time

from twisted.cred import error as _cred_error
from twisted.cred.credentials import DigestCredentialFactory as _CredFactory
from twisted.internet.address import IPv4Address, IPv6Address
from twisted.web._auth.digest import DigestCredentialFactory as _WebFactory

from pyvc.api import Bounded

REALM = b"test realm"
LIFETIME = _CredFactory.CHALLENGE_LIFETIME_SECS

ACCEPT, EITHER, REJECT = "ACCEPT", "EITHER", "REJECT"

PASSWORDS = (b"secret", b"secreT", b"", b"secret:x")

# --------------------------------------------------------------------------
# RFC 2617 digest arithmetic (reference, hashlib only)

_HASHES = {b"md5": hashlib.md5, b"md5-sess": hashlib.md5, b"sha": hashlib.sha1}


def _H(algo, data):
    return _HASHES[algo](data).hexdigest().encode("ascii")


def rfc_digest(algo, form, user, realm, password, method, uri, nonce, nc, cnonce, qop):
    """request-digest of RFC 2617 3.2.2.1; form "auth" = with qop, "legacy" = RFC 2069."""
    ha1 = _H(algo, user + b":" + realm + b":" + password)
    if algo == b"md5-sess":
        ha1 = _H(algo, ha1 + b":" + nonce + b":" + (cnonce or b""))
    ha2 = _H(algo, method + b":" + uri)
    if form == "auth":
        return _H(algo, b":".join((ha1, nonce, nc, cnonce, qop, ha2)))
    return _H(algo, b":".join((ha1, nonce, ha2)))


def client_digest(fields, realm, password, method):
    """What an RFC 2617 client puts into response= for these parameters."""
    algo = (fields.get("algorithm") or b"md5").lower()
    if algo not in _HASHES:
        algo = b"md5"
    qop = fields.get("qop")
    if qop is not None:
        return rfc_digest(algo, "auth", fields["username"], realm, password, method,
                          fields["uri"], fields["nonce"], fields.get("nc") or b"",
                          fields.get("cnonce") or b"", qop)
    return rfc_digest(algo, "legacy", fields["username"], realm, password, method,
                      fields["uri"], fields["nonce"], None, fields.get("cnonce"), None)


# --------------------------------------------------------------------------
# strict reference parser for  #auth-param  (RFC 7235 2.1, RFC 7230 3.2.6 / 7)

_TCHAR = frozenset(b"!#$%&'*+-.^_`|~0123456789abcdefghijklmnopqrstuvwxyzABCDEFGHIJKLMNOPQRSTUVWXYZ")
_OWS = frozenset(b" \t")


def _qdtext(c):
    return c in (0x09, 0x20, 0x21) or 0x23 <= c <= 0x5B or 0x5D <= c <= 0x7E or c >= 0x80


def _quotable(c):
    return c in (0x09, 0x20) or 0x21 <= c <= 0x7E or c >= 0x80


def ref_parse(h):
    """None if `h` is not a well-formed auth-param list, else (items, plain) where
    items = [(name_as_written, raw_value, unescaped_value)] and plain says that
    only the everyday syntax was used (", " / "," separators, no BWS, no empty
    elements, no HTAB, no quoted-pair)."""
    n = len(h)
    i = 0
    items = []
    seen = set()
    plain = not (n and (h[0] in _OWS or h[n - 1] in _OWS))

    def ows(i):
        while i < n and h[i] in _OWS:
            i += 1
        return i

    need_comma = False
    while True:
        j = ows(i)
        if h[i:j].count(b"\t"):
            plain = False
        i = j
        if i >= n:
            break
        if h[i] == 0x2C:
            if not need_comma or h[i - 1] in _OWS:
                plain = False  # empty list element, or whitespace in front of a comma
            need_comma = False
            i += 1
            continue
        if need_comma:
            return None
        j = i
        while j < n and h[j] in _TCHAR:
            j += 1
        if j == i:
            return None
        name = h[i:j]
        i = ows(j)
        if i != j:
            plain = False
        if i >= n or h[i] != 0x3D:
            return None
        j = ows(i + 1)
        if j != i + 1:
            plain = False
        i = j
        if i < n and h[i] == 0x22:
            i += 1
            raw = bytearray()
            val = bytearray()
            while True:
                if i >= n:
                    return None
                c = h[i]
                if c == 0x22:
                    i += 1
                    break
                if c == 0x5C:
                    if i + 1 >= n or not _quotable(h[i + 1]):
                        return None
                    raw += h[i:i + 2]
                    val.append(h[i + 1])
                    plain = False
                    i += 2
                    continue
                if not _qdtext(c):
                    return None
                if c == 0x09:
                    plain = False
                raw.append(c)
                val.append(c)
                i += 1
            raw, val = bytes(raw), bytes(val)
        else:
            j = i
            while j < n and h[j] in _TCHAR:
                j += 1
            if j == i:
                return None
            raw = val = h[i:j]
            i = j
        low = name.lower()
        if low in seen:
            return None
        seen.add(low)
        items.append((name, raw, val))
        need_comma = True
    return items, plain


# --------------------------------------------------------------------------
# the oracle


def _norm_addr(a):
    if a is None:
        return b""
    if isinstance(a, str):
        return a.encode("ascii")
    return bytes(a)


def _is_8lhex(b):
    return len(b) == 8 and all(c in b"0123456789abcdef" for c in b)


class Ctx:
    """The ledger of one world."""

    def __init__(self):
        self.algo = b"md5"
        self.realm = REALM
        self.issued = []      # (nonce, opaque, address, issue_time) by the factory under test
        self.from_addr = None
        self.now = 0.0
        self.method = b"GET"
        self.p_used = b""     # the only password any digest in this world was computed with


def _valid_challenge(ctx, nonce, opaque):
    """-> (grade, reason) for the challenge/address/lifetime part."""
    found = [c for c in ctx.issued if c[0] == nonce and c[1] == opaque]
    if not found:
        # a different spelling of an issued opaque that base64-decodes to the same bytes (unused trailing bits of the
        # last sextet): still altered text, so still to be refused, but named apart (known finding)
        import base64 as _b64
        import binascii as _ba

        def _dec(o):
            try:
                d, _, b = o.partition(b"-")
                return d, _b64.b64decode(b, validate=True)
            except (_ba.Error, ValueError):
                return None
        mine = _dec(opaque)
        if mine is not None and any(c[0] == nonce and _dec(c[1]) == mine for c in ctx.issued):
            return REJECT, "opaque-noncanonical-base64"
        return REJECT, "no-such-challenge"
    grade = ACCEPT
    c = found[0]
    if _norm_addr(c[2]) != _norm_addr(ctx.from_addr):
        return REJECT, "other-address"
    if (c[2] is None) != (ctx.from_addr is None):
        grade = EITHER
    elapsed = ctx.now - c[3]
    if elapsed >= LIFETIME + 1:
        return REJECT, "expired"
    if elapsed > LIFETIME - 1 or elapsed < 0:
        grade = EITHER
    return grade, ""


def _core(F, ctx, q):
    """F: dict name -> value under ONE reading.  -> (grade, reason)."""
    user = F.get("username")
    nonce = F.get("nonce")
    opaque = F.get("opaque")
    uri = F.get("uri")
    resp = F.get("response")
    if not user:
        return REJECT, "no-username"
    if nonce is None or opaque is None or uri is None or resp is None:
        return REJECT, "missing-field"
    grade, why = _valid_challenge(ctx, nonce, opaque)
    if grade == REJECT:
        return grade, why
    alg = F.get("algorithm")
    algl = b"md5" if alg is None else alg.lower()
    if algl not in _HASHES:
        return REJECT, "unknown-algorithm"
    if algl != ctx.algo.lower():
        grade = EITHER
    qop = F.get("qop")
    nc = F.get("nc")
    cnonce = F.get("cnonce")
    args = (user, ctx.realm, q, ctx.method, uri, nonce)
    plausible = {
        rfc_digest(algl, "legacy", *args, None, cnonce, None),
        rfc_digest(algl, "auth", *args, nc or b"", cnonce or b"", b"auth" if qop is None else qop),
    }
    if qop == b"auth-int":
        # a server could hash an (empty) entity body; we never do, but allow the reading
        ha1 = _H(algl, user + b":" + ctx.realm + b":" + q)
        ha2 = _H(algl, ctx.method + b":" + uri + b":" + _H(algl, b""))
        plausible.add(_H(algl, b":".join((ha1, nonce, nc or b"", cnonce or b"", qop, ha2))))
    mainstream = qop == b"auth" and nc is not None and _is_8lhex(nc) and bool(cnonce)
    if mainstream and resp == rfc_digest(algl, "auth", *args, nc, cnonce, b"auth"):
        pass
    elif resp.lower() in plausible:
        grade = EITHER
    else:
        return REJECT, "digest-mismatch"
    if F.get("realm") != ctx.realm:
        grade = EITHER
    return grade, ""


def _malformed_expect(h, ctx, q):
    if q != ctx.p_used:
        return REJECT, "malformed+wrong-password"
    for c in ctx.issued:
        if c[0] in h and _valid_challenge(ctx, c[0], c[1])[0] != REJECT:
            return EITHER, ""
    return REJECT, "malformed+no-valid-challenge"


def expect(h, ctx, q, parsed=False):
    """-> (ACCEPT | EITHER | REJECT, reason)"""
    if parsed is False:
        parsed = ref_parse(h)
    results = []
    if parsed is None:
        return _malformed_expect(h, ctx, q)
    items, plain = parsed
    if not plain:
        results.append(_malformed_expect(h, ctx, q))
    readings = []
    for names_ci in (True, False):
        for unescape in (True, False):
            for trim in (False, True):
                F = {}
                for name, raw, val in items:
                    k = (name.lower() if names_ci else name).decode("ascii")
                    v = val if unescape else raw
                    if trim:
                        v = v.strip(b" \t")
                    F[k] = v
                if F not in readings:
                    readings.append(F)
    first = len(results)
    for F in readings:
        results.append(_core(F, ctx, q))
    grades = {g for g, _ in results}
    if grades == {ACCEPT}:
        return ACCEPT, ""
    if grades == {REJECT}:
        return REJECT, results[first][1]
    return EITHER, ""


# --------------------------------------------------------------------------
# the world: controlled clock and reproducible "secure" randomness


class World:
    def __init__(self, seed):
        self.now = 0.0
        self._rng = random.Random(seed)

    def _urandom(self, n):
        return bytes(self._rng.getrandbits(8) for _ in range(n))

    def _time(self):
        return self.now

    def __enter__(self):
        self._saved = (_time.time, os.urandom)
        _time.time = self._time
        os.urandom = self._urandom
        return self

    def __exit__(self, *exc):
        _time.time, os.urandom = self._saved
        return False

    def pin(self, factory):
        inner = getattr(factory, "digest", factory)
        if hasattr(inner, "_getTime"):
            inner._getTime = self._time


class _Request:
    def __init__(self, method, host, port):
        self.method = method
        if ":" in host:
            self._addr = IPv6Address("TCP", host, port)
        else:
            self._addr = IPv4Address("TCP", host, port)

    def getClientAddress(self):
        return self._addr


class Server:
    """The factory under test, reached either directly (twisted.cred) or through
    the twisted.web wrapper with a request object."""

    def __init__(self, world, via, algo, realm):
        self.via = via
        self.world = world
        self.factory = (_WebFactory if via == "web" else _CredFactory)(algo, realm)
        world.pin(self.factory)
        self._port = 40000

    def challenge(self, addr):
        if self.via == "web":
            self._port += 1
            ch = self.factory.getChallenge(_Request(b"GET", addr, self._port))
        else:
            ch = self.factory.getChallenge(addr)
        return ch["nonce"], ch["opaque"], addr, self.world.now

    def decode(self, h, method, addr):
        if self.via == "web":
            self._port += 1
            return self.factory.decode(h, _Request(method, addr, self._port))
        return self.factory.decode(h, method, addr)


_LOGIN_FAILURES = (_cred_error.LoginFailed, _cred_error.Unauthorized)


def observe(server, h, method, addr, passwords):
    """-> ("exc", text) or ("ok", [bool per password])"""
    try:
        cred = server.decode(h, method, addr)
    except _LOGIN_FAILURES:
        return "ok", [False] * len(passwords)
    except Exception as e:
        return "exc", "EXC decode %s %s" % (type(e).__name__, str(e)[:80])
    if cred is None:
        return "ok", [False] * len(passwords)
    out = []
    for q in passwords:
        try:
            r = cred.checkPassword(q)
        except _LOGIN_FAILURES:
            r = False
        except Exception as e:
            return "exc", "EXC checkPassword %s %s (password %r)" % (type(e).__name__, str(e)[:80], q)
        if not isinstance(r, bool):
            return "exc", "EXC checkPassword non-bool result %r" % (r,)
        out.append(r)
    return "ok", out


_LAST = {"nontrivial": True}


class _C48(Bounded):
    prop = "C48"

    def nontrivial(self, case):
        return _LAST["nontrivial"]


def judge(server, ctx, h, passwords=PASSWORDS):
    kind, obs = observe(server, h, ctx.method, ctx.from_addr, passwords)
    _LAST["nontrivial"] = True
    if kind == "exc":
        return "%s; header %r" % (obs, h)
    parsed = ref_parse(h)
    wants = [expect(h, ctx, q, parsed) for q in passwords]
    # a case says something when the oracle demanded an outcome for at least one password
    _LAST["nontrivial"] = any(w != EITHER for w, _ in wants)
    for q, got, (want, why) in zip(passwords, obs, wants):
        if want == ACCEPT and not got:
            return "REFUSED-VALID password %r refused; header %r" % (q, h)
        if want == REJECT and got:
            return "ACCEPTED-INVALID[%s] password %r (digest made with %r) accepted; header %r" % (
                why, q, ctx.p_used, h)
    return None


# --------------------------------------------------------------------------
# writing a response header

# a style = (separator, names of parameters written as tokens, order, extra)
ORDER_A = ("username", "realm", "nonce", "uri", "response", "opaque", "qop", "nc", "cnonce", "algorithm")
ORDER_B = ("opaque", "cnonce", "algorithm", "nc", "response", "qop", "uri", "nonce", "realm", "username")
TOK = ("qop", "nc", "algorithm")
STYLES = {
    "browser": (b", ", TOK, ORDER_A, None),
    "tight": (b",", TOK, ORDER_A, None),
    "quoted": (b", ", (), ORDER_A, None),
    "reordered": (b", ", TOK, ORDER_B, (b"x", b'"a, username=mallory, nonce=0, opaque=0"')),
    "folded": (b",\r\n  ", TOK, ORDER_A, None),
}
MAINSTREAM_STYLES = ("browser", "tight", "quoted", "reordered")


def write_header(fields, style):
    """Values go in raw (no escaping): what the mutated client puts on the wire."""
    sep, tokens, order, extra = STYLES[style]
    parts = []
    for k in order:
        if k not in fields:
            continue
        v = fields[k]
        if isinstance(v, tuple):            # a duplicated parameter
            for one in v:
                parts.append(k.encode("ascii") + b'="' + one + b'"')
            continue
        if k in tokens:
            parts.append(k.encode("ascii") + b"=" + v)
        else:
            parts.append(k.encode("ascii") + b'="' + v + b'"')
        if extra and k == order[2]:
            parts.append(extra[0] + b"=" + extra[1])
    return sep.join(parts)


USERS = (b"bob", b"b b", b"a,b=c", b"b\xc3\xb6b")
URIS = (b"/", b"/p?x=1,y=2", b"/p?a=1, nonce=zzz, opaque=zzz")


def base_fields(ctx, nonce, opaque, user, uri, form, algo_field, password, digest_method=None):
    f = {"username": user, "realm": ctx.realm, "nonce": nonce, "uri": uri, "opaque": opaque}
    if form == "auth":
        f.update(qop=b"auth", nc=b"00000001", cnonce=b"0a4f113b")
    if algo_field is not None:
        f["algorithm"] = algo_field
    f["response"] = client_digest(f, ctx.realm, password, digest_method or ctx.method)
    return f


# --------------------------------------------------------------------------
# class 1: histories


ADDRS_CRED = (None, "", "10.0.0.1", "10.0.0.10", b"10.0.0.1", "::1", "2001:db8::1", "fe80::1%eth0")
ADDRS_WEB = ("10.0.0.1", "10.0.0.10", "::1", "2001:db8::1")
BASES = (1000000000.0, 1000000000.75, 300.0)
ELAPSED = (0, 0.5, 7, LIFETIME - 301, LIFETIME - 299, LIFETIME - 1, LIFETIME - 0.5, LIFETIME,
           LIFETIME + 0.5, LIFETIME + 1, LIFETIME + 8, 2 * LIFETIME, 10 ** 6)
# which issued challenge supplies the nonce / the opaque:
#   0 = the main one (address A, time T0), 1 = same address, issued 300 s earlier,
#   2 = issued at T0 to the *responding* address if that differs from A (else to a third address),
#   X = issued by another factory (same realm and algorithm) to address A at T0
PAIRS = ((0, 0), (1, 1), (2, 2), (0, 1), (1, 0), (0, 2), (2, 0), ("X", "X"), (0, "X"), ("X", 0))


class DigestHistories(_C48):
    title = ("real getChallenge/decode/checkPassword over issued-challenge histories with a controlled clock "
             "vs. a ledger of issued challenges + hashlib RFC 2617 digest")
    scope = ("algorithms md5, sha; reached via twisted.cred directly and via the twisted.web wrapper (ports vary); "
             "4 challenges per world (main, same address 300 s earlier, another address, another factory); "
             "every nonce/opaque pairing of them (10); issue/response addresses from 8 (cred) resp. 4 (web) "
             "literals incl. None, '', bytes, IPv6, a proper prefix of another; 13 elapsed times around 0, "
             "lifetime-300, lifetime (+-0.5, +-1), 2x, 1e6; 3 clock bases incl. a fractional one; 5 header "
             "styles x 4 usernames x 3 URIs x auth/legacy form x algorithm parameter present/absent/upper-case/md5-sess; "
             "digest made with each of 4 passwords and checked against all 4; digest made for another method. "
             "Quick = structured slices of that product, thorough = wider slices + seeded random worlds.")
    functions = ["DigestCredentialFactory.getChallenge", "DigestCredentialFactory._generateOpaque",
                 "DigestCredentialFactory._verifyOpaque", "DigestCredentialFactory.decode",
                 "DigestedCredentials.checkPassword", "twisted.web._auth.digest.DigestCredentialFactory.decode"]

    # case = (via, algo, addr_issue, addr_from, base, elapsed, pair, style, user, uri, form, algfield, p, dmethod)
    def cases(self, tier, rng):
        seen = set()

        def emit(*c):
            if c not in seen:
                seen.add(c)
                return True
            return False

        thorough = tier != "quick"
        out = []
        for algo in (b"md5", b"sha"):
            algf = algo
            for via, addrs in (("cred", ADDRS_CRED), ("web", ADDRS_WEB)):
                # (a) every address pair, at the two decisive times, own challenge and other-address challenge
                for a in addrs:
                    for b in addrs:
                        for el in (0, LIFETIME + 1) if not thorough else ELAPSED:
                            for pair in ((0, 0), (2, 2), (0, 2)) if not thorough else PAIRS:
                                out.append((via, algo, a, b, BASES[0], el, pair, "browser", 0, 1, "auth", algf, 0, None))
                # (b) every time x every pairing, same and different address
                for a, b in ((addrs[2], addrs[2]), (addrs[2], addrs[3]), (addrs[0], addrs[0])):
                    for base in BASES:
                        for el in ELAPSED:
                            for pair in PAIRS:
                                out.append((via, algo, a, b, base, el, pair, "browser", 0, 1, "auth", algf, 0, None))
                # (c) every spelling of a response, valid world and expired world
                a = addrs[2]
                for el in (7, LIFETIME + 8):
                    for style in STYLES:
                        for user in range(len(USERS)):
                            for uri in range(len(URIS)):
                                for form in ("auth", "legacy"):
                                    # md5-sess in other spellings too: the legacy form has no cnonce, so a spelling that
                                    # slips past decode()'s checks makes checkPassword raise (seeded change C48-2)
                                    for af in (algo, None, algo.upper(), b"md5-sess", b"MD5-sess", b"Md5-Sess"):
                                        out.append((via, algo, a, a, BASES[0], el, (0, 0), style, user, uri, form, af, 0, None))
                # (d) passwords and methods
                for el in (7, LIFETIME + 8):
                    for p in range(len(PASSWORDS)):
                        for dm in (None, b"POST", b"GE"):
                            for form in ("auth", "legacy"):
                                out.append((via, algo, a, a, BASES[0], el, (0, 0), "browser", 0, 1, form, algf, p, dm))
        for c in out:
            if emit(*c):
                yield c
        if thorough:
            for _ in range(60000):
                via = rng.choice(("cred", "web"))
                addrs = ADDRS_CRED if via == "cred" else ADDRS_WEB
                algo = rng.choice((b"md5", b"sha"))
                c = (via, algo, rng.choice(addrs), rng.choice(addrs),
                     rng.choice(BASES + (float(rng.randrange(10 ** 3, 2 * 10 ** 9)) + rng.random(),)),
                     rng.choice(ELAPSED + (rng.randrange(0, 3 * LIFETIME) + rng.choice((0, 0.25, 0.999)),)),
                     rng.choice(PAIRS), rng.choice(tuple(STYLES)), rng.randrange(len(USERS)),
                     rng.randrange(len(URIS)), rng.choice(("auth", "legacy")),
                     rng.choice((algo, None, algo.upper(), b"md5", b"sha", b"md5-sess")),
                     rng.randrange(len(PASSWORDS)), rng.choice((None, None, b"POST")))
                if emit(*c):
                    yield c

    def check(self, case):
        via, algo, a_issue, a_from, base, el, pair, style, ui, ri, form, algf, pi, dmethod = case
        with World(repr(case[:5])) as w:
            ctx = Ctx()
            ctx.algo = algo
            ctx.from_addr = a_from
            ctx.p_used = PASSWORDS[pi]
            srv = Server(w, via, algo, REALM)
            other = Server(w, via, algo, REALM)
            third = a_from if _norm_addr(a_from) != _norm_addr(a_issue) else "192.0.2.77"
            w.now = base - 300
            c1 = srv.challenge(a_issue)
            w.now = base
            c0 = srv.challenge(a_issue)
            c2 = srv.challenge(third)
            cx = other.challenge(a_issue)
            ctx.issued = [c0, c1, c2]
            pool = {0: c0, 1: c1, 2: c2, "X": cx}
            w.now = ctx.now = base + el
            nonce = pool[pair[0]][0]
            opaque = pool[pair[1]][1]
            f = base_fields(ctx, nonce, opaque, USERS[ui], URIS[ri], form, algf, ctx.p_used, dmethod)
            h = write_header(f, style)
            if style in MAINSTREAM_STYLES:
                parsed = ref_parse(h)
                if parsed is None or not parsed[1] or {k.decode(): v for k, _, v in parsed[0] if k != b"x"} != f:
                    return "harness-error: reference parser disagrees with the header writer on %r" % (h,)
            return judge(srv, ctx, h)


# --------------------------------------------------------------------------
# classes 2 and 3: byte-level mutations

# bytes that matter: the quoted-string and list delimiters, the escape, the opaque's own separators
# and padding, a non-base64 printable, whitespace of three kinds, NUL, DEL-ish/obs-text, a hex digit,
# a base64-only letter
MUT_BYTES = (b'"', b",", b"=", b" ", b"\\", b"-", b"!", b"\t", b"\n", b"\x00", b"\xff", b"0", b"f", b"Q")

ALGO_VALUES = (b"MD5", b"Md5", b"sha", b"SHA", b"md5-sess", b"MD5-sess", b"foo", b"", b"md5 ", b"md\xff")
QOP_VALUES = (b"auth-int", b"AUTH", b"auth,auth-int", b"", b"autx")
ALL_BYTES = tuple(bytes([_b]) for _b in range(256))


def _forged_opaques(nonce, opaque, addr, now):
    """Opaque values an attacker can write down without the factory's key (independent of how the
    real opaque is laid out, except that they also try the documented-by-source shape)."""
    import base64
    ip = _norm_addr(addr)
    t = b"%d" % int(now)
    b64 = base64.b64encode
    mac = hashlib.md5(b",".join((nonce, ip, t))).hexdigest().encode()
    return (b"", b"-", b"--", b"abc-a", b"abc-", b"-abc", b"a-b-c", b"abc-ab", b"abc-abc", b"abc-abcd",
            b"abc-ab==", b"abc-=", b"abc-====", opaque + b"-", b"-" + opaque, opaque + opaque,
            opaque.replace(b"-", b""), opaque.replace(b"-", b"--"), opaque.replace(b"=", b""),
            opaque + b"=", opaque + b"==", opaque + b"QUJD", opaque.upper(), opaque.lower(),
            mac + b"-" + b64(b",".join((nonce, ip, t))),
            mac + b"-" + b64(b",".join((nonce, ip, b"x"))),
            mac + b"-" + b64(b",".join((nonce, ip, b"\xef\xbc\x91"))),
            mac + b"-" + b64(b",".join((nonce, ip))),
            mac + b"-" + b64(b",".join((nonce, ip, t, t))),
            mac + b"-" + b64(nonce),
            b"0" * 32 + b"-" + b64(b",".join((nonce, ip, b"99999999999999999999999999"))),
            b"0" * 32 + b"-" + b64(b",".join((nonce, ip, b"-1"))),
            b"\xff-\xff", b"abc-\xff\xff\xff\xff", b"abc-" + b"A" * 5, nonce, nonce + b"-" + nonce)


N_FORGED = len(_forged_opaques(b"n", b"a-b", None, 0))


class _MutBase(_C48):
    functions = ["DigestCredentialFactory.decode", "DigestCredentialFactory._verifyOpaque",
                 "DigestedCredentials.checkPassword", "DigestCredentialFactory.getChallenge"]

    # world = (via, algo, addr, elapsed, style, algfield_present)
    def build(self, world, w):
        via, algo, addr, el, style, with_alg = world
        ctx = Ctx()
        ctx.algo = algo
        ctx.from_addr = addr
        ctx.p_used = PASSWORDS[0]
        srv = Server(w, via, algo, REALM)
        w.now = 1000000000.0
        c0 = srv.challenge(addr)
        ctx.issued = [c0]
        w.now = ctx.now = 1000000000.0 + el
        f = base_fields(ctx, c0[0], c0[1], USERS[0], URIS[1], "auth", algo if with_alg else None, ctx.p_used)
        return srv, ctx, f

    def peek(self, world):
        with World(repr(world)) as w:
            _, ctx, f = self.build(world, w)
            return ctx, f


FIELDS = ("username", "realm", "nonce", "uri", "response", "opaque", "qop", "nc", "cnonce", "algorithm")
RECOMPUTE_FIELDS = ("username", "nonce", "uri", "nc", "cnonce", "qop", "algorithm", "realm")


class FieldByteMutations(_MutBase):
    title = ("a correct response with ONE parameter value altered at byte level (in flight, or before the client "
             "computes its digest), decoded by the real factory and checked against 4 passwords vs. the ledger "
             "+ strict auth-param reading + RFC 2617 digest; no exception other than a login failure")
    scope = ("worlds: md5 via cred for client addresses of 3 lengths (all three base64 paddings of the opaque) and "
             "None, sha via web, one expired world; styles browser and quoted (quick) / all 5 (thorough). In the "
             "first world (thorough: first four) each of the 10 parameters, in the others opaque, nonce, response, "
             "algorithm, qop; at each byte position of the value: replace by each of 14 delimiter/escape/"
             "padding/whitespace/NUL/0xff/hex/base64 bytes (all 256 at the last 4 positions of the opaque; thorough: all "
             "256 everywhere in the first world), delete, insert each of the 14 "
             "before it and at the end; every proper prefix of the value; parameter dropped, emptied, duplicated; "
             "37 forged opaques; 10 algorithm and 5 qop spellings; for the parameters that enter the digest each "
             "mutation both after and before the digest is computed.")

    WORLDS_QUICK = (
        ("cred", b"md5", "10.0.0.1", 7, "browser", True),
        ("cred", b"md5", "10.0.0.10", 7, "quoted", False),
        ("cred", b"md5", "10.0.0.100", 7, "browser", False),
        ("cred", b"md5", None, 7, "browser", True),
        ("web", b"sha", "::1", 7, "browser", True),
        ("cred", b"md5", "10.0.0.1", LIFETIME + 8, "browser", True),
    )

    def cases(self, tier, rng):
        thorough = tier != "quick"
        worlds = list(self.WORLDS_QUICK)
        if thorough:
            for style in STYLES:
                for wa in (True, False):
                    wd = ("cred", b"md5", "10.0.0.1", 7, style, wa)
                    if wd not in worlds:
                        worlds.append(wd)
            worlds.append(("web", b"md5", "2001:db8::1", LIFETIME - 2, "tight", True))
        for wi, world in enumerate(worlds):
            _, f = self.peek(world)
            # the first world of each tier gets the full treatment, the others the parameters whose handling
            # depends on the world (opaque: padding, address; nonce; response; algorithm)
            full = wi == 0 or (thorough and wi < 4)
            for field in FIELDS:
                if field not in f:
                    yield (world, field, "add", 0, b"", False)
                    continue
                if not full and field not in ("opaque", "nonce", "response", "algorithm", "qop"):
                    continue
                v = f[field]
                recs = (False, True) if field in RECOMPUTE_FIELDS else (False,)
                for rec in recs:
                    yield (world, field, "drop", 0, b"", rec)
                    yield (world, field, "empty", 0, b"", rec)
                    yield (world, field, "dup", 0, b"", rec)
                    for n in range(len(v)):
                        yield (world, field, "prefix", n, b"", rec)
                        yield (world, field, "del", n, b"", rec)
                    byts = MUT_BYTES
                    if thorough and wi == 0:
                        byts = tuple(bytes([b]) for b in range(256))
                    for n in range(len(v) + 1):
                        for b in MUT_BYTES:
                            yield (world, field, "ins", n, b, rec)
                        if n < len(v):
                            # the last characters of the opaque (encoding padding / spare bits): every byte
                            for b in (ALL_BYTES if field == "opaque" and n >= len(v) - 4 else byts):
                                if b != v[n:n + 1]:
                                    yield (world, field, "rep", n, b, rec)
                if field == "opaque":
                    for k in range(N_FORGED):
                        yield (world, field, "forged", k, b"", False)
                if field == "algorithm":
                    for k in range(len(ALGO_VALUES)):
                        for rec in (False, True):
                            yield (world, field, "algo", k, b"", rec)
                if field == "qop":
                    for k in range(len(QOP_VALUES)):
                        for rec in (False, True):
                            yield (world, field, "qop", k, b"", rec)
        if thorough:
            # seeded random multi-byte edits of one value
            world = worlds[0]
            _, f = self.peek(world)
            for _ in range(40000):
                field = rng.choice(FIELDS)
                yield (world, field, "rand", rng.randrange(1 << 30), b"", rng.random() < 0.3 and field in RECOMPUTE_FIELDS)

    def check(self, case):
        world, field, op, n, b, rec = case
        with World(repr(world)) as w:
            srv, ctx, f = self.build(world, w)
            f = dict(f)
            v = f.get(field, b"")
            if op == "add":
                new = ctx.algo
            elif op == "drop":
                new = None
            elif op == "empty":
                new = b""
            elif op == "dup":
                new = (v, v[:-1] + b"0") if v else (v, b"0")
            elif op == "prefix":
                new = v[:n]
            elif op == "del":
                new = v[:n] + v[n + 1:]
            elif op == "ins":
                new = v[:n] + b + v[n:]
            elif op == "rep":
                new = v[:n] + b + v[n + 1:]
            elif op == "forged":
                c0 = ctx.issued[0]
                new = _forged_opaques(c0[0], c0[1], c0[2], c0[3])[n]
            elif op == "algo":
                new = ALGO_VALUES[n]
            elif op == "qop":
                new = QOP_VALUES[n]
            elif op == "rand":
                r = random.Random(n)
                new = bytearray(v)
                for _ in range(r.randrange(1, 4)):
                    k = r.randrange(3)
                    pos = r.randrange(len(new) + 1)
                    if k == 0 or not new:
                        new[pos:pos] = bytes([r.randrange(256)])
                    elif k == 1:
                        del new[min(pos, len(new) - 1)]
                    else:
                        new[min(pos, len(new) - 1)] = r.randrange(256)
                new = bytes(new)
            else:
                raise Bounded.Skip()
            if new is None:
                f.pop(field, None)
            else:
                f[field] = new
            if rec and "nonce" in f and "uri" in f and "username" in f:
                g = {k: (x[-1] if isinstance(x, tuple) else x) for k, x in f.items()}
                realm = g.get("realm", ctx.realm) if field == "realm" else ctx.realm
                f["response"] = client_digest(g, realm, ctx.p_used, ctx.method)
            h = write_header(f, world[4])
            return judge(srv, ctx, h)


class HeaderByteMutations(_MutBase):
    title = ("a correct response header altered anywhere at byte level (replace / delete / insert / cut), plus "
             "seeded garbage, decoded by the real factory and checked against 4 passwords vs. the same oracle; "
             "no exception other than a login failure")
    scope = ("worlds: md5 via cred (browser style, ~330 bytes), sha via web (tight style), one expired world. At "
             "every byte position: replace by each of 14 structural bytes (thorough: all 256), delete, insert each "
             "of the 14; every prefix, every suffix, every (thorough) removal of a 2..24-byte window; thorough: "
             "40000 seeded random 1-4 byte edits and 20000 random strings over the structural alphabet.")

    WORLDS = (
        ("cred", b"md5", "10.0.0.1", 7, "browser", True),
        ("web", b"sha", "10.0.0.10", 7, "tight", True),
        ("cred", b"md5", "10.0.0.1", LIFETIME + 8, "browser", False),
    )
    GARBAGE = (b"", b",", b"=", b'"', b"username", b"username=", b'username="', b'username="bob"',
               b'username="bob", nonce="x"', b'username="bob", opaque="x"', b'username="bob", nonce="x", opaque="x"',
               b'username="bob", nonce="x", opaque="x-x"', b'username="bob", nonce="x", opaque="x-eCx4LDE="',
               b'username="bob", nonce="", opaque=""', b'nonce=a,opaque=b-Yg==,username=c',
               b'=', b'==', b'="a"', b'\xff="a"', b'user\xffname="a"', b'username=\xff, nonce=\xff, opaque=\xff-\xff',
               b'username="bob" nonce="x" opaque="x"', b"username=bob;nonce=x;opaque=x", b"\r\n", b"\x00" * 8)

    def cases(self, tier, rng):
        thorough = tier != "quick"
        for wi, world in enumerate(self.WORLDS):
            ctx, f = self.peek(world)
            L = len(write_header(f, world[4]))
            byts = MUT_BYTES
            if thorough and wi == 0:
                byts = tuple(bytes([b]) for b in range(256))
            for n in range(L + 1):
                yield (world, "prefix", n, b"")
                yield (world, "suffix", n, b"")
                for b in MUT_BYTES:
                    yield (world, "ins", n, b)
                if n < L:
                    yield (world, "del", n, b"")
                    for b in byts:
                        yield (world, "rep", n, b)
                    if thorough:
                        for k in (2, 3, 5, 8, 24):
                            yield (world, "cut", n, bytes([k]))
        for k in range(len(self.GARBAGE)):
            yield (self.WORLDS[0], "garbage", k, b"")
        if thorough:
            for _ in range(40000):
                yield (self.WORLDS[rng.randrange(2)], "rand", rng.randrange(1 << 30), b"")
            for _ in range(20000):
                yield (self.WORLDS[0], "noise", rng.randrange(1 << 30), b"")

    def check(self, case):
        world, op, n, b = case
        with World(repr(world)) as w:
            srv, ctx, f = self.build(world, w)
            h0 = write_header(f, world[4])
            if op == "prefix":
                h = h0[:n]
            elif op == "suffix":
                h = h0[n:]
            elif op == "ins":
                h = h0[:n] + b + h0[n:]
            elif op == "del":
                h = h0[:n] + h0[n + 1:]
            elif op == "rep":
                if h0[n:n + 1] == b:
                    raise Bounded.Skip()
                h = h0[:n] + b + h0[n + 1:]
            elif op == "cut":
                h = h0[:n] + h0[n + b[0]:]
            elif op == "garbage":
                h = self.GARBAGE[n]
            elif op == "rand":
                r = random.Random(n)
                hb = bytearray(h0)
                for _ in range(r.randrange(1, 5)):
                    k = r.randrange(3)
                    pos = r.randrange(len(hb))
                    c = r.choice(MUT_BYTES)[0] if r.random() < 0.7 else r.randrange(256)
                    if k == 0:
                        hb[pos:pos] = bytes([c])
                    elif k == 1:
                        del hb[pos]
                    else:
                        hb[pos] = c
                h = bytes(hb)
            elif op == "noise":
                r = random.Random(n)
                words = (b"username", b"nonce", b"opaque", b"response", b"uri", b"qop", b"nc", b"cnonce",
                         b"algorithm", b"realm", b"=", b'"', b",", b" ", b"-", b"\\", b"\xff", b"a", b"Yg==",
                         ctx.issued[0][0], ctx.issued[0][1], b"auth", b"md5", b"\n")
                h = b"".join(r.choice(words) for _ in range(r.randrange(1, 24)))
            else:
                raise Bounded.Skip()
            return judge(srv, ctx, h)


BOUNDED = [DigestHistories, FieldByteMutations, HeaderByteMutations]
