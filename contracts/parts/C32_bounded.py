"""C32 -- DNS messages round-trip through the wire format: bounded exhaustive checks.

Oracle.  Every case is a *neutral description* of a DNS message (plain tuples of
ints / byte strings, names as dotted byte strings).  From the description we
derive, independently of twisted.names.dns,

  * the expected content (header fields, questions, resource records with
    their RDATA broken into fields the way the RFCs lay them out), and
  * nothing else: there is no second encoder.

The real ``Message`` / ``_EDNSMessage`` objects are built from the same
description, encoded by the real code, and then

  1. the bytes are read by ``parse_message`` below, a small stand-alone DNS wire
     reader written from RFC 1035 (message, names, compression, the classic
     RDATA layouts), RFC 1183 (RP, AFSDB), RFC 2782 (SRV), RFC 3403 (NAPTR),
     RFC 2874 (A6), RFC 3596 (AAAA), RFC 4255 (SSHFP), RFC 6672 (DNAME),
     RFC 2845 (TSIG), RFC 6891 (OPT), RFC 2535 (AD/CD bits).  It is strict in
     the ways an independent decoder is strict: labels are 1..63 bytes, a name
     is at most 255 bytes, compression pointers must point backwards, RDATA
     must be consumed exactly, no trailing bytes.  (dnspython is not
     installed in this environment, so this reader plays its role.)
  2. the bytes are decoded by the real decoder and the result must be ``==``
     to the original object and must show the expected content through its
     public attributes.

Names compare case-insensitively (DNS semantics, and twisted's ``Name.__eq__``).
"""

import itertools
import socket
import struct
from io import BytesIO

from pyvc.api import Bounded

from twisted.names import dns


# --------------------------------------------------------------------------
# small helpers on the neutral description
# --------------------------------------------------------------------------

def _b(v):
    """Expand the compact notation ("rep", unit, n) for long byte strings."""
    if isinstance(v, tuple) and len(v) == 3 and v[0] == "rep":
        return v[1] * v[2]
    return v


def labels_of(name):
    """Dotted byte string -> tuple of lower-cased labels (root = ())."""
    if name == b"":
        return ()
    return tuple(l.lower() for l in name.split(b"."))


def wire_len(name):
    """Length of the uncompressed wire form of a dotted name."""
    if name == b"":
        return 1
    return sum(len(l) + 1 for l in name.split(b".")) + 1


def canonical_name_wire(name):
    out = b""
    if name != b"":
        for l in name.split(b"."):
            out += bytes([len(l)]) + l
    return out + b"\x00"


def representable(name):
    if name == b"":
        return True
    labs = name.split(b".")
    return all(1 <= len(l) <= 63 for l in labs) and wire_len(name) <= 255


# --------------------------------------------------------------------------
# the independent wire reader
# --------------------------------------------------------------------------

class WireError(Exception):
    pass


class Short(WireError):
    """Ran out of data."""


class _Reader:
    def __init__(self, buf, pos, end):
        self.buf, self.pos, self.end = buf, pos, end

    def take(self, n):
        if self.pos + n > self.end:
            raise Short("need %d bytes at %d, limit %d" % (n, self.pos, self.end))
        v = self.buf[self.pos:self.pos + n]
        self.pos += n
        return v

    def rest(self):
        return self.take(self.end - self.pos)

    def u8(self):
        return self.take(1)[0]

    def u16(self):
        return struct.unpack(">H", self.take(2))[0]

    def u32(self):
        return struct.unpack(">I", self.take(4))[0]

    def u48(self):
        return int.from_bytes(self.take(6), "big")

    def cstr(self):
        return self.take(self.u8())

    def name(self):
        """RFC 1035 3.1 / 4.1.4.  Returns lower-cased labels."""
        buf = self.buf
        labels = []
        total = 1
        pos = self.pos
        bound = self.end
        jumped = False
        hops = 0
        while True:
            if pos >= bound:
                raise Short("name runs past the end")
            l = buf[pos]
            if l == 0:
                pos += 1
                break
            if l & 0xC0 == 0xC0:
                if pos + 2 > bound:
                    raise Short("pointer runs past the end")
                target = ((l & 0x3F) << 8) | buf[pos + 1]
                if target >= pos:
                    raise WireError("compression pointer at %d does not point backwards (%d)" % (pos, target))
                if not jumped:
                    self.pos = pos + 2
                    jumped = True
                hops += 1
                if hops > 127:
                    raise WireError("too many compression pointers")
                pos = target
                bound = len(buf)
                continue
            if l & 0xC0:
                raise WireError("label length octet 0x%02x at %d (reserved label type)" % (l, pos))
            if pos + 1 + l > bound:
                raise Short("label runs past the end")
            labels.append(bytes(buf[pos + 1:pos + 1 + l]).lower())
            total += l + 1
            if total > 255:
                raise WireError("name longer than 255 octets")
            pos += 1 + l
        if not jumped:
            self.pos = pos
        return tuple(labels)


def _rdata(rtype, r):
    if rtype == 1:                                   # A
        return (r.take(4),)
    if rtype in (2, 3, 4, 5, 7, 8, 9, 12, 39):       # NS MD MF CNAME MB MG MR PTR DNAME
        return (r.name(),)
    if rtype == 6:                                   # SOA
        return (r.name(), r.name(), r.u32(), r.u32(), r.u32(), r.u32(), r.u32())
    if rtype == 10:                                  # NULL
        return (r.rest(),)
    if rtype == 11:                                  # WKS
        return (r.take(4), r.u8(), r.rest())
    if rtype == 13:                                  # HINFO
        return (r.cstr(), r.cstr())
    if rtype in (14, 17):                            # MINFO, RP
        return (r.name(), r.name())
    if rtype in (15, 18):                            # MX, AFSDB
        return (r.u16(), r.name())
    if rtype in (16, 99):                            # TXT, SPF
        out = []
        while r.pos < r.end:
            out.append(r.cstr())
        if not out:
            raise WireError("TXT rdata without any character-string")
        return tuple(out)
    if rtype == 28:                                  # AAAA
        return (r.take(16),)
    if rtype == 33:                                  # SRV
        return (r.u16(), r.u16(), r.u16(), r.name())
    if rtype == 35:                                  # NAPTR
        return (r.u16(), r.u16(), r.cstr(), r.cstr(), r.cstr(), r.name())
    if rtype == 38:                                  # A6, RFC 2874 section 3.1
        p = r.u8()
        if p > 128:
            raise WireError("A6 prefix length %d" % p)
        suffix = r.take((128 - p + 7) // 8)
        return (p, suffix, r.name() if p else ())
    if rtype == 41:                                  # OPT
        out = []
        while r.pos < r.end:
            code = r.u16()
            out.append((code, r.take(r.u16())))
        return tuple(out)
    if rtype == 44:                                  # SSHFP
        return (r.u8(), r.u8(), r.rest())
    if rtype == 250:                                 # TSIG
        alg = r.name()
        t = r.u48()
        fudge = r.u16()
        mac = r.take(r.u16())
        oid = r.u16()
        err = r.u16()
        other = r.take(r.u16())
        return (alg, t, fudge, mac, oid, err, other)
    return (r.rest(),)


def parse_message(wire, tolerant=False):
    """-> (header, questions, (answers, authority, additional), complete).

    header = (id, qr, opcode, aa, tc, rd, ra, ad, cd, rcode).
    With tolerant=True a message that ends early yields the entries that were
    completely present (complete=False); otherwise Short propagates."""
    wire = bytes(wire)
    if len(wire) < 12:
        raise Short("no complete header")
    mid, b3, b4, qd, an, ns, ar = struct.unpack(">HBBHHHH", wire[:12])
    header = (mid, b3 >> 7, (b3 >> 3) & 15, (b3 >> 2) & 1, (b3 >> 1) & 1, b3 & 1,
              b4 >> 7, (b4 >> 5) & 1, (b4 >> 4) & 1, b4 & 15)
    r = _Reader(wire, 12, len(wire))
    questions, sections = [], ([], [], [])
    try:
        for _ in range(qd):
            n = r.name()
            questions.append((n, r.u16(), r.u16()))
        for sec, count in zip(sections, (an, ns, ar)):
            for _ in range(count):
                owner = r.name()
                rtype, rcls, ttl, rdlen = r.u16(), r.u16(), r.u32(), r.u16()
                if r.pos + rdlen > len(wire):
                    raise Short("rdata runs past the end")
                rr = _Reader(wire, r.pos, r.pos + rdlen)
                try:
                    rd = _rdata(rtype, rr)
                except Short as e:
                    raise WireError("type %d rdata does not fit its RDLENGTH %d: %s" % (rtype, rdlen, e))
                if rr.pos != rr.end:
                    raise WireError("type %d rdata: %d of %d RDLENGTH bytes used" % (rtype, rr.pos - r.pos, rdlen))
                r.pos += rdlen
                sec.append((owner, rtype, rcls, ttl, rd))
    except Short:
        if not tolerant:
            raise
        return header, questions, sections, False
    if r.pos != len(wire):
        raise WireError("%d trailing bytes after the last record" % (len(wire) - r.pos))
    return header, questions, sections, True


# --------------------------------------------------------------------------
# record descriptions  <->  twisted objects / expected content
# --------------------------------------------------------------------------
# mnemonic: (IANA type code, twisted class, ((attribute, kind), ...) in RDATA order)
_N = (("name", "name"),)
SCHEMA = {
    "A": (1, "Record_A", (("address", "ip4"),)),
    "NS": (2, "Record_NS", _N),
    "MD": (3, "Record_MD", _N),
    "MF": (4, "Record_MF", _N),
    "CNAME": (5, "Record_CNAME", _N),
    "SOA": (6, "Record_SOA", (("mname", "name"), ("rname", "name"), ("serial", "u32"), ("refresh", "t32"),
                              ("retry", "t32"), ("expire", "t32"), ("minimum", "u32"))),
    "MB": (7, "Record_MB", _N),
    "MG": (8, "Record_MG", _N),
    "MR": (9, "Record_MR", _N),
    "NULL": (10, "Record_NULL", (("payload", "blob"),)),
    "WKS": (11, "Record_WKS", (("address", "ip4"), ("protocol", "u8"), ("map", "blob"))),
    "PTR": (12, "Record_PTR", _N),
    "HINFO": (13, "Record_HINFO", (("cpu", "cs"), ("os", "cs"))),
    "MINFO": (14, "Record_MINFO", (("rmailbx", "name"), ("emailbx", "name"))),
    "MX": (15, "Record_MX", (("preference", "u16"), ("name", "name"))),
    "TXT": (16, "Record_TXT", None),
    "RP": (17, "Record_RP", (("mbox", "name"), ("txt", "name"))),
    "AFSDB": (18, "Record_AFSDB", (("subtype", "u16"), ("hostname", "name"))),
    "AAAA": (28, "Record_AAAA", (("address", "ip6"),)),
    "SRV": (33, "Record_SRV", (("priority", "u16"), ("weight", "u16"), ("port", "u16"), ("target", "name"))),
    "NAPTR": (35, "Record_NAPTR", (("order", "u16"), ("preference", "u16"), ("flags", "charstr"),
                                   ("service", "charstr"), ("regexp", "charstr"), ("replacement", "name"))),
    "A6": (38, "Record_A6", None),
    "DNAME": (39, "Record_DNAME", _N),
    "SSHFP": (44, "Record_SSHFP", (("algorithm", "u8"), ("fingerprintType", "u8"), ("fingerprint", "blob"))),
    "SPF": (99, "Record_SPF", None),
    "TSIG": (250, "Record_TSIG", (("algorithm", "name"), ("timeSigned", "u48"), ("fudge", "u16"), ("MAC", "blob"),
                                  ("originalID", "u16"), ("error", "u16"), ("otherData", "blob"))),
}
CODE2MNEM = {v[0]: k for k, v in SCHEMA.items()}
ALL_MNEMS = tuple(SCHEMA)


def rr_type(mnem, fields):
    if mnem == "UNK":
        return fields[0]
    if mnem == "OPT":
        return 41
    return SCHEMA[mnem][0]


def _a6_bytes(p):
    return (128 - p + 7) // 8


def build_record(mnem, fields, ttl):
    if mnem == "UNK":
        return dns.UnknownRecord(_b(fields[1]), ttl=ttl)
    code, clsname, schema = SCHEMA[mnem]
    cls = getattr(dns, clsname)
    if mnem in ("TXT", "SPF"):
        return cls(*[_b(s) for s in fields], ttl=ttl)
    if mnem == "A6":
        p, suffix, prefix = fields
        return cls(p, socket.inet_ntop(socket.AF_INET6, suffix), prefix, ttl=ttl)
    kw = {}
    for (attr, kind), v in zip(schema, fields):
        v = _b(v)
        if kind == "ip4":
            v = socket.inet_ntoa(v)
        elif kind == "ip6":
            v = socket.inet_ntop(socket.AF_INET6, v)
        kw[attr] = v
    return cls(ttl=ttl, **kw)


def build_opt(fields):
    udp, ext, ver, do, options = fields
    return dns._OPTHeader(udpPayloadSize=udp, extendedRCODE=ext, version=ver, dnssecOK=do,
                          options=[dns._OPTVariableOption(c, _b(d)) for c, d in options])


def build_rr(r, auth):
    owner, mnem, rcls, ttl, fields = r
    if mnem == "OPT":
        return build_opt(fields)
    return dns.RRHeader(owner, rr_type(mnem, fields), rcls, ttl, build_record(mnem, fields, ttl), auth=bool(auth))


def expected_rdata(mnem, fields):
    if mnem == "UNK":
        return (_b(fields[1]),)
    if mnem in ("TXT", "SPF"):
        return tuple(_b(s) for s in fields)
    if mnem == "A6":
        p, suffix, prefix = fields
        return (p, suffix[16 - _a6_bytes(p):], labels_of(prefix) if p else ())
    out = []
    for (attr, kind), v in zip(SCHEMA[mnem][2], fields):
        out.append(labels_of(v) if kind == "name" else _b(v))
    return tuple(out)


def expected_rr(r):
    owner, mnem, rcls, ttl, fields = r
    if mnem == "OPT":
        udp, ext, ver, do, options = fields
        return ((), 41, udp, (ext << 24) | (ver << 16) | (int(bool(do)) << 15),
                tuple((c, _b(d)) for c, d in options))
    return (labels_of(owner), rr_type(mnem, fields), rcls, ttl, expected_rdata(mnem, fields))


def expected_message(spec):
    hdr, qs, an, ns, ar, _limit = spec
    return (tuple(int(x) for x in hdr),
            [(labels_of(n), t, c) for n, t, c in qs],
            tuple([expected_rr(r) for r in sec] for sec in (an, ns, ar)))


def extract_rdata(rtype, obj):
    """Content of a decoded twisted record, through its public attributes."""
    mnem = CODE2MNEM.get(rtype)
    if mnem is None:
        return (obj.data,)
    if mnem in ("TXT", "SPF"):
        return tuple(obj.data)
    if mnem == "A6":
        p = obj.prefixLen
        return (p, obj.suffix[16 - _a6_bytes(p):], labels_of(obj.prefix.name) if p else ())
    out = []
    for attr, kind in SCHEMA[mnem][2]:
        v = getattr(obj, attr)
        if kind == "name":
            v = labels_of(v.name)
        elif kind == "charstr":
            v = v.string
        out.append(v)
    return tuple(out)


def extract_rr(h):
    if h.type == 41:
        o = dns._OPTHeader.fromRRHeader(h)
        return ((), 41, o.udpPayloadSize, (o.extendedRCODE << 24) | (o.version << 16) | (int(bool(o.dnssecOK)) << 15),
                tuple((x.code, x.data) for x in o.options))
    return (labels_of(h.name.name), h.type, h.cls, h.ttl, extract_rdata(h.type, h.payload))


def extract_message(m):
    hdr = (m.id, m.answer, m.opCode, m.auth, m.trunc, m.recDes, m.recAv, m.authenticData, m.checkingDisabled,
           m.rCode)
    return (tuple(int(x) for x in hdr),
            [(labels_of(q.name.name), q.type, q.cls) for q in m.queries],
            tuple([extract_rr(h) for h in sec] for sec in (m.answers, m.authority, m.additional)))


def build_message(spec, limit=None):
    hdr, qs, an, ns, ar, lim = spec
    m = dns.Message(id=hdr[0], answer=hdr[1], opCode=hdr[2], auth=hdr[3], trunc=hdr[4], recDes=hdr[5],
                    recAv=hdr[6], authenticData=hdr[7], checkingDisabled=hdr[8], rCode=hdr[9],
                    maxSize=lim if limit is None else limit)
    m.queries = [dns.Query(n, t, c) for n, t, c in qs]
    m.answers = [build_rr(r, hdr[3]) for r in an]
    m.authority = [build_rr(r, hdr[3]) for r in ns]
    m.additional = [build_rr(r, hdr[3]) for r in ar]
    return m


def _short(v, n=160):
    s = repr(v)
    return s if len(s) <= n else s[:n] + "...(%d chars)" % len(s)


def _first_difference(got, exp):
    if got[0] != exp[0]:
        return "header (id,qr,opcode,aa,tc,rd,ra,ad,cd,rcode) %r, expected %r" % (got[0], exp[0])
    if got[1] != exp[1]:
        return "questions %s, expected %s" % (_short(got[1]), _short(exp[1]))
    for nm, g, e in zip(("answer", "authority", "additional"), got[2], exp[2]):
        if g != e:
            for i, (x, y) in enumerate(zip(g, e)):
                if x != y:
                    return "%s record %d reads %s, expected %s" % (nm, i, _short(x), _short(y))
            return "%s section has %d records, expected %d" % (nm, len(g), len(e))
    return None


def _normalise_opt(d):
    d.additional = [dns._OPTHeader.fromRRHeader(h) if getattr(h, "type", None) == 41 and isinstance(h, dns.RRHeader)
                    else h for h in d.additional]


def roundtrip_problem(spec, wire=None):
    """Encode with no size limit, read independently, decode with twisted."""
    exp = expected_message(spec)
    m = build_message(spec, limit=0)
    if wire is None:
        try:
            wire = m.toStr()
        except Exception as e:
            return "encoding an in-range message raised %r" % (e,)
    try:
        got = parse_message(wire)
    except WireError as e:
        return "independent decoder rejects the encoding: %s; wire[12:92]=%r" % (e, wire[12:92])
    diff = _first_difference(got[:3], exp)
    if diff:
        return "independent decoder: " + diff
    d = dns.Message()
    try:
        d.fromStr(wire)
    except Exception as e:
        return "decoding the encoding raised %r" % (e,)
    diff = _first_difference(extract_message(d), exp)
    if diff:
        return "decoded message: " + diff
    _normalise_opt(d)
    if not (d == m):
        return "decoded message != original: %s vs %s" % (_short(d, 300), _short(m, 300))
    return None


def _is_prefix(got, exp, what, who):
    """got/exp: (questions, (an, ns, ar)).  Entries in order must be a prefix."""
    seqs_g = [got[0]] + list(got[1])
    seqs_e = [exp[0]] + list(exp[1])
    names = ("question", "answer", "authority", "additional")
    cut = False
    for nm, g, e in zip(names, seqs_g, seqs_e):
        if cut and g:
            return "%s: %s section has entries although an earlier section is incomplete" % (who, nm)
        if len(g) > len(e):
            return "%s: %d %s entries, original has %d" % (who, len(g), nm, len(e))
        for i, (x, y) in enumerate(zip(g, e)):
            if x != y:
                return "%s: %s entry %d is %s, original %s (%s)" % (who, nm, i, _short(x), _short(y), what)
        if len(g) < len(e):
            cut = True
    return None


def message_problem(spec):
    """Round trip when the message fits its limit, truncation contract otherwise."""
    hdr, qs, an, ns, ar, limit = spec
    try:
        full = build_message(spec, limit=0).toStr()
    except Exception as e:
        return "encoding an in-range message raised %r" % (e,)
    if limit == 0 or limit >= len(full):
        if limit:
            try:
                w = build_message(spec).toStr()
            except Exception as e:
                return "encoding raised %r" % (e,)
            if w != full:
                return "message of %d bytes with limit %d is not encoded as without a limit" % (len(full), limit)
        return roundtrip_problem(spec, full)
    if limit < 12:
        raise Bounded.Skip()
    m = build_message(spec)
    try:
        wire = m.toStr()
    except Exception as e:
        return "encoding with size limit %d raised %r" % (limit, e)
    what = "full size %d, limit %d" % (len(full), limit)
    if len(wire) > limit:
        return "encoded to %d bytes (%s)" % (len(wire), what)
    exp = expected_message(spec)
    try:
        g_hdr, g_q, g_secs, _complete = parse_message(wire, tolerant=True)
    except WireError as e:
        return "independent decoder rejects the truncated encoding: %s (%s)" % (e, what)
    if g_hdr[4] != 1:
        return "truncation flag not set in the encoding (%s)" % what
    if g_hdr[:4] + g_hdr[5:] != exp[0][:4] + exp[0][5:]:
        return "header of truncated encoding %r, expected %r" % (g_hdr, exp[0])
    p = _is_prefix((g_q, g_secs), (exp[1], exp[2]), what, "independent decoder")
    if p:
        return p
    d = dns.Message()
    try:
        d.fromStr(wire)
    except Exception as e:
        return "decoding the truncated encoding raised %r (%s)" % (e, what)
    x = extract_message(d)
    if x[0][4] != 1:
        return "decoded message does not have the truncation flag (%s)" % what
    if x[0][:4] + x[0][5:] != exp[0][:4] + exp[0][5:]:
        return "decoded header %r, expected %r" % (x[0], exp[0])
    p = _is_prefix((x[1], x[2]), (exp[1], exp[2]), what, "decoded message")
    if p:
        return p
    orig = build_message(spec, limit=0)
    _normalise_opt(d)
    for attr in ("queries", "answers", "authority", "additional"):
        dg, og = getattr(d, attr), getattr(orig, attr)
        if not (dg == og[:len(dg)]):
            return "decoded %s are not equal to the first %d original ones (%s)" % (attr, len(dg), what)
    return None


HDR0 = (0x1234, 1, 0, 0, 0, 1, 1, 0, 0, 0)


# --------------------------------------------------------------------------
# 1. names on their own
# --------------------------------------------------------------------------

class NameCodec(Bounded):
    prop = "C32"
    title = ("Name.encode without compression == RFC 1035 label sequence; Name.decode of it yields an equal name "
             "and stops right after it")
    scope = ("all names of 0..2 labels (thorough 0..3) whose labels are 1..2 bytes over {a,A,0x00,0xC0,'-','?'} "
             "(3 labels of 1 byte in quick); all names of 1..4 labels with label lengths in {1,2,31,32,62,63} "
             "and wire length <= 255; the longest names (wire 253,254,255; 127 one-byte labels); exhaustive")
    functions = ["Name.encode", "Name.decode"]

    ALPHA = (b"a", b"A", b"\x00", b"\xc0", b"-", b"?")

    def cases(self, tier, rng):
        labs = list(self.ALPHA) + [x + y for x in self.ALPHA for y in self.ALPHA]
        yield b""
        for a in labs:
            yield a
        for a in labs:
            for b in labs:
                yield a + b"." + b
        third = labs if tier != "quick" else list(self.ALPHA)
        for a in third:
            for b in third:
                for c in third:
                    yield a + b"." + b + b"." + c
        fill = b"xY-\x00\xc0\x0c7"
        for k in range(1, 5):
            for lens in itertools.product((1, 2, 31, 32, 62, 63), repeat=k):
                name = b".".join(bytes(fill[(i + j) % len(fill)] for j in range(n)) for i, n in enumerate(lens))
                if wire_len(name) <= 255:
                    yield name
        for lens in ([63, 63, 63, 61], [63, 63, 63, 60], [63, 63, 63, 59], [1] * 127, [1] * 126, [2] + [1] * 125,
                     [61, 63, 63, 63], [63] * 3 + [30, 30]):
            yield b".".join(bytes([97 + (i % 26)]) * n for i, n in enumerate(lens))

    def check(self, name):
        if not representable(name):
            raise Bounded.Skip()
        want = canonical_name_wire(name)
        s = BytesIO()
        try:
            dns.Name(name).encode(s, None)
        except Exception as e:
            return "encoding a representable name raised %r" % (e,)
        if s.getvalue() != want:
            return "encoded %r, RFC 1035 form is %r" % (s.getvalue(), want)
        s = BytesIO(want + b"\xaa\xbb")
        n = dns.Name()
        try:
            n.decode(s)
        except Exception as e:
            return "decoding raised %r" % (e,)
        if not (n == dns.Name(name)) or labels_of(n.name) != labels_of(name):
            return "decoded %r" % (n.name,)
        if s.tell() != len(want):
            return "decoder stopped at %d, the name ends at %d" % (s.tell(), len(want))
        r = _Reader(want, 0, len(want))
        if r.name() != labels_of(name) or r.pos != len(want):
            return "independent decoder reads %r" % (r.name(),)
        return None


# --------------------------------------------------------------------------
# 2. names that have no wire representation must be refused
# --------------------------------------------------------------------------

class UnrepresentableNames(Bounded):
    prop = "C32"
    title = ("a name with a label over 63 bytes, an empty label, or more than 255 bytes on the wire is refused "
             "(any exception) when it is encoded, wherever it occurs in a message")
    scope = ("label lengths {64,65,100,127,128,191,192,193,255,256,300} as only/first/last label; empty labels "
             "('..', '.a', 'a..b', 'a.b..c', '.'); legal labels adding up to 256, 257, 321 wire bytes; each through "
             "Name.encode, as query name, record owner, compressible rdata name (NS) and uncompressed rdata "
             "name (SRV); trailing-dot names are not in scope; exhaustive")
    functions = ["Name.encode", "Query.encode", "RRHeader.encode", "Message.toStr"]

    VIAS = ("Name.encode", "query", "owner", "rdata-NS", "rdata-SRV")

    def cases(self, tier, rng):
        names = []
        for L in (64, 65, 100, 127, 128, 191, 192, 193, 255, 256, 300):
            names.append(("label>63", ("rep", b"x", L), b""))
            names.append(("label>63", ("rep", b"x", L), b".com"))
            names.append(("label>63", b"www.", ("rep", b"x", L)))
        for n in (b"..", b".a", b"a..b", b"a.b..c", b"."):
            names.append(("empty-label", n, b""))
        for lens in ([63, 63, 63, 62], [63, 63, 63, 63], [1] * 128, [63] * 5, [62, 63, 63, 63, 1]):
            names.append(("name>255", b".".join(bytes([97 + i % 26]) * n for i, n in enumerate(lens)), b""))
        for kind, a, b in names:
            for via in self.VIAS:
                yield (kind, a, b, via)

    def check(self, case):
        kind, a, b, via = case
        name = _b(a) + _b(b)
        if representable(name) or name.endswith(b".") and name != b".":
            raise Bounded.Skip()
        try:
            if via == "Name.encode":
                s = BytesIO()
                dns.Name(name).encode(s, None)
                wire, at = s.getvalue(), 0
            else:
                m = dns.Message(maxSize=0)
                if via == "query":
                    m.queries = [dns.Query(name, 1, 1)]
                elif via == "owner":
                    m.answers = [dns.RRHeader(name, 1, 1, 0, dns.Record_A("1.2.3.4", ttl=0))]
                elif via == "rdata-NS":
                    m.answers = [dns.RRHeader(b"o", 2, 1, 0, dns.Record_NS(name, ttl=0))]
                else:
                    m.answers = [dns.RRHeader(b"o", 33, 1, 0, dns.Record_SRV(1, 2, 3, name, ttl=0))]
                wire, at = m.toStr(), 12
        except Exception:
            return None
        if name == b"." and wire[at:at + 1] == b"\x00":
            return None          # "." read as the root name is a faithful encoding
        try:
            if at:
                seen = parse_message(wire)[1:3]
            else:
                r = _Reader(wire, 0, len(wire))
                seen = r.name()
            seen = "an independent decoder reads %s" % _short(seen, 120)
        except WireError as e:
            seen = "an independent decoder fails: %s" % e
        return "%s: name of %d bytes (wire length %d, labels %r) was encoded, not refused; bytes %s; %s" % (
            kind, len(name), wire_len(name), [len(l) for l in name.split(b".")][:6], _short(wire[at:at + 24], 90), seen)


# --------------------------------------------------------------------------
# 3. header fields
# --------------------------------------------------------------------------

class HeaderFields(Bounded):
    prop = "C32"
    title = "every header flag / opcode / rcode / id combination survives encode -> independent read -> decode"
    scope = ("all 2^7 settings of QR AA TC RD RA AD CD x all 16 opcodes (rcode 0) and x all 16 rcodes (opcode 0) "
             "[thorough: x all 256 opcode/rcode pairs]; id in {0, 1, 0xFFFF}; with zero or one question; exhaustive")
    functions = ["Message.encode", "Message.decode", "Message.toStr", "Message.fromStr"]

    def cases(self, tier, rng):
        if tier == "quick":
            pairs = [(o, 0) for o in range(16)] + [(0, r) for r in range(1, 16)] + [(15, 15)]
        else:
            pairs = [(o, r) for o in range(16) for r in range(16)]
        k = 0
        for flags in itertools.product((0, 1), repeat=7):
            for op, rc in pairs:
                k += 1
                mid = (0, 1, 0xFFFF)[k % 3]
                qs = ((b"example.com", 255, 1),) if k % 2 else ()
                qr, aa, tc, rd, ra, ad, cd = flags
                yield ((mid, qr, op, aa, tc, rd, ra, ad, cd, rc), qs, (), (), (), 0)

    def check(self, case):
        return roundtrip_problem(case)


# --------------------------------------------------------------------------
# 4. every record type, field values at the ends of their ranges
# --------------------------------------------------------------------------

_MAXNAME = b".".join([b"m" * 63, b"n" * 63, b"o" * 63, b"p" * 61])
_NAMES = (b"host.example.com", b"", b"a", b"EXAMPLE.com", b"X" * 63, b"\x00.\xc0\x0c.\xff", _MAXNAME)
_IP6 = (bytes(range(16)), b"\x00" * 16, b"\xff" * 16)
CAND = {
    "name": _NAMES,
    "u8": (1, 0, 255),
    "u16": (1, 0, 0xFFFF),
    "u32": (1, 0, 2 ** 31 - 1, 2 ** 31, 2 ** 32 - 1),
    "t32": (1, 0, 2 ** 31 - 1, 2 ** 31, 2 ** 32 - 1),
    "u48": (1, 0, 2 ** 48 - 1),
    "ip4": (b"\x01\x02\x03\x04", b"\x00" * 4, b"\xff" * 4),
    "ip6": _IP6,
    "blob": (b"\x01\xc0\x0c\x00", b"", b"\x00", ("rep", b"\xab", 300)),
    "cs": (b"Ab\x00", b"", b"\xff", ("rep", b"\xc0", 255)),
    "charstr": (b"Ab\x00", b"", b"\xff", ("rep", b"\xc0", 255)),
}
_TXT_CANDS = ((b"v=spf1 -all",), (b"",), (b"", b""), (("rep", b"t", 255),), (b"a", b"", ("rep", b"\xff", 255), b"\x00"),
              tuple(bytes([i]) for i in range(40)))


def _a6_suffix(p, ones=True):
    """A 16-byte suffix with the leading p bits zero."""
    v = (1 << (128 - p)) - 1 if ones else (1 << (128 - p)) >> 1
    return v.to_bytes(16, "big")


class RecordFields(Bounded):
    prop = "C32"
    title = ("one record of every Record_* class (and unknown types) per message, field values at the ends of their "
             "ranges: encode -> independent RDATA reader sees the fields; decode == original")
    scope = ("types A NS MD MF CNAME SOA MB MG MR NULL WKS PTR HINFO MINFO MX TXT RP AFSDB AAAA SRV NAPTR A6 DNAME "
             "SSHFP SPF TSIG + unknown types {19,46,257,65280,65535}; integers at {0,1,max} (32-bit fields also "
             "2^31-1, 2^31), names from {typical, root, 1 label, case variant of the owner's suffix, 63-byte label, "
             "labels with 0x00/0xC0 bytes, 255-byte name}, strings/blobs empty, 1 byte, 255 / 300 bytes and the "
             "largest RDATA (65535); A6 prefix lengths {0,1,7,8,9,63,64,65,120,121,127,128}; class {1,255,65535,0}; "
             "ttl {0,1,2^31-1}; per type: base, each field at each candidate, all-min, all-max, full product when "
             "<= 300 (thorough <= 20000, else 3000 random combinations); record placed in each section; "
             "a question with a case variant of the owner name is present")
    functions = ["RRHeader.encode", "RRHeader.decode", "Message.parseRecords", "Message.lookupRecordType",
                 "Record_*.encode", "Record_*.decode", "UnknownRecord.encode", "UnknownRecord.decode",
                 "Charstr.encode", "Charstr.decode", "Name.encode", "Name.decode"]

    OWNER = b"host.example.com"

    def _msg(self, k, mnem, fields, rcls=1, ttl=3600):
        rr = (self.OWNER, mnem, rcls, ttl, fields)
        secs = [(), (), ()]
        secs[k % 3] = (rr,)
        hdr = (7, 1, 0, (k // 3) % 2, 0, 1, 1, 0, 0, 0)
        return (hdr, ((b"Host.Example.COM", rr_type(mnem, fields), 1),), secs[0], secs[1], secs[2], 0)

    def _field_sets(self, mnem):
        if mnem in ("TXT", "SPF"):
            return None
        if mnem == "A6":
            return None
        return [CAND[kind] for _attr, kind in SCHEMA[mnem][2]]

    def cases(self, tier, rng):
        k = 0
        cap = 300 if tier == "quick" else 20000
        for mnem in ALL_MNEMS:
            if mnem in ("TXT", "SPF"):
                for t in _TXT_CANDS:
                    for sec in range(3):
                        yield ("%s:%d strings" % (mnem, len(t)), self._msg(sec, mnem, t))
                continue
            if mnem == "A6":
                for p in (0, 1, 7, 8, 9, 63, 64, 65, 120, 121, 127, 128):
                    for ones in (True, False):
                        for prefix in ((b"",) if p == 0 else (b"pfx.example.com", b"", _MAXNAME)):
                            k += 1
                            yield ("A6:prefixLen=%d" % p, self._msg(k, mnem, (p, _a6_suffix(p, ones), prefix)))
                continue
            sets = self._field_sets(mnem)
            attrs = [a for a, _k in SCHEMA[mnem][2]]
            base = tuple(s[0] for s in sets)
            seen = set()

            def emit(fields, label):
                nonlocal k
                if fields in seen:
                    return None
                seen.add(fields)
                k += 1
                return ("%s:%s" % (mnem, label), self._msg(k, mnem, fields))
            for sec in range(3):
                yield ("%s:base" % mnem, self._msg(sec + 3 * (sec % 2), mnem, base))
            seen.add(base)
            for i, s in enumerate(sets):
                for v in s[1:]:
                    c = emit(base[:i] + (v,) + base[i + 1:], "%s=%s" % (attrs[i], _short(v, 40)))
                    if c:
                        yield c
            for label, pick in (("all-min", 1), ("all-max", -1)):
                c = emit(tuple(s[pick] for s in sets), label)
                if c:
                    yield c
            total = 1
            for s in sets:
                total *= len(s)
            if total <= cap:
                for fields in itertools.product(*sets):
                    c = emit(fields, "product")
                    if c:
                        yield c
            elif tier != "quick":
                for _ in range(3000):
                    c = emit(tuple(rng.choice(s) for s in sets), "random")
                    if c:
                        yield c
            for rcls in (255, 65535, 0):
                k += 1
                yield ("%s:class=%d" % (mnem, rcls), self._msg(k, mnem, base, rcls=rcls))
            for ttl in (0, 1, 2 ** 31 - 1):
                k += 1
                yield ("%s:ttl=%d" % (mnem, ttl), self._msg(k, mnem, base, ttl=ttl))
        # the largest RDATA a record can carry
        big = (("NULL", (("rep", b"N", 65535),)), ("WKS", (b"\x7f\x00\x00\x01", 6, ("rep", b"\xff", 65530))),
               ("SSHFP", (4, 2, ("rep", b"\x5a", 65533))),
               ("TSIG", (b"", 2 ** 48 - 1, 65535, ("rep", b"M", 65518), 65535, 65535, b"")),
               ("TSIG", (b"hmac-sha256", 1, 300, ("rep", b"M", 32), 7, 18, ("rep", b"o", 65000))),
               ("TXT", tuple(("rep", b"T", 255) for _ in range(255)) + (("rep", b"T", 254),)),
               ("NAPTR", (65535, 0, ("rep", b"f", 255), ("rep", b"s", 255), ("rep", b"r", 255), _MAXNAME)))
        for mnem, fields in big:
            k += 1
            yield ("%s:largest" % mnem, self._msg(k, mnem, fields))
        for code in (19, 46, 257, 65280, 65535):
            for data in (b"\x03abc\xc0\x0c", b"", b"\x00", ("rep", b"u", 300), ("rep", b"u", 65535)):
                k += 1
                yield ("TYPE%d" % code, self._msg(k, "UNK", (code, data)))

    def check(self, case):
        _label, spec = case
        return roundtrip_problem(spec)


# --------------------------------------------------------------------------
# 5. name compression stress
# --------------------------------------------------------------------------

def compression_spec(n1, n2, n3, n4):
    sfx = _a6_suffix(8)
    an = ((n2, "CNAME", 1, 5, (n3,)), (n2, "MX", 1, 5, (10, n1)), (n3, "A", 1, 5, (b"\x01\x02\x03\x04",)))
    ns = ((n3, "SOA", 1, 6, (n4, n1, 1, 2, 3, 4, 5)), (n4, "NS", 1, 6, (n2,)), (n1, "RP", 1, 6, (n4, n3)))
    ar = ((n4, "SRV", 1, 7, (1, 2, 3, n3)), (n2, "A6", 1, 7, (8, sfx, n4)), (n1, "NAPTR", 1, 7, (1, 2, b"u", b"s", b"!", n2)),
          (n3, "MINFO", 1, 7, (n1, n4)), (n4, "TSIG", 255, 0, (n2, 1, 300, b"mac", 1, 0, b"")),
          (n1, "AFSDB", 1, 7, (1, n3)), (n2, "PTR", 1, 7, (n2,)))
    return (HDR0, ((n1, 1, 1), (n4, 255, 1)), an, ns, ar, 0)


class CompressionStress(Bounded):
    prop = "C32"
    title = ("messages whose 2 questions and 13 records draw every name from a small pool with shared suffixes and "
             "case variants: the compressed encoding is read correctly by the independent decoder and decodes to an "
             "equal message")
    scope = ("every 4-tuple (n1,n2,n3,n4) over the pool {root, a, A, b, a.b, A.b, a.B, b.a.b, a.a, 'C0 0C'.b (a label "
             "holding the bytes of a pointer)} (thorough adds a.a.a, ab, b.ab) placed in question names, owner names, compressible "
             "rdata names (CNAME MX SOA NS RP MINFO AFSDB PTR TSIG) and uncompressed ones (SRV A6 NAPTR); exhaustive")
    functions = ["Name.encode", "Name.decode", "Message.encode", "Message.decode", "RRHeader.encode",
                 "Query.encode", "Record_SOA.encode", "Record_MX.encode", "SimpleRecord.encode"]

    def cases(self, tier, rng):
        pool = [b"", b"a", b"A", b"b", b"a.b", b"A.b", b"a.B", b"b.a.b", b"a.a", b"\xc0\x0c.b"]
        if tier != "quick":
            pool += [b"a.a.a", b"ab", b"b.ab"]
        for t in itertools.product(pool, repeat=4):
            yield t

    def nontrivial(self, case):
        return len(set(case)) > 1

    def check(self, case):
        return roundtrip_problem(compression_spec(*case))


# --------------------------------------------------------------------------
# 6. names first written beyond the reach of a 14-bit compression pointer
# --------------------------------------------------------------------------

class PointerRange(Bounded):
    prop = "C32"
    title = ("a large (TCP-size) message in which a name is first written at a chosen offset around and beyond "
             "0x3FFF and used again afterwards: independent decoder and twisted decoder both read the original names")
    scope = ("offset of the first occurrence of 'late.example' in every value 0x3F60..0x4020 (so that the ~130 "
             "bytes of records that follow it slide across the 0x4000 boundary one byte at a time) and {0x7FFF,"
             "0x8000,0xBFFF,0xC000,0xFF00} (thorough: also every 97th offset up to 0xFF00); the message then repeats "
             "that name as owner, in NS rdata, as 'www.late.example' and 'other.example' (both reused later too), "
             "and repeats an early name; message size < 65536; no size limit")
    functions = ["Name.encode", "Name.decode", "Message.encode", "Message.decode"]

    def cases(self, tier, rng):
        offs = list(range(0x3F60, 0x4021)) + [0x7FFF, 0x8000, 0xBFFF, 0xC000, 0xFF00]
        if tier != "quick":
            offs += list(range(0x100, 0xFF00, 97))
        for o in offs:
            yield o

    def check(self, off):
        # header 12 + question "early.zone" (12+4) + filler RR: owner "f" (3) + 10 + payload
        pay = off - (12 + 16 + 13)
        if pay < 0:
            raise Bounded.Skip()
        a = b"\x01\x02\x03\x04"
        spec = (HDR0, ((b"early.zone", 1, 1),),
                ((b"f", "NULL", 1, 0, (("rep", b"\x00", pay),)),
                 (b"late.example", "A", 1, 1, (a,)),
                 (b"late.example", "A", 1, 2, (a,)),
                 (b"www.late.example", "A", 1, 3, (a,)),
                 (b"other.example", "NS", 1, 4, (b"late.example",)),
                 (b"early.zone", "MX", 1, 5, (5, b"www.late.example")),
                 (b"www.early.zone", "CNAME", 1, 6, (b"other.example",))),
                (), (), 0)
        w = build_message(spec, limit=0).toStr()
        if w.find(b"\x04late\x07example\x00") != off:
            return "harness: the name landed at %d, wanted %d" % (w.find(b"\x04late\x07example\x00"), off)
        return roundtrip_problem(spec, w)


# --------------------------------------------------------------------------
# 7. size limits
# --------------------------------------------------------------------------

_TRUNC_BASES = (
    (HDR0, ((b"example.com", 1, 1),),
     ((b"example.com", "A", 1, 60, (b"\x01\x01\x01\x01",)), (b"example.com", "A", 1, 60, (b"\x02\x02\x02\x02",)),
      (b"www.example.com", "CNAME", 1, 60, (b"example.com",))),
     ((b"example.com", "NS", 1, 60, (b"ns1.example.com",)), (b"example.com", "NS", 1, 60, (b"ns2.EXAMPLE.com",))),
     ((b"ns1.example.com", "AAAA", 1, 60, (bytes(range(16)),)), (b"ns2.example.com", "A", 1, 60, (b"\x09\x09\x09\x09",))),
     0),
    (HDR0, ((b"a.example", 16, 1), (b"b.example", 6, 1), (b"c.example", 255, 255)), (), (), (), 0),
    ((9, 1, 0, 1, 0, 0, 0, 1, 1, 3), ((b"t.example", 16, 1),),
     ((b"t.example", "TXT", 1, 1, (b"first string", b"", b"\x00\x01\x02")),
      (b"t.example", "SPF", 1, 1, (b"v=spf1", b"-all")),
      (b"t.example", "HINFO", 1, 1, (b"cpu", b"os"))),
     ((b"example", "SOA", 1, 2, (b"ns.example", b"root.example", 1, 2, 3, 4, 5)),),
     ((b"t.example", "NULL", 1, 3, (b"\x00" * 9,)), (b"x", "UNK", 1, 3, (65280, b"\xc0\x0c\x00")),
      (b"", "OPT", 0, 0, (4096, 0, 0, 1, ((3, b"id"),)))),
     0),
    (HDR0, (),
     ((b"_sip._udp.example", "SRV", 1, 5, (1, 2, 5060, b"sip.example")),
      (b"example", "NAPTR", 1, 5, (1, 2, b"s", b"SIP+D2U", b"", b"_sip._udp.example")),
      (b"example", "A6", 1, 5, (64, _a6_suffix(64), b"pfx.example")),
      (b"k.example", "TSIG", 255, 0, (b"hmac-md5.sig-alg.reg.int", 0x010203040506, 300, b"0123456789abcdef", 77, 0, b"")),
      (b"example", "WKS", 1, 5, (b"\x0a\x00\x00\x01", 6, b"\x00\x00\x40")),
      (b"example", "SSHFP", 1, 5, (1, 1, b"\x11" * 20)),
      (b"example", "MINFO", 1, 5, (b"r.example", b"e.example")),
      (b"example", "RP", 1, 5, (b"m.example", b"t.example")),
      (b"example", "AFSDB", 1, 5, (1, b"afs.example"))),
     (), (), 0),
)


def _with_limit(spec, limit):
    return spec[:5] + (limit,)


def _random_label(rng):
    n = rng.choice((1, 1, 1, 2, 3, 5, 9, 20, 62, 63))
    return bytes(rng.choice(b"abcABC019-_\x00\xc0\xff *") for _ in range(n))


def _random_name(rng, pool):
    for _ in range(20):
        how = rng.randrange(6)
        if how == 0 or not pool:
            name = b".".join(_random_label(rng) for _ in range(rng.randrange(0, 4)))
        elif how == 1:
            name = rng.choice(pool)
        elif how == 2:
            name = rng.choice(pool).swapcase()
        elif how == 3:
            base = rng.choice(pool)
            name = _random_label(rng) + (b"." + base if base else b"")
        elif how == 4:
            base = rng.choice(pool)
            name = base.split(b".", 1)[1] if b"." in base else b""
        else:
            name = b""
        if representable(name):
            pool.append(name)
            return name
    return b""


def _random_blob(rng, most):
    n = rng.choice((0, 1, 2, 7, 40, most))
    return bytes(rng.randrange(256) for _ in range(min(n, most)))


def _random_fields(rng, mnem, pool):
    if mnem in ("TXT", "SPF"):
        return tuple(_random_blob(rng, 255) for _ in range(rng.randrange(1, 4)))
    if mnem == "A6":
        p = rng.choice((0, 8, 64, 128, rng.randrange(129)))
        v = rng.getrandbits(128) & ((1 << (128 - p)) - 1)
        return (p, v.to_bytes(16, "big"), _random_name(rng, pool) if p else b"")
    out = []
    for _attr, kind in SCHEMA[mnem][2]:
        if kind == "name":
            out.append(_random_name(rng, pool))
        elif kind == "t32":
            out.append(rng.choice((0, 1, 2 ** 31 - 1, rng.randrange(2 ** 31))))
        elif kind in ("u8", "u16", "u32", "u48"):
            top = 2 ** int(kind[1:]) - 1
            out.append(rng.choice((0, 1, top, rng.randrange(top + 1))))
        elif kind == "ip4":
            out.append(bytes(rng.randrange(256) for _ in range(4)))
        elif kind == "ip6":
            out.append(bytes(rng.randrange(256) for _ in range(16)))
        elif kind == "blob":
            out.append(_random_blob(rng, 300))
        else:
            out.append(_random_blob(rng, 255))
    return tuple(out)


def random_spec(rng):
    pool = [b"example.com"]
    hdr = (rng.randrange(65536), rng.randrange(2), rng.randrange(16)) + tuple(rng.randrange(2) for _ in range(6)) + (
        rng.randrange(16),)
    qs = tuple((_random_name(rng, pool), rng.choice((1, 2, 15, 28, 255, 65535)), rng.choice((1, 3, 255)))
               for _ in range(rng.choice((0, 1, 1, 1, 2, 3))))
    secs = []
    for _ in range(3):
        sec = []
        for _ in range(rng.choice((0, 0, 1, 2, 3, 5))):
            if rng.randrange(12) == 0:
                code = rng.choice((19, 46, 257, 65280, 65535))
                sec.append((_random_name(rng, pool), "UNK", 1, rng.randrange(2 ** 31), (code, _random_blob(rng, 300))))
            else:
                mnem = rng.choice(ALL_MNEMS)
                sec.append((_random_name(rng, pool), mnem, rng.choice((1, 1, 1, 3, 255, 65535)),
                            rng.choice((0, 1, 300, 2 ** 31 - 1, rng.randrange(2 ** 31))),
                            _random_fields(rng, mnem, pool)))
        secs.append(tuple(sec))
    if rng.randrange(4) == 0:
        opts = tuple((rng.randrange(65536), _random_blob(rng, 40)) for _ in range(rng.randrange(3)))
        secs[2] = secs[2] + ((b"", "OPT", 0, 0, (rng.choice((0, 512, 4096, 65535)), rng.randrange(256),
                                                rng.randrange(256), rng.randrange(2), opts)),)
    return (hdr, qs, secs[0], secs[1], secs[2], 0)


class Truncation(Bounded):
    prop = "C32"
    title = ("every size limit from 12 to one past the full size: at or above the full size the encoding is "
             "unchanged and round-trips; below it the encoding fits, carries TC, and both decoders read a prefix of "
             "the original questions and records")
    scope = ("4 fixed messages (all sections populated with compression; questions only; TXT/SPF/HINFO/SOA/NULL/"
             "unknown/OPT; SRV/NAPTR/A6/TSIG/WKS/SSHFP/MINFO/RP/AFSDB) x every maxSize in 12..size+1; plus 8 (thorough "
             "60) seeded random messages of <= 1500 bytes x every maxSize; limits below the 12-byte header are out "
             "of scope")
    functions = ["Message.encode", "Message.toStr", "Message.decode", "Message.parseRecords"]

    def cases(self, tier, rng):
        bases = list(_TRUNC_BASES)
        if True:
            while len(bases) < len(_TRUNC_BASES) + (8 if tier == "quick" else 60):
                s = random_spec(rng)
                try:
                    if len(build_message(s, limit=0).toStr()) <= 1500:
                        bases.append(s)
                except Exception:
                    bases.append(s)
        for spec in bases:
            try:
                size = len(build_message(spec, limit=0).toStr())
            except Exception:
                size = 12
            for limit in range(12, size + 2):
                yield _with_limit(spec, limit)

    def check(self, case):
        return message_problem(case)


class RandomMessages(Bounded):
    prop = "C32"
    title = ("seeded random messages over all record classes, unknown types and OPT, names drawn from a growing pool "
             "(reuse, case flips, new label + old suffix, parent of an old name), random size limit: round trip / "
             "truncation contract as for the exhaustive classes")
    scope = ("quick 4000, thorough 40000 messages; 0..3 questions, 0..5 records per section, any header; size limit "
             "absent (half of the cases) or uniform in 12..size+20; SOA intervals <= 2^31-1; not exhaustive (random)")
    functions = ["Message.encode", "Message.decode", "Message.parseRecords", "Record_*.encode", "Record_*.decode",
                 "_OPTHeader.encode", "_OPTHeader.fromRRHeader"]

    def cases(self, tier, rng):
        for _ in range(4000 if tier == "quick" else 40000):
            spec = random_spec(rng)
            if rng.randrange(2):
                try:
                    size = len(build_message(spec, limit=0).toStr())
                except Exception:
                    size = 12
                spec = _with_limit(spec, rng.randrange(12, size + 21))
            yield spec

    def check(self, case):
        return message_problem(case)


# --------------------------------------------------------------------------
# 8. EDNS
# --------------------------------------------------------------------------

class Edns(Bounded):
    prop = "C32"
    title = ("_EDNSMessage fields (12-bit rcode, version, DO, payload size) and _OPTHeader options: the encoding "
             "carries one OPT pseudo-record with the RFC 6891 layout, and decoding yields an equal object")
    scope = ("_EDNSMessage: rCode {0,1,15,16,17,0xFF0,0xFFF} x ednsVersion {None,0,1,255} x dnssecOK x maxSize "
             "{0,1,512,4096,65535} x flags {all clear, all set} x {no records, question+3 records} (without OPT: "
             "rCode < 16, maxSize 512), encodings up to 512 bytes; _OPTHeader: udpPayloadSize/extendedRCODE/version "
             "at {0,1,max} x DO x option lists {none, one empty, code 65535 with 1000 bytes, three options}, "
             "stand-alone encode/decode and inside Message.additional; exhaustive")
    functions = ["_EDNSMessage.toStr", "_EDNSMessage.fromStr", "_EDNSMessage._toMessage", "_EDNSMessage._fromMessage",
                 "_OPTHeader.encode", "_OPTHeader.decode", "_OPTHeader.fromRRHeader", "_OPTVariableOption.encode",
                 "_OPTVariableOption.decode"]

    RECS = (((b"example.com", 1, 1),),
            ((b"example.com", "A", 1, 60, (b"\x01\x02\x03\x04",)),),
            ((b"example.com", "NS", 1, 60, (b"ns.example.com",)),),
            ((b"ns.example.com", "AAAA", 1, 60, (bytes(range(16)),)),))

    def cases(self, tier, rng):
        for rc in (0, 1, 15, 16, 17, 0xFF0, 0xFFF):
            for ver in (None, 0, 1, 255):
                for do in (False, True):
                    for size in (0, 1, 512, 4096, 65535):
                        if ver is None and (rc > 15 or size != 512 or do):
                            continue
                        for flags in (0, 1):
                            for recs in (0, 1):
                                yield ("edns", rc, ver, do, size, flags, recs)
        optsets = ((), ((0, b""),), ((65535, ("rep", b"x", 1000)),), ((3, b"nsid"), (8, b"\x00\x01\x18\x00\xc0\x00\x02"), (10, b"")))
        for udp in (0, 1, 512, 65535):
            for ext in (0, 1, 255):
                for ver in (0, 1, 255):
                    for do in (0, 1):
                        for opts in optsets:
                            yield ("opt", udp, ext, ver, do, opts)

    def check(self, case):
        if case[0] == "opt":
            return self._opt(case)
        _k, rc, ver, do, size, flags, recs = case
        f = bool(flags)
        qs, an, ns, ar = self.RECS if recs else ((), (), (), ())
        e = dns._EDNSMessage(id=0xBEEF, answer=f, opCode=5 if flags else 0, auth=f, trunc=f, recDes=f, recAv=f,
                             rCode=rc, ednsVersion=ver, dnssecOK=do, authenticData=f, checkingDisabled=f,
                             maxSize=size, queries=[dns.Query(n, t, c) for n, t, c in qs],
                             answers=[build_rr(r, f) for r in an], authority=[build_rr(r, f) for r in ns],
                             additional=[build_rr(r, f) for r in ar])
        try:
            wire = e.toStr()
        except Exception as ex:
            return "encoding raised %r" % (ex,)
        if len(wire) > 512:
            raise Bounded.Skip()
        ar_exp = list(ar)
        if ver is not None:
            ar_exp.append((b"", "OPT", 0, 0, (size, rc >> 4, ver, do, ())))
        exp = expected_message(((0xBEEF, f, 5 if flags else 0, f, f, f, f, f, f, rc & 15), qs, an, ns, tuple(ar_exp), 0))
        try:
            got = parse_message(wire)
        except WireError as ex:
            return "independent decoder rejects the encoding: %s" % ex
        diff = _first_difference(got[:3], exp)
        if diff:
            return "independent decoder: " + diff
        d = dns._EDNSMessage()
        try:
            d.fromStr(wire)
        except Exception as ex:
            return "decoding raised %r" % (ex,)
        if (d.rCode, d.ednsVersion, bool(d.dnssecOK), d.maxSize) != (rc, ver, do, size):
            return "decoded (rCode, ednsVersion, dnssecOK, maxSize) = %r, original %r" % (
                (d.rCode, d.ednsVersion, d.dnssecOK, d.maxSize), (rc, ver, do, size))
        if not (d == e):
            return "decoded %r != original %r" % (d, e)
        return None

    def _opt(self, case):
        _k, udp, ext, ver, do, opts = case
        fields = (udp, ext, ver, do, opts)
        o = build_opt(fields)
        s = BytesIO()
        try:
            o.encode(s)
        except Exception as ex:
            return "_OPTHeader.encode raised %r" % (ex,)
        raw = s.getvalue()
        want = expected_rr((b"", "OPT", 0, 0, fields))
        r = _Reader(raw, 0, len(raw))
        try:
            owner, t, c, ttl, n = r.name(), r.u16(), r.u16(), r.u32(), r.u16()
            rd = _rdata(t, _Reader(raw, r.pos, r.pos + n))
            if r.pos + n != len(raw):
                raise WireError("RDLENGTH %d, %d bytes follow" % (n, len(raw) - r.pos))
        except WireError as ex:
            return "independent decoder rejects the OPT record: %s" % ex
        if (owner, t, c, ttl, rd) != want:
            return "independent decoder reads %s, expected %s" % (_short((owner, t, c, ttl, rd)), _short(want))
        o2 = dns._OPTHeader()
        try:
            o2.decode(BytesIO(raw))
        except Exception as ex:
            return "_OPTHeader.decode raised %r" % (ex,)
        if not (o2 == o):
            return "decoded %r != original %r" % (o2, o)
        spec = (HDR0, ((b"example.com", 1, 1),), (), (), ((b"example.com", "A", 1, 1, (b"\x01\x02\x03\x04",)),
                                                           (b"", "OPT", 0, 0, fields)), 0)
        return roundtrip_problem(spec)


# --------------------------------------------------------------------------
# helpers for describing regions of the case space (e.g. for known-finding
# predicates); they are not used by the checks themselves
# --------------------------------------------------------------------------

def _records_of(case):
    spec = case[1] if len(case) == 2 and isinstance(case[0], str) else case
    if not (isinstance(spec, tuple) and len(spec) == 6):
        return []
    return [r for sec in spec[2:5] for r in sec]


def case_has_unaligned_a6(case):
    """A message description containing an A6 record whose prefix length is not a multiple of 8."""
    return any(r[1] == "A6" and r[4][0] % 8 for r in _records_of(case))


def case_has_soa_interval_over_31_bits(case):
    """... containing an SOA record whose REFRESH/RETRY/EXPIRE is >= 2^31."""
    return any(r[1] == "SOA" and max(r[4][3:6]) >= 2 ** 31 for r in _records_of(case))


BOUNDED = [NameCodec, UnrepresentableNames, HeaderFields, RecordFields, CompressionStress, PointerRange,
           Truncation, RandomMessages, Edns]
