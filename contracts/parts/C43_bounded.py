"""C43 (bounded tier): IRC messages are split within the length limit without losing content; CTCP and low-level
quoting round-trip any text.

The real code (IRCClient.msg / notice / say -> _sendMessage -> split -> sendLine -> _reallySendLine -> lowQuote,
and ctcpQuote / ctcpDequote / lowQuote / lowDequote) is run on every case; the oracle is an independent reading of the
wire octets written to the transport (RFC 1459 framing: `COMMAND SP target SP ':' trailing`, one terminator per line;
CTCP specification: M-QUOTE = 0x10 low-level quoting, X-QUOTE = backslash CTCP-level quoting)."""
import itertools

from pyvc.api import Bounded

from twisted.internet.testing import StringTransport
from twisted.words.protocols import irc

RFC_MAX_LINE = 512  # RFC 1459 2.3: 512 characters maximum for a message, including the trailing CR-LF

# ------------------------------------------------------------------ reference side (independent of irc.py)

M_QUOTE = "\x10"
LOW_TABLE = {"\x00": M_QUOTE + "0", "\n": M_QUOTE + "n", "\r": M_QUOTE + "r", M_QUOTE: M_QUOTE + M_QUOTE}
X_QUOTE = "\\"
CTCP_TABLE = {"\x01": X_QUOTE + "a", X_QUOTE: X_QUOTE + X_QUOTE}


def ref_quote(s, table):
    """Character by character: a character of the table becomes its two-character escape."""
    return "".join(table.get(c, c) for c in s)


def ref_dequote(s, quote_char, table):
    """Left to right scan: quote character + x decodes to the character whose escape ends in x (x itself if none)."""
    back = {v[1]: k for k, v in table.items()}
    out, i = [], 0
    while i < len(s):
        if s[i] == quote_char and i + 1 < len(s):
            out.append(back.get(s[i + 1], s[i + 1]))
            i += 2
        else:
            out.append(s[i])
            i += 1
    return "".join(out)


def visible(s):
    """The non-whitespace characters of s, in order."""
    return "".join(c for c in s if not c.isspace())


def wire_cost(c):
    """Octets any sender needs on the wire for the character c of a message text."""
    if c in "\x00\x10":
        return 2  # cannot travel unquoted through the low-level quoting layer
    return len(c.encode("utf-8"))


def wire_lines(wire):
    """Cut the written octets into (body, octets_including_terminator); None if the last line is unterminated.
    The terminator is LF optionally preceded by one CR."""
    if not wire:
        return []
    if not wire.endswith(b"\n"):
        return None
    out = []
    for seg in wire[:-1].split(b"\n"):
        n = len(seg) + 1
        body = seg[:-1] if seg.endswith(b"\r") else seg
        out.append((body, n))
    return out


def judge(wire, command, target, text, limit):
    """The property, read off the wire: None if it holds, else a description."""
    lines = wire_lines(wire)
    if lines is None:
        return "last line not terminated: %r" % (wire[-20:],)
    head = ("%s %s :" % (command, target)).encode("utf-8")
    parts_raw, parts_deq = [], []
    for body, n in lines:
        if n > limit:
            return "line of %d octets (with terminator) exceeds the limit %d: %r" % (n, limit, body)
        if b"\r" in body or b"\n" in body:
            return "CR or LF inside a line: %r" % (body,)
        if not body.startswith(head):
            return "line is not `%s`...: %r" % (head.decode(), body)
        try:
            part = body[len(head):].decode("utf-8")
        except UnicodeDecodeError:
            return "message part is not UTF-8 (a code point was cut): %r" % (body,)
        parts_raw.append(part)
        parts_deq.append(ref_dequote(part, M_QUOTE, LOW_TABLE))
    want = visible(text)
    # the message part as the peer sees it: after low-level dequoting (or, equally accepted, taken literally)
    if visible("".join(parts_deq)) != want and visible("".join(parts_raw)) != want:
        return "message parts %r carry %r, the message's non-whitespace characters are %r" % (
            parts_deq, visible("".join(parts_deq)), want)
    return None


# ------------------------------------------------------------------ driving the real client

KINDS = {  # kind -> (method, first argument, command on the wire, target on the wire)
    "msg": ("msg", "#c", "PRIVMSG", "#c"),
    "notice": ("notice", "bob", "NOTICE", "bob"),
    "say": ("say", "c", "PRIVMSG", "#c"),
}


def overhead(kind):
    _, _, command, target = KINDS[kind]
    return len(("%s %s :" % (command, target)).encode("utf-8")) + 2


def send(kind, text, limit):
    method, arg, _, _ = KINDS[kind]
    client = irc.IRCClient()
    client.performLogin = False
    transport = StringTransport()
    client.makeConnection(transport)
    transport.clear()
    getattr(client, method)(arg, text, limit)
    return transport.value()


def texts_upto(alphabet, n):
    for k in range(0, n + 1):
        for t in itertools.product(alphabet, repeat=k):
            yield "".join(t)


class _Split(Bounded):
    prop = "C43"
    functions = ["IRCClient.msg", "IRCClient.notice", "IRCClient.say", "IRCClient._sendMessage", "irc.split",
                 "IRCClient.sendLine", "IRCClient._reallySendLine", "irc.lowQuote"]

    # subclasses: alphabet, exhaustive length, rooms, word material for the structured and random families
    alphabet = ""
    core = ""           # sub-alphabet enumerated one character longer
    heavy = ""        # the characters that make this class's scope special (for nontrivial())
    word_chars = "a"
    n_quick, n_thorough = 5, 6
    rooms_quick, rooms_thorough = (1, 2, 3), (1, 2, 3, 4)
    min_room = 1

    def _structured(self, rooms, seps, units):
        """Long words around the limit: two or three words of every length 0..room+2 joined by every separator."""
        for room in rooms:
            for unit in units:
                for n1 in range(0, room + 3):
                    for n2 in range(0, room + 3):
                        for s1 in seps:
                            yield (unit * n1 + s1 + unit * n2, room)
                            for s2 in seps[:3]:
                                yield (unit * n1 + s1 + unit * n2 + s2 + unit, room)

    def cases(self, tier, rng):
        quick = tier == "quick"
        n = self.n_quick if quick else self.n_thorough
        rooms = self.rooms_quick if quick else self.rooms_thorough
        for text in texts_upto(self.alphabet, n):
            for room in rooms:
                yield ("msg", text, overhead("msg") + room)
        # one character longer over the core alphabet
        for t in itertools.product(self.core, repeat=n + 1):
            for room in rooms:
                yield ("msg", "".join(t), overhead("msg") + room)
        # the other entry points on a thinner slice
        for kind in ("notice", "say"):
            for text in texts_upto(self.alphabet, 4 if quick else 5):
                yield (kind, text, overhead(kind) + rooms[-1])
        seps = (" ", "\n", "  ", "\r\n", "\t", "-", " \n ", "\r")
        big_rooms = (4, 5, 8) if quick else (4, 5, 6, 7, 8, 11)
        units = tuple(self.word_chars)
        for text, room in self._structured(big_rooms, seps, units):
            yield ("msg", text, overhead("msg") + room)
        # default limit (None): the client chooses it; the protocol's own limit then applies
        for unit in units:
            for count in (1, 200, 389, 390, 391, 500, 1100):
                yield ("msg", unit * count, None)
                yield ("notice", (unit * 7 + " ") * count, None)
        # seeded random larger inputs
        pool = self.alphabet + self.word_chars * 3
        for _ in range(300 if quick else 6000):
            pieces = []
            for _ in range(rng.randint(1, 12)):
                r = rng.random()
                if r < 0.35:
                    pieces.append("".join(rng.choice(self.word_chars) for _ in range(rng.randint(1, 90))))
                elif r < 0.7:
                    pieces.append("".join(rng.choice(pool) for _ in range(rng.randint(1, 12))))
                else:
                    pieces.append(rng.choice((" ", "\n", "\r\n", "\t", "  ", "\r", " \n", "\n\n")))
            kind = rng.choice(("msg", "notice", "say"))
            r = rng.random()
            if r < 0.1:
                limit = None
            elif r < 0.55:
                limit = overhead(kind) + rng.randint(self.min_room, 12)
            else:
                limit = overhead(kind) + rng.randint(self.min_room, RFC_MAX_LINE - overhead(kind))
            yield (kind, "".join(pieces), limit)

    def nontrivial(self, case):
        kind, text, limit = case
        room = (RFC_MAX_LINE if limit is None else limit) - overhead(kind)
        return "\n" in text or sum(wire_cost(c) for c in text) > room

    def check(self, case):
        kind, text, limit = case
        _, _, command, target = KINDS[kind]
        effective = RFC_MAX_LINE if limit is None else limit
        room = effective - overhead(kind)
        # precondition: the limit leaves room for the framing and for the widest single character of the text,
        # otherwise no sender can satisfy the property
        if room < 1 or room < max([wire_cost(c) for c in text if not c.isspace()] or [1]):
            raise Bounded.Skip()
        try:
            wire = send(kind, text, limit)
        except ValueError as e:
            return "refused a satisfiable limit (room %d): ValueError %s" % (room, e)
        return judge(wire, command, target, text, effective)


class SplitAscii(_Split):
    title = ("wire octets of msg/notice/say on one-octet texts vs. the property read off the wire: every line <= limit "
             "with terminator, no CR/LF inside, message parts concatenate to the text's non-whitespace characters")
    scope = ("texts over {a,b,SP,LF,CR,TAB,'-',':'} of length <= 5 (thorough 6) and over {a,SP,LF,CR,TAB,'-'} of "
             "length 6 (7) x payload room 1..3 (thorough 1..4) "
             "for msg, length <= 4 (5) for notice and say; two/three words of every length 0..room+2 around rooms "
             "{4,5,8} (thorough up to 11) joined by 8 separators (SP, LF, CRLF, TAB, hyphen, ...); default limit "
             "(None, judged against RFC 512) on words of 1..1100 characters; 300 (6000) seeded random texts up to "
             "~600 characters with long words and random limits up to 512. Exhaustive except the random part")
    alphabet = "ab \n\r\t-:"
    core = "a \n\r\t-"
    word_chars = "a"
    n_quick, n_thorough = 5, 6


class SplitMultibyte(_Split):
    title = ("same wire judgement on texts with 2-, 3- and 4-octet code points: the limit is in octets, "
             "no code point may be cut")
    scope = ("texts over {a,SP,LF,e-acute (2 octets),euro (3),U+1F600 (4)} of length <= 5 (thorough 6) and over "
             "{a,SP,e-acute,U+1F600} of length 6 (7) x payload room {2,4,5,6} (thorough {2,3,4,5,6,8}) for msg, <= 4 (5) for notice/say; two/three words of each of the three "
             "code points, every length 0..room+2 around rooms {4,5,8}; default limit on 1..1100 characters; "
             "300 (6000) seeded random texts. Cases whose room is smaller than the widest code point are skipped")
    alphabet = "a \né€\U0001F600"
    core = "a é\U0001F600"
    heavy = "é€\U0001F600"
    word_chars = "é€\U0001F600"
    n_quick, n_thorough = 5, 6
    rooms_quick, rooms_thorough = (2, 4, 5, 6), (2, 3, 4, 5, 6, 8)
    min_room = 4

    def nontrivial(self, case):
        return any(c in self.heavy for c in case[1]) and _Split.nontrivial(self, case)


class SplitLowQuoted(_Split):
    title = ("same wire judgement on texts with characters the low-level quoting layer expands (M-QUOTE 0x10, NUL): "
             "the limit applies to the octets actually sent")
    scope = ("texts over {a,SP,LF,CR,0x10,NUL,'0'} of length <= 5 (thorough 6) and over {a,SP,0x10,NUL} of length 6 (7) "
             "x payload room 2..4 (thorough 2..5) "
             "for msg, <= 4 (5) for notice/say; two/three words of 0x10 / NUL of every length 0..room+2 around "
             "rooms {4,5,8}; default limit; 300 (6000) seeded random texts")
    alphabet = "a \n\r\x10\x000"
    core = "a \x10\x00"
    heavy = "\x10\x00"
    word_chars = "\x10\x00"
    n_quick, n_thorough = 5, 6
    rooms_quick, rooms_thorough = (2, 3, 4), (2, 3, 4, 5)
    min_room = 2

    def nontrivial(self, case):
        return any(c in self.heavy for c in case[1]) and _Split.nontrivial(self, case)


class QuoteRoundTrip(Bounded):
    prop = "C43"
    title = ("lowDequote(lowQuote(s)) == s and ctcpDequote(ctcpQuote(s)) == s, both layers stacked, an independent "
             "CTCP-spec decoder reads the real encoders' output, the real decoders read an independent encoder's "
             "output, low-quoted text has no NUL/CR/LF, and IRCClient.sendLine puts exactly one CR/LF-free line "
             "on the wire that decodes to s")
    scope = ("every string of length <= 5 (thorough 6) over {0x10, NUL, LF, CR, 0x01, backslash, '0', 'n', 'r', "
             "'a', e-acute}: all quote characters, all quoted characters and all escape letters; plus 2000 (40000) "
             "seeded random strings of length <= 60 over that alphabet and arbitrary code points")
    functions = ["irc.lowQuote", "irc.lowDequote", "irc.ctcpQuote", "irc.ctcpDequote", "IRCClient.sendLine",
                 "IRCClient._reallySendLine"]
    alphabet = "\x10\x00\n\r\x01\\0nraé"

    def cases(self, tier, rng):
        quick = tier == "quick"
        for s in texts_upto(self.alphabet, 5 if quick else 6):
            yield s
        for _ in range(2000 if quick else 40000):
            k = rng.randint(1, 60)
            yield "".join(rng.choice(self.alphabet) if rng.random() < 0.7 else chr(rng.choice(
                (rng.randint(0, 0x7F), rng.randint(0x80, 0x7FF), rng.randint(0x800, 0xD7FF),
                 rng.randint(0x10000, 0x10FFFF)))) for _ in range(k))

    def nontrivial(self, s):
        return any(c in "\x10\x00\n\r\x01\\" for c in s)

    def check(self, s):
        lq = irc.lowQuote(s)
        if irc.lowDequote(lq) != s:
            return "lowDequote(lowQuote(s)) = %r" % (irc.lowDequote(lq),)
        if any(c in lq for c in "\x00\r\n"):
            return "lowQuote output still has NUL/CR/LF: %r" % (lq,)
        if ref_dequote(lq, M_QUOTE, LOW_TABLE) != s:
            return "a CTCP-spec low-level decoder reads lowQuote(s) = %r as %r" % (
                lq, ref_dequote(lq, M_QUOTE, LOW_TABLE))
        if irc.lowDequote(ref_quote(s, LOW_TABLE)) != s:
            return "lowDequote of the spec encoding %r = %r" % (
                ref_quote(s, LOW_TABLE), irc.lowDequote(ref_quote(s, LOW_TABLE)))
        cq = irc.ctcpQuote(s)
        if irc.ctcpDequote(cq) != s:
            return "ctcpDequote(ctcpQuote(s)) = %r" % (irc.ctcpDequote(cq),)
        if "\x01" in cq:
            return "ctcpQuote output still has the CTCP delimiter: %r" % (cq,)
        if ref_dequote(cq, X_QUOTE, CTCP_TABLE) != s:
            return "a CTCP-spec decoder reads ctcpQuote(s) = %r as %r" % (cq, ref_dequote(cq, X_QUOTE, CTCP_TABLE))
        if irc.ctcpDequote(ref_quote(s, CTCP_TABLE)) != s:
            return "ctcpDequote of the spec encoding %r = %r" % (
                ref_quote(s, CTCP_TABLE), irc.ctcpDequote(ref_quote(s, CTCP_TABLE)))
        # both layers, in the order a sender / receiver applies them
        both = irc.lowQuote(irc.ctcpQuote(s))
        if irc.ctcpDequote(irc.lowDequote(both)) != s:
            return "ctcpDequote(lowDequote(lowQuote(ctcpQuote(s)))) = %r" % (irc.ctcpDequote(irc.lowDequote(both)),)
        # the client's line writer applies the low-level layer: one line, no CR/LF inside, decodes to s
        client = irc.IRCClient()
        client.performLogin = False
        transport = StringTransport()
        client.makeConnection(transport)
        transport.clear()
        client.sendLine(s)
        lines = wire_lines(transport.value())
        if lines is None or len(lines) != 1:
            return "sendLine(s) wrote %r: not exactly one terminated line" % (transport.value(),)
        body = lines[0][0]
        if b"\r" in body or b"\n" in body:
            return "sendLine(s) wrote CR or LF inside the line: %r" % (body,)
        if ref_dequote(body.decode("utf-8"), M_QUOTE, LOW_TABLE) != s:
            return "sendLine(s) wrote %r which decodes to %r" % (
                body, ref_dequote(body.decode("utf-8"), M_QUOTE, LOW_TABLE))
        return None


class RateLimitedQueue(Bounded):
    prop = "C43"
    title = "with lineRate set the lines of every message still reach the wire, in order, one per interval"
    scope = ("lineRate 1; 1..3 messages (msg / notice) of 1..3 lines each at limit 40; the clock advanced between the "
             "messages by {0, 1, enough to drain the queue, twice that}; every combination")
    functions = ["IRCClient.sendLine", "IRCClient._sendLine", "IRCClient._reallySendLine", "IRCClient.msg", "IRCClient.notice"]

    def cases(self, tier, rng):
        texts = ["a" * 5, "word " * 9, "x" * 20 + " " + "y" * 20 + " " + "z" * 20]
        for n in (1, 2, 3):
            for combo in itertools.product(range(len(texts)), repeat=n):
                for gaps in itertools.product(("none", "one", "drain", "drain2"), repeat=n - 1):
                    for kinds in itertools.product(("msg", "notice"), repeat=n):
                        if tier == "quick" and n == 3 and (combo[0] + combo[1] + combo[2] + len(gaps[0])) % 3:
                            continue
                        yield (tuple(texts[k] for k in combo), gaps, kinds)

    def check(self, case):
        from twisted.internet import task
        texts, gaps, kinds = case
        clock = task.Clock()
        saved = irc.reactor
        irc.reactor = clock
        try:
            client = irc.IRCClient()
            client.performLogin = False
            client.lineRate = 1
            transport = StringTransport()
            client.makeConnection(transport)
            transport.clear()
            for k, text in enumerate(texts):
                method, arg, _, _ = KINDS[kinds[k]]
                getattr(client, method)(arg, text, 40)
                if k < len(gaps):
                    g = gaps[k]
                    steps = {"none": 0, "one": 1, "drain": 12, "drain2": 24}[g]
                    for _ in range(steps):
                        clock.advance(1)
            for _ in range(60):
                clock.advance(1)
            wire = transport.value()
            left = list(client._queue)
        finally:
            irc.reactor = saved
        if left:
            return "lines stuck in the send queue for ever: %r (wire so far %r)" % (left, wire[-80:])
        lines = wire_lines(wire)
        if lines is None:
            return "last line not terminated: %r" % (wire[-20:],)
        # the wire is the concatenation of the messages' lines, in order: judge each message on its share
        pos = 0
        for k, text in enumerate(texts):
            _, _, command, target = KINDS[kinds[k]]
            want = visible(text)
            got = ""
            head = ("%s %s :" % (command, target)).encode("utf-8")
            first = pos
            while pos < len(lines) and visible(got) != want:
                body, n = lines[pos]
                if not body.startswith(head) or n > 40:
                    return "message %d: unexpected line %r (limit 40)" % (k, body)
                got += body[len(head):].decode("utf-8")
                pos += 1
            if visible(got) != want:
                return "message %d: lines %r carry %r, message is %r" % (k, lines[first:pos], visible(got), want)
        if pos != len(lines):
            return "extra lines on the wire: %r" % (lines[pos:],)
        return None


BOUNDED = [SplitAscii, SplitMultibyte, SplitLowQuoted, QuoteRoundTrip, RateLimitedQueue]
