"""C56 -- flattened and JSON-serialized log events format like the original.

Bounded-exhaustive executable contract.  Format strings are never parsed by the
harness: every case is an abstract syntax tree (a tuple of literal-text pieces
and field pieces) which is *rendered* to a PEP-3101 format string for the real
code and *evaluated* directly by the reference model below.  The reference is
the documented semantics only:

  * PEP 3101 / str.format: a field is ``root`` followed by ``.attr`` (getattr)
    and ``[key]`` (getitem, an all-digit key is an int, any other key a str),
    an optional conversion ``!s``/``!r``/``!a`` (str/repr/ascii) and an optional
    format specification (itself possibly containing fields) applied with
    ``format(value, spec)``; ``{{`` and ``}}`` are literal braces;
  * twisted.logger call syntax: a ``()`` suffix after the root key or after an
    attribute name calls the object found there with no arguments.

Every field path is produced by walking the actual value graph of the event, so
each generated field really exists (cases are inside the precondition by
construction; a reference that nevertheless raises turns into Skip).

For every case four texts are produced by the real code and compared:
  original            formatEvent(event)
  flattened           flattenEvent(event); formatEvent(event)
  flattened + JSON    flattenEvent(event); formatEvent(eventFromJSON(eventAsJSON(event)))
  JSON                formatEvent(eventFromJSON(eventAsJSON(event)))   (eventAsJSON flattens itself)
The property demands flattened == original and JSON == original, and that is
exactly what fails a case.  The reference text is the precondition (the event
references existing fields, is formattable, and its text is deterministic) and
a diagnostic: when the texts differ the message says whether the original
itself departs from the PEP-3101 text.  If all real texts agree the case holds.
"""
from __future__ import annotations

import datetime
import itertools

from pyvc.api import Bounded

from twisted.logger import LogLevel
from twisted.logger._flatten import flattenEvent
from twisted.logger._format import formatEvent
from twisted.logger._json import eventAsJSON, eventFromJSON
from twisted.python.failure import Failure


# ---------------------------------------------------------------------------------------------------------------------
# the value world: nested dicts / lists / objects with deterministic str/repr, pure callables
# ---------------------------------------------------------------------------------------------------------------------

class Node:
    """Plain object; str and repr are deterministic, distinct and non-ASCII (so !s, !r and !a all differ)."""
    _attrs = ()

    def __init__(self, tag, **attrs):
        self.tag = tag
        self._attrs = tuple(attrs) + ("meth", "kids")
        self.__dict__.update(attrs)

    def __str__(self):
        return "S<%s>\xe9" % self.tag

    def __repr__(self):
        return "R<%s>'\u2603" % self.tag

    def meth(self):
        return "m-" + self.tag + "\xe9"

    def kids(self):
        return [Node(self.tag + ".k0", name="k0"), "kid\xe9"]


class Doc:
    """An object with a docstring of its own and an attribute called _wrapped."""

    def __init__(self):
        self._wrapped = "mine"
        self.x = 1

    def __str__(self):
        return "S<doc>"

    def __repr__(self):
        return "R<doc>"


class Fmt:
    """Deterministic custom __format__ (like datetime/Decimal have), not the same text as str()."""

    def __str__(self):
        return "S<fmt>"

    def __repr__(self):
        return "R<fmt>"

    def __format__(self, spec):
        return "F<%s>" % spec


def fn_node():
    return Node("made", name="mk\xe9", vals=[7, "eight"])


def fn_str():
    return "text\xe9'"


def fn_dict():
    return {"k": "kv", "n": [1, 2]}


def fn_four():
    return 4


_DT = datetime.datetime(2020, 1, 2, 3, 4, 5)


def make_event():
    """A fresh event every time (flattenEvent mutates the event it is given)."""
    leaf = Node("leaf", name="lf", vals=[1, "two\xe9"])
    child = Node("child", name="ch", leaf=leaf, make=fn_str)
    o = Node("o", name="nm\xe9", vals=[1, "\xe9", [2, 3]], child=child, make=fn_node, d={"k": leaf, "s": "ds"}, w=6)
    return {
        "s": "a",
        "u": "\xe9{}'\"\\\n\u2028",
        "n": 5,
        "neg": -3,
        "fl": 1.5,
        "none": None,
        "t": True,
        "b": b"\xff'",
        "nan": float("nan"),
        "st": frozenset([1]),
        "l": [10, "x\xe9", [1, "\xe9"], b"\x80\x00"],
        "tu": (1, "\xe9"),
        "d": {"k": "v", "a b": [1, "z"], "\xe9": "u", 0: "zero", "o": Node("in-d", name="dn"), "w": 7,
              ("t", 1): "tuple key"},
        "o": o,
        "f": fn_node,
        "g": fn_str,
        "h": fn_dict,
        "wf": fn_four,
        "w": 4,
        "fill": "*",
        "k \xe9": "spaced key",
        "level": LogLevel.warn,
        "fail": Failure(ValueError("boom\xe9")),
        "doc": Doc(),
        "fo": Fmt(),
        "dt": _DT,
        "log_namespace": "ns",
        "log_level": LogLevel.info,
    }


# ---------------------------------------------------------------------------------------------------------------------
# format-string syntax trees: rendering (for the real code) and evaluation (the reference)
# ---------------------------------------------------------------------------------------------------------------------
# piece  := ("T", text) | ("F", root, path, conv, spec)
# path   := tuple of ("a", name) | ("i", keytext) | ("c",)        (("c",) = call with no arguments)
# conv   := None | "s" | "r" | "a"
# spec   := tuple of pieces (empty = no format specification)

def T(text):
    return ("T", text)


def F(root, path=(), conv=None, spec=()):
    return ("F", root, tuple(path), conv, tuple(spec))


def render(pieces, in_spec=False):
    out = []
    for p in pieces:
        if p[0] == "T":
            out.append(p[1] if in_spec else p[1].replace("{", "{{").replace("}", "}}"))
        else:
            _, root, path, conv, spec = p
            s = "{" + root
            for st in path:
                if st[0] == "c":
                    s += "()"
                elif st[0] == "a":
                    s += "." + st[1]
                else:
                    s += "[" + st[1] + "]"
            if conv is not None:
                s += "!" + conv
            if spec:
                s += ":" + render(spec, True)
            out.append(s + "}")
    return "".join(out)


def _is_index(keytext):
    return keytext != "" and all(c in "0123456789" for c in keytext)


def ref_value(event, root, path):
    v = event[root]
    for st in path:
        if st[0] == "c":
            v = v()
        elif st[0] == "a":
            v = getattr(v, st[1])
        else:
            v = v[int(st[1]) if _is_index(st[1]) else st[1]]
    return v


def ref_format(event, pieces):
    out = []
    for p in pieces:
        if p[0] == "T":
            out.append(p[1])
            continue
        _, root, path, conv, spec = p
        v = ref_value(event, root, path)
        if conv == "s":
            v = str(v)
        elif conv == "r":
            v = repr(v)
        elif conv == "a":
            v = ascii(v)
        out.append(format(v, ref_format(event, spec)))
    return "".join(out)


# ---------------------------------------------------------------------------------------------------------------------
# walking the value graph: every lookup path that exists
# ---------------------------------------------------------------------------------------------------------------------

def _steps(value, prev_kind):
    """The lookups applicable to `value`; prev_kind is "root", "a", "i" or "c" (what produced value)."""
    out = []
    if callable(value) and not isinstance(value, type) and prev_kind in ("root", "a"):
        try:
            out.append((("c",), value()))
        except TypeError:
            pass
    if isinstance(value, dict):
        for k, x in value.items():
            if isinstance(k, str) and k and not _is_index(k) and not (set(k) & set("[]{}")):
                out.append((("i", k), x))
            elif isinstance(k, int) and not isinstance(k, bool) and k >= 0:
                out.append((("i", str(k)), x))
    elif isinstance(value, (list, tuple)):
        for i, x in enumerate(value):
            out.append((("i", str(i)), x))
    elif isinstance(value, str):
        if value and prev_kind != "i":
            out.append((("i", "0"), value[0]))
            out.append((("i", str(len(value) - 1)), value[-1]))
    elif isinstance(value, Node):
        for a in value._attrs:
            out.append((("a", a), getattr(value, a)))
    elif isinstance(value, Failure):
        for a in ("value", "type", "getErrorMessage"):
            out.append((("a", a), getattr(value, a)))
    elif value is LogLevel.warn or value is LogLevel.info:
        out.append((("a", "name"), value.name))
    elif isinstance(value, bool):
        pass
    elif isinstance(value, int):
        out.append((("a", "real"), value.real))
        out.append((("a", "bit_length"), value.bit_length))
    elif isinstance(value, datetime.datetime):
        out.append((("a", "year"), value.year))
        out.append((("a", "isoformat"), value.isoformat))
    return out


def walk(max_steps, roots=None):
    """All (root, path) with at most max_steps lookups, in a deterministic order."""
    ev = make_event()
    res = []

    def rec(root, path, value, kind):
        res.append((root, path))
        if len(path) >= max_steps:
            return
        if isinstance(value, str) and kind == "i" and path and _is_index(path[-1][1]) and len(value) == 1:
            return  # a character of a string: do not index it again
        for st, nxt in _steps(value, kind):
            rec(root, path + (st,), nxt, st[0])

    for root in (roots if roots is not None else [k for k in ev if k not in ("fo", "log_namespace")]):
        rec(root, (), ev[root], "root")
    return res


def call_only_last(path):
    return all(st[0] != "c" for st in path[:-1])


def stable_paths(max_steps):
    """Paths with the call (if any) last whose value has no memory address in its str/repr (deterministic text)."""
    ev = make_event()
    out = []
    for root, path in walk(max_steps):
        if not call_only_last(path):
            continue
        v = ref_value(ev, root, path)
        if " at 0x" in str(v) or " at 0x" in repr(v):
            continue
        out.append((root, path))
    return out


# ---------------------------------------------------------------------------------------------------------------------
# the check shared by every class
# ---------------------------------------------------------------------------------------------------------------------

class _FlatJson(Bounded):
    prop = "C56"
    functions = ["flattenEvent", "flatFormat", "KeyFlattener.flatKey", "eventAsJSON", "eventFromJSON",
                 "formatEvent", "formatWithCall"]

    def nontrivial(self, case):
        return any(p[0] == "F" for p in case)

    def check(self, case):
        pieces = case
        fmt = render(pieces)
        try:
            expected = ref_format(make_event(), pieces)
            again = ref_format(make_event(), pieces)
        except Exception:
            raise Bounded.Skip()  # the format does not reference existing fields / is not formattable
        if again != expected or " at 0x" in expected:
            raise Bounded.Skip()  # a value that does not format deterministically (memory address in its text)

        def event():
            e = make_event()
            e["log_format"] = fmt
            return e

        original = formatEvent(event())
        note = "" if original == expected else \
            " [the original itself differs from the PEP-3101 reference text %s]" % _q(expected)

        e = event()
        try:
            flattenEvent(e)
        except Exception as x:
            return "format %r: flattenEvent raised %r; the original formats as %s%s" % (fmt, x, _q(original), note)
        flat = formatEvent(e)
        if flat != original:
            return "format %r: original %s, flattened %s%s" % (fmt, _q(original), _q(flat), note)
        try:
            back = eventFromJSON(eventAsJSON(e))
        except Exception as x:
            return "format %r: JSON round trip of the flattened event raised %r" % (fmt, x)
        txt = formatEvent(back)
        if txt != original:
            return "format %r: original %s, flattened then JSON %s%s" % (fmt, _q(original), _q(txt), note)
        try:
            back = eventFromJSON(eventAsJSON(event()))
        except Exception as x:
            return "format %r: eventAsJSON/eventFromJSON raised %r; the original formats as %s" % (
                fmt, x, _q(original))
        txt = formatEvent(back)
        if txt != original:
            return "format %r: original %s, after JSON %s%s" % (fmt, _q(original), _q(txt), note)
        # original == flattened == JSON: the property holds.  (If the three agree on a text other than the
        # reference text that is a formatEvent matter, not a C56 one, and is deliberately not demanded here.)
        return None


def _q(text):
    r = repr(text)
    return r if len(r) <= 150 else r[:140] + "...(%d chars)" % len(text)


CONTEXTS = (
    ((), ()),
    ((T("pre "),), (T(" post"),)),
    ((T("x{"),), (T("}y"),)),
    ((T("\xe9\n!s:/2 {}"),), (T(" [0].a()!r:"),)),
)


class Lookups(_FlatJson):
    title = ("one field reached by attribute/index lookups and a trailing call, conversions none/!s/!r: "
             "original vs flattened vs JSON text vs reference")
    scope = ("every lookup path of <= 4 steps (thorough 6 = the whole value graph) that exists in a fixed event of "
             "27 keys (str, unicode/brace/quote/newline str, int, float, nan, None, bool, bytes, frozenset, nested "
             "list/tuple/dict with str, spaced, non-ASCII, int and tuple keys, objects with distinct non-ASCII str/repr, bound methods, "
             "functions returning objects/str/dict, LogLevel, Failure, datetime) and whose text carries no memory "
             "address; call syntax '()' only as the last step; conversion in {none, !s, !r}; 4 literal-text contexts "
             "(empty, plain, escaped braces, text that looks like key syntax); the same field twice with every "
             "conversion pair, adjacent and separated by '/2' (thorough: every conversion triple); exhaustive")

    def cases(self, tier, rng):
        convs = (None, "s", "r")
        paths = stable_paths(4 if tier == "quick" else 6)
        for root, path in paths:
            for conv in convs:
                for pre, post in CONTEXTS:
                    yield pre + (F(root, path, conv),) + post
        for root, path in paths:
            for c1 in convs:
                for c2 in convs:
                    yield (F(root, path, c1), F(root, path, c2))
                    yield (F(root, path, c1), T("/2"), F(root, path, c2))
                    if tier != "quick":
                        for c3 in convs:
                            yield (F(root, path, c1), F(root, path, c2), T("/3"), F(root, path, c3))


REPEAT_FIELDS = (
    F("s"), F("s", (), "s"), F("s", (), "r"),
    F("o"), F("o", (), "r"),
    F("o", (("a", "name"),)), F("o", (("a", "name"),), "r"),
    F("f", (("c",),)), F("f", (("c",),), "r"),
    F("o", (("a", "meth"), ("c",))),
    F("l", (("i", "0"),)), F("d", (("i", "k"),), "s"),
)
SEPARATORS = ("", " ", "/2", "!s:", "{")
TEXT_ALPHABET = ("", " ", "{", "}", "{}", "/2", "/3", "!r:", "!s:", "!:", "\xe9", "\n", "()", "[0]", ".a", "x")


class RepeatedFields(_FlatJson):
    title = ("several fields, the same field / conversion repeated (KeyFlattener occurrence numbering): "
             "original vs flattened vs JSON text vs reference")
    scope = ("all sequences of 2 and 3 fields over 12 field forms ({s} {s!s} {s!r} {o} {o!r} {o.name} {o.name!r} "
             "{f()} {f()!r} {o.meth()} {l[0]} {d[k]!s}) joined by each of 5 separators ('', ' ', '/2', '!s:', "
             "escaped '{'); 4..8 copies of one field; exhaustive; plus seeded random formats of 2..8 fields drawn "
             "from all <=4-step paths with random literal text over a 16-piece alphabet (quick 2000, thorough 30000)")

    def cases(self, tier, rng):
        for n in (2, 3):
            for fs in itertools.product(REPEAT_FIELDS, repeat=n):
                for sep in (SEPARATORS if n == 2 or tier != "quick" else SEPARATORS[:3]):
                    out = []
                    for i, f in enumerate(fs):
                        if i and sep:
                            out.append(T(sep))
                        out.append(f)
                    yield tuple(out)
        for f in REPEAT_FIELDS:
            for n in range(4, 9):
                yield (f,) * n
                yield tuple(itertools.chain.from_iterable((f, T("/%d" % (i + 2))) for i in range(n)))
        pool = stable_paths(4)
        for _ in range(2000 if tier == "quick" else 30000):
            out = []
            for _i in range(rng.randint(2, 8)):
                t = rng.choice(TEXT_ALPHABET)
                if t:
                    out.append(T(t))
                if rng.random() < 0.4 and out and any(p[0] == "F" for p in out):
                    out.append(rng.choice([p for p in out if p[0] == "F"]))  # repeat an earlier field verbatim
                else:
                    r, p = rng.choice(pool)
                    out.append(F(r, p, rng.choice((None, None, "s", "r"))))
            yield tuple(out)


class AsciiConversion(_FlatJson):
    title = "one field with the !a conversion: original vs flattened vs JSON text vs reference"
    scope = ("every lookup path of <= 2 steps (thorough 3) of the fixed event, trailing call only, conversion !a, "
             "alone and next to the same field with !r / no conversion; exhaustive")

    def cases(self, tier, rng):
        for root, path in stable_paths(2 if tier == "quick" else 3):
            yield (F(root, path, "a"),)
            yield (F(root, path, "r"), T(" "), F(root, path, "a"), T(" "), F(root, path))


SPEC_FIELDS = (
    ("s", ()), ("u", ()), ("n", ()), ("neg", ()), ("fl", ()), ("t", ()), ("none", ()), ("l", ()), ("o", ()),
    ("fo", ()), ("dt", ()), ("b", ()),
    ("o", (("a", "name"),)), ("o", (("a", "w"),)), ("l", (("i", "0"),)), ("d", (("i", "k"),)),
    ("g", (("c",),)), ("wf", (("c",),)), ("o", (("a", "meth"), ("c",))),
)
SPECS = (
    (T(">4"),), (T("<4"),), (T("^5"),), (T("*^7"),), (T("4"),), (T(".1"),), (T("03d"),), (T("x"),), (T("+d"),),
    (T(","),), (T(".3f"),), (T("e"),), (T("%"),), (T("7.2f"),), (T("%Y-%m"),), (T("%d/2"),), (T("s"),), (T("d"),),
    (F("w"),), (F("fill"), T(">"), F("w")), (T(">"), F("o", (("a", "w"),))), (T("<"), F("d", (("i", "w"),))),
    (T("^"), F("wf", (("c",),))),
)


class FormatSpecs(_FlatJson):
    title = ("fields with a format specification (plain, after a conversion, with nested fields, custom __format__): "
             "original vs flattened vs JSON text vs reference")
    scope = ("19 fields (str, unicode str, int, negative int, float, bool, None, list, object, object with custom "
             "__format__, datetime, bytes, attribute / index / call results) x conversion {none, !s, !r} x 23 "
             "specifications (alignment, fill, width, precision, sign, thousands, int/float/percent/strftime types, "
             "a spec ending in '/2', nested {w} {fill}>{w} >{o.w} <{d[w]} ^{wf()}), keeping every combination "
             "format() accepts; the object with custom __format__ also with no specification; pairs "
             "'{x:spec}{x}' mixing specified and unspecified uses of one field; exhaustive")

    def cases(self, tier, rng):
        ev = make_event()
        ok = []
        for root, path in SPEC_FIELDS:
            for conv in (None, "s", "r"):
                for spec in SPECS:
                    f = F(root, path, conv, spec)
                    try:
                        ref_format(ev, (f,))
                    except Exception:
                        continue
                    ok.append(f)
                    yield (f,)
                    yield (T("a "), f, T(" b"))
        yield (F("fo"),)
        yield (F("fo", (), "s"),)
        yield (F("fo", (), "r"),)
        yield (F("d", (("i", "o"),)), F("fo"))
        for f in ok:
            plain = F(f[1], f[2], f[3])
            yield (f, plain)
            yield (plain, T("/2"), f, f)

    def nontrivial(self, case):
        return any(p[0] == "F" and (p[4] or p[1] == "fo") for p in case)


class CallThenLookup(_FlatJson):
    title = ("fields whose call '()' is followed by further lookups ({f().name}, {o.make().vals[0]}): "
             "original vs flattened vs JSON text vs reference")
    scope = ("every lookup path of <= 3 steps (thorough 4) of the fixed event that contains a call which is not the "
             "last step (calls after the root key or after an attribute name, then attribute / index lookups and "
             "possibly a second call), conversion in {none, !r}; exhaustive")

    def cases(self, tier, rng):
        for root, path in walk(3 if tier == "quick" else 4):
            if call_only_last(path):
                continue
            for conv in (None, "r"):
                yield (F(root, path, conv),)


SHADOWED = ("__class__", "__doc__", "__module__", "__dict__", "_wrapped")


class ShadowedAttributes(_FlatJson):
    title = ("attribute lookups whose name also exists on any Python object or wrapper ({o.__class__.__name__}, "
             "{o.__doc__}, {o.__module__}, {o.__dict__}, {doc._wrapped}): original vs flattened vs JSON vs reference")
    scope = ("every value reached by <= 2 lookup steps (trailing call only) of the fixed event, followed by each of "
             ".__class__ .__class__.__name__ .__doc__ .__module__ .__dict__ ._wrapped where that attribute exists "
             "and its text is deterministic (no memory addresses), conversion in {none, !r}; exhaustive")

    def cases(self, tier, rng):
        ev = make_event()
        for root, path in walk(1 if tier == "quick" else 2):
            if not call_only_last(path) or (path and path[-1][0] == "c"):
                continue
            for name in SHADOWED:
                tails = [(("a", name),)]
                if name == "__class__":
                    tails.append((("a", name), ("a", "__name__")))
                for tail in tails:
                    full = path + tail
                    try:
                        v = ref_value(ev, root, full)
                        if " at 0x" in repr(v) or " at 0x" in str(v):
                            continue
                    except Exception:
                        continue
                    for conv in (None, "r"):
                        yield (F(root, full, conv),)


class _Chatty:
    """A value whose text is fixed, but whose __str__ / __repr__ / call makes the logging system flatten and format
    *another* event on the way (an object that logs a debug message through a serializing observer, or renders an event
    it keeps): deterministic, with a side effect inside the logger."""

    def __init__(self, mode):
        self.mode = mode

    def _side_effect(self):
        other = {"log_format": "{a} {b!r} {a}", "a": 1, "b": "x", "log_level": None}
        if self.mode in ("flatten", "both"):
            flattenEvent(other)
        if self.mode in ("json", "both"):
            formatEvent(eventFromJSON(eventAsJSON(other)))
        if self.mode == "extract":
            from twisted.logger._flatten import extractField
            extractField("a", other)

    def __str__(self):
        self._side_effect()
        return "chatty"

    def __repr__(self):
        self._side_effect()
        return "<chatty>"

    def __call__(self):
        self._side_effect()
        return "called"


class ReentrantValues(Bounded):
    prop = "C56"
    title = "a field value whose str() / repr() / call flattens or formats another event on the way"
    scope = ("formats of 2..4 fields over {peer} {peer!r} {busy} {busy!r} {busy()} {n} with every separator of "
             "{'', ' ', '/2'}; busy's text is fixed, its side effect is flattenEvent / a JSON round trip and flat format "
             "/ extractField on an unrelated event; exhaustive")
    functions = ["flattenEvent", "flatFormat", "extractField", "KeyFlattener.flatKey", "eventAsJSON", "eventFromJSON", "formatEvent"]
    FIELDS = ("{peer}", "{peer!r}", "{busy}", "{busy!r}", "{busy()}", "{n}")

    def cases(self, tier, rng):
        for mode in ("flatten", "json", "both", "extract"):
            for k in (2, 3, 4):
                for fs in itertools.product(self.FIELDS, repeat=k):
                    if not any("busy" in f for f in fs) or len(set(fs)) == len(fs):
                        continue   # needs the chatty value and a repeated field
                    if k == 4 and tier == "quick" and hash(fs) % 4:
                        continue
                    for sep in ("", " ", "/2"):
                        yield (mode, sep.join(fs))

    def check(self, case):
        mode, fmt = case

        def event():
            return {"log_format": fmt, "peer": "10.0.0.1", "busy": _Chatty(mode), "n": 7}

        original = formatEvent(event())
        e = event()
        try:
            flattenEvent(e)
        except Exception as x:
            return "format %r: flattenEvent raised %r" % (fmt, x)
        flat = formatEvent(e)
        if flat != original:
            return "format %r (%s): original %s, flattened %s" % (fmt, mode, _q(original), _q(flat))
        try:
            txt = formatEvent(eventFromJSON(eventAsJSON(e)))
        except Exception as x:
            return "format %r: JSON round trip raised %r" % (fmt, x)
        if txt != original:
            return "format %r (%s): original %s, flattened then JSON %s" % (fmt, mode, _q(original), _q(txt))
        try:
            txt = formatEvent(eventFromJSON(eventAsJSON(event())))
        except Exception as x:
            return "format %r: eventAsJSON raised %r" % (fmt, x)
        if txt != original:
            return "format %r (%s): original %s, after JSON %s" % (fmt, mode, _q(original), _q(txt))
        return None


BOUNDED = [Lookups, RepeatedFields, AsciiConversion, FormatSpecs, CallThenLookup, ShadowedAttributes, ReentrantValues]
