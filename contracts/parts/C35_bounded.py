"""C35 bounded part -- the SSH binary packet layer of twisted.conch.ssh.transport with the REAL primitives.

The deductive part (contracts/C35.py) proves the framing under assumed cipher / MAC contracts.  Here the real
SSHCiphers (every entry of cipherMap the installed `cryptography` supports x every entry of macMap) and the real zlib
contexts are wired between two SSHTransportBase instances that share keys, and the property is evaluated on the
real code:

  RoundTripMatrix   what sendPacket wrote, cut in any way, is dispatched by the peer's dataReceived / getPacket as
                    exactly the payloads sent, in order, without a disconnect, sequence numbers in step.
  WireReference     the same bytes are readable by an independent RFC 4253 section 6 packet codec (written here on top
                    of `cryptography` / hashlib / hmac / zlib directly), and packets produced by that codec (any legal
                    padding) are dispatched by the twisted receiver.
  Tamper            one altered byte anywhere in a MAC protected packet: the altered payload is never dispatched,
                    nothing after it is, and the receiver disconnects.
  VersionExchange   identification ("banner") lines, the version line and the first packets, cut in any way.
  SequenceWrap      the packet sequence number is a uint32 that wraps (RFC 4253 section 6.4).

Oracles: the round trip identity from the property statement, and RFC 4253 sections 4.2, 6, 6.2, 6.4, 7.2 (key
material is taken from the beginning of the derived bytes), RFC 4344 (ctr modes), RFC 6668 (hmac-sha2).  Nothing here
reads transport.py's framing logic; cipherMap / macMap are read for their *keys* only (which configurations exist).
"""
import hashlib
import hmac as _hmac
import itertools
import random
import struct
import warnings
import zlib

from pyvc.api import Bounded

with warnings.catch_warnings():
    warnings.simplefilter("ignore")
    from cryptography.exceptions import UnsupportedAlgorithm
    from cryptography.hazmat.primitives.ciphers import Cipher, algorithms as _alg, modes as _modes
    try:  # newer `cryptography` moved 3DES
        from cryptography.hazmat.decrepit.ciphers.algorithms import TripleDES as _TripleDES
    except Exception:  # pragma: no cover
        _TripleDES = _alg.TripleDES
    from twisted.conch.ssh import transport
    from twisted.internet import address


# --------------------------------------------------------------------------
# independent description of the algorithms (RFC 4253 6.3, RFC 4344, RFC 6668): name -> parameters

REF_CIPHERS = {
    b"none": None,
    b"3des-cbc": (_TripleDES, 24, 8, "cbc"),
    b"3des-ctr": (_TripleDES, 24, 8, "ctr"),
    b"aes128-cbc": (_alg.AES, 16, 16, "cbc"),
    b"aes192-cbc": (_alg.AES, 24, 16, "cbc"),
    b"aes256-cbc": (_alg.AES, 32, 16, "cbc"),
    b"aes128-ctr": (_alg.AES, 16, 16, "ctr"),
    b"aes192-ctr": (_alg.AES, 24, 16, "ctr"),
    b"aes256-ctr": (_alg.AES, 32, 16, "ctr"),
}
REF_MACS = {
    b"none": None,
    b"hmac-md5": ("md5", 16),
    b"hmac-sha1": ("sha1", 20),
    b"hmac-sha2-256": ("sha256", 32),
    b"hmac-sha2-384": ("sha384", 48),
    b"hmac-sha2-512": ("sha512", 64),
}


def _material(label):
    """128 bytes of deterministic 'derived key' material (as long as the longest the key derivation hands over)"""
    out = b""
    n = 0
    while len(out) < 128:
        out += hashlib.sha256(b"C35|" + label + b"|%d" % n).digest()
        n += 1
    return out[:128]


# direction ab: A -> B, direction ba: B -> A
K = dict(iv_ab=_material(b"ivab"), key_ab=_material(b"keyab"), mac_ab=_material(b"macab"),
         iv_ba=_material(b"ivba"), key_ba=_material(b"keyba"), mac_ba=_material(b"macba"))


def _cipher_ok(name):
    """does the real SSHCiphers build this cipher with the installed backend?"""
    c = transport.SSHCiphers(name, name, b"none", b"none")
    try:
        with warnings.catch_warnings():
            warnings.simplefilter("ignore")
            c.setKeys(K["iv_ab"], K["key_ab"], K["iv_ba"], K["key_ba"], b"", b"")
        return True
    except UnsupportedAlgorithm:
        return False


_CFG_CACHE = {}


def all_ciphers():
    if "c" not in _CFG_CACHE:
        _CFG_CACHE["c"] = [c for c in sorted(transport.SSHCiphers.cipherMap) if _cipher_ok(c)]
    return _CFG_CACHE["c"]


def all_macs():
    return sorted(transport.SSHCiphers.macMap)


def all_configs(mac_required=False):
    for cip in all_ciphers():
        for mac in all_macs():
            if mac_required and mac == b"none":
                continue
            for comp in (False, True):
                yield (cip, mac, comp)


# --------------------------------------------------------------------------
# the real endpoints


class _Wire:
    """the byte pipe under a transport: records what was written and whether the connection was dropped"""
    disconnecting = False

    def __init__(self):
        self.chunks = []
        self.lost = 0

    def write(self, data):
        self.chunks.append(bytes(data))

    def writeSequence(self, seq):
        for d in seq:
            self.write(d)

    def loseConnection(self, *a, **kw):
        self.lost += 1
        self.disconnecting = True

    abortConnection = loseConnection

    def getPeer(self):
        return address.IPv4Address("TCP", "192.0.2.1", 22)

    def getHost(self):
        return address.IPv4Address("TCP", "192.0.2.2", 2222)

    def take(self):
        out = b"".join(self.chunks)
        self.chunks = []
        return out


class _Endpoint(transport.SSHTransportBase):
    """a real SSHTransportBase; only the hand-over of a received message to the upper layer is observed"""

    def dispatchMessage(self, messageNum, payload):
        self.delivered.append((messageNum, bytes(payload)))


def endpoint(cfg, role, seq0=0):
    """one side of a connection after key exchange with configuration cfg; A and B share keys crosswise"""
    cip, mac, comp = cfg
    e = _Endpoint()
    e.delivered = []
    e.transport = _Wire()
    e.gotVersion = True
    c = transport.SSHCiphers(cip, cip, mac, mac)
    with warnings.catch_warnings():
        warnings.simplefilter("ignore")
        if role == "A":
            c.setKeys(K["iv_ab"], K["key_ab"], K["iv_ba"], K["key_ba"], K["mac_ab"], K["mac_ba"])
        else:
            c.setKeys(K["iv_ba"], K["key_ba"], K["iv_ab"], K["key_ab"], K["mac_ba"], K["mac_ab"])
    e.currentEncryptions = c
    if comp:  # "zlib" (RFC 4253 6.2): one deflate stream per direction for the whole connection
        e.outgoingCompression = zlib.compressobj(6)
        e.incomingCompression = zlib.decompressobj()
    e.outgoingPacketSequence = seq0
    e.incomingPacketSequence = seq0
    return e


def send_all(cfg, msgs, seq0=0):
    a = endpoint(cfg, "A", seq0)
    for t, p in msgs:
        a.sendPacket(t, p)
    return a, a.transport.take()


def receive(cfg, chunks, seq0=0, via="dataReceived", rcv=None):
    """deliver chunks to a fresh B; via='getPacket' drives the buffer the way dataReceived does"""
    b = rcv or endpoint(cfg, "B", seq0)
    for c in chunks:
        if via == "dataReceived":
            b.dataReceived(c)
        else:
            b.buf = b.buf + c
            while True:
                p = b.getPacket()
                if p is None:
                    break
                b.delivered.append((p[0] if p else None, bytes(p[1:])))
    return b


# --------------------------------------------------------------------------
# payloads and segmentations


def payload(n, salt):
    """n bytes: incompressible, highly compressible, or text with the characters the version parser looks at"""
    r = random.Random(n * 7919 + salt)
    kind = salt % 3
    if kind == 0:
        return bytes(r.getrandbits(8) for _ in range(n))
    if kind == 1:
        return (b"abcabcab" * (n // 8 + 1))[:n]
    return (b"\nSSH-2.0-x\r\n\x00\xff" * (n // 14 + 1))[:n]


def ladder(top, salt=0):
    """one message of every length 0..top, message types spread over the byte range"""
    types = [94, 0, 1, 2, 20, 21, 50, 80, 255, 3]
    return tuple((types[(n + salt) % len(types)], payload(n, n + salt)) for n in range(top + 1))


def two_way(wire):
    for i in range(1, len(wire)):
        yield [wire[:i], wire[i:]]


def three_way(wire):
    for i in range(1, len(wire)):
        for j in range(i + 1, len(wire)):
            yield [wire[:i], wire[i:j], wire[j:]]


def bytewise(wire):
    return [wire[i:i + 1] for i in range(len(wire))]


def random_chunks(wire, r, mean=9):
    out = []
    i = 0
    while i < len(wire):
        k = 1 + int(r.expovariate(1.0 / mean))
        out.append(wire[i:i + k])
        i += k
    return out


def hx(b, limit=160):
    s = bytes(b).hex()
    return s if len(s) <= 2 * limit else s[:2 * limit] + "...(%d bytes)" % len(b)


def show(msgs, limit=4):
    return "[" + ", ".join("(%s, %s)" % (t, hx(p, 24)) for t, p in list(msgs)[:limit]) + (
        ", ...%d more" % (len(msgs) - limit) if len(msgs) > limit else "") + "]"


def name_of(cfg):
    return "%s/%s/%s" % (cfg[0].decode(), cfg[1].decode(), "zlib" if cfg[2] else "nocomp")


# --------------------------------------------------------------------------
# 1. round trip through the real matrix


class RoundTripMatrix(Bounded):
    prop = "C35"
    title = ("payloads given to sendPacket on one transport == payloads dispatched by the key-sharing peer, for every "
             "real cipher x MAC x compression and every cut of the byte stream")
    scope = ("every cipherMap entry the backend supports (incl. none) x every macMap entry (incl. none) x {no "
             "compression, zlib}; per configuration: one session of 36 messages of every length 0..35 (all residues "
             "of both block sizes, twice; random / repetitive / newline-and-'SSH-' content; 10 message types incl. 0 "
             "and 255) delivered whole, byte-at-a-time through dataReceived, byte-at-a-time through a "
             "buf+getPacket loop and in 3 seeded random chunkings; a 3-message session (lengths 6,7,21: minimum "
             "padding, maximum padding) in every 2-way split; starting sequence numbers 0 and 5; thorough adds every "
             "3-way split of a 2-message session, a 0..80 ladder, and seeded random "
             "sessions with payloads up to 32768 bytes")
    functions = ["SSHTransportBase.sendPacket", "SSHTransportBase.getPacket", "SSHTransportBase.dataReceived",
                 "SSHCiphers.setKeys", "SSHCiphers.encrypt", "SSHCiphers.decrypt", "SSHCiphers.makeMAC",
                 "SSHCiphers.verify"]

    def cases(self, tier, rng):
        for cfg in all_configs():
            yield cfg + ("ladder", 35, 0)
            yield cfg + ("split2", 0, 5)
        if tier != "quick":
            for cfg in all_configs():
                yield cfg + ("ladder", 80, 5)
                yield cfg + ("split3", 0, 0)
                for _ in range(3):
                    yield cfg + ("random", rng.randrange(1 << 30), rng.choice((0, 1, 77)))

    def _msgs(self, kind, arg):
        if kind == "ladder":
            return ladder(arg)
        if kind == "split2":
            return ((94, payload(6, 0)), (21, payload(7, 1)), (2, payload(21, 2)))
        if kind == "split3":
            return ((94, payload(6, 3)), (1, payload(7, 5)))
        r = random.Random(arg)
        sizes = [r.choice((0, 1, 15, 16, 17, 255, 256, 1000, 4093, 32768)) for _ in range(r.randrange(1, 7))]
        return tuple((r.randrange(256), payload(n, r.randrange(1000))) for n in sizes)

    def check(self, case):
        cfg, (kind, arg, seq0) = case[:3], case[3:]
        msgs = self._msgs(kind, arg)
        sender, wire = send_all(cfg, msgs, seq0)
        want = [(t, p) for t, p in msgs]
        if sender.outgoingPacketSequence != seq0 + len(msgs):
            return "%s: sender sequence number %r after %d packets from %d" % (
                name_of(cfg), sender.outgoingPacketSequence, len(msgs), seq0)
        r = random.Random(arg + 1)
        if kind in ("ladder", "random"):
            deliveries = [("whole", "dataReceived", [wire]), ("whole", "getPacket", [wire])]
            if len(wire) <= 20000:
                deliveries += [("bytewise", "dataReceived", bytewise(wire)), ("bytewise", "getPacket", bytewise(wire))]
            deliveries += [("random chunks", "dataReceived", random_chunks(wire, r, m)) for m in (3, 9, 40)]
        elif kind == "split2":
            deliveries = [("2-way", "dataReceived", c) for c in two_way(wire)]
        else:
            deliveries = [("3-way", "dataReceived", c) for c in three_way(wire)]
        for label, via, chunks in deliveries:
            b = receive(cfg, chunks, seq0, via)
            where = "%s, %s via %s, cuts at %s" % (name_of(cfg), label, via, _cuts(chunks))
            if b.transport.lost:
                return "%s: receiver disconnected (%s); sent %s wire %s" % (where, hx(b.transport.take(), 60), show(msgs), hx(wire))
            if b.delivered != want:
                return "%s: sent %s, dispatched %s; wire %s" % (where, show(msgs), show(b.delivered), hx(wire))
            if b.buf != b"":
                return "%s: %d bytes left in the buffer after the last packet" % (where, len(b.buf))
            if b.incomingPacketSequence != sender.outgoingPacketSequence:
                return "%s: receiver sequence number %r, sender %r" % (where, b.incomingPacketSequence, sender.outgoingPacketSequence)
        return None


def _cuts(chunks):
    if len(chunks) > 4:
        return "(%d chunks)" % len(chunks)
    out, n = [], 0
    for c in chunks[:-1]:
        n += len(c)
        out.append(n)
    return out


# --------------------------------------------------------------------------
# 2. an independent RFC 4253 packet codec


class RefCodec:
    """Binary packet protocol of RFC 4253 section 6 for one direction, straight from the RFC text.

    packet  = uint32 packet_length || byte padding_length || payload || random padding
    packet_length counts everything after itself; len(packet) is a multiple of max(8, cipher block size);
    4 <= padding_length <= 255; mac = HMAC(key, uint32 sequence_number || unencrypted packet); the wire carries
    ENCRYPT(packet) || mac; cipher state and the zlib stream run on across packets; keys / IVs are the leading bytes of
    the derived material (section 7.2)."""

    def __init__(self, cfg, direction, seq0=0):
        cip, mac, comp = cfg
        spec = REF_CIPHERS[cip]
        self.bs = 8
        self.enc = self.dec = None
        if spec is not None:
            alg, keylen, bs, mode = spec
            self.bs = max(8, bs)
            key, iv = K["key_" + direction][:keylen], K["iv_" + direction][:bs]
            with warnings.catch_warnings():
                warnings.simplefilter("ignore")
                m = _modes.CBC(iv) if mode == "cbc" else _modes.CTR(iv)
                self.enc = Cipher(alg(key), m).encryptor()
                m = _modes.CBC(iv) if mode == "cbc" else _modes.CTR(iv)
                self.dec = Cipher(alg(key), m).decryptor()
        self.mac = None
        if REF_MACS[mac] is not None:
            h, size = REF_MACS[mac]
            self.mac = (h, K["mac_" + direction][:size], size)
        self.comp = zlib.compressobj() if comp else None
        self.decomp = zlib.decompressobj() if comp else None
        self.seq = seq0

    def _tag(self, packet):
        if self.mac is None:
            return b""
        h, key, size = self.mac
        return _hmac.new(key, struct.pack(">I", self.seq & 0xFFFFFFFF) + packet, getattr(hashlib, h)).digest()

    def encode(self, mtype, data, extra_blocks=0, filler=0x2A):
        body = bytes([mtype]) + data
        if self.comp is not None:
            body = self.comp.compress(body) + self.comp.flush(zlib.Z_SYNC_FLUSH)
        pad = 4
        while (5 + len(body) + pad) % self.bs:
            pad += 1
        while extra_blocks and pad + self.bs <= 255:
            pad += self.bs
            extra_blocks -= 1
        packet = struct.pack(">IB", 1 + len(body) + pad, pad) + body + bytes([filler]) * pad
        out = (self.enc.update(packet) if self.enc else packet) + self._tag(packet)
        self.seq += 1
        return out

    def decode(self, wire):
        """-> (list of (type, payload), error or None); every byte of wire must be used"""
        out = []
        pos = 0
        d = (lambda x: self.dec.update(x)) if self.dec else (lambda x: x)
        while pos < len(wire):
            if len(wire) - pos < self.bs:
                return out, "truncated: %d stray bytes" % (len(wire) - pos)
            first = d(wire[pos:pos + self.bs])
            plen, pad = struct.unpack(">IB", first[:5])
            if (plen + 4) % self.bs or plen + 4 < 16 or plen > 256 * 1024:
                return out, "packet %d: packet_length %d (block size %d)" % (len(out), plen, self.bs)
            if len(wire) - pos < 4 + plen + (self.mac[2] if self.mac else 0):
                return out, "packet %d: truncated" % len(out)
            packet = first + d(wire[pos + self.bs:pos + 4 + plen])
            pos += 4 + plen
            if self.mac:
                tag = wire[pos:pos + self.mac[2]]
                pos += self.mac[2]
                if tag != self._tag(packet):
                    return out, "packet %d: MAC is not HMAC(key, seq=%d || packet)" % (len(out), self.seq)
            if pad < 4 or pad > plen - 1:
                return out, "packet %d: padding_length %d (packet_length %d)" % (len(out), pad, plen)
            body = packet[5:len(packet) - pad]
            if self.decomp is not None:
                try:
                    body = self.decomp.decompress(body)
                except zlib.error as e:
                    return out, "packet %d: zlib %s" % (len(out), e)
            if not body:
                return out, "packet %d: empty payload (no message type)" % len(out)
            out.append((body[0], bytes(body[1:])))
            self.seq += 1
        return out, None


class WireReference(Bounded):
    prop = "C35"
    title = ("bytes written by sendPacket decode under an independent RFC 4253 section 6 codec to the payloads sent; "
             "packets built by that codec (any legal padding) are dispatched unchanged by dataReceived")
    scope = ("every supported cipher x MAC x {no compression, zlib} known to the reference tables; both directions "
             "(twisted -> reference, reference -> twisted); sessions of 36 messages of every length 0..35; reference "
             "packets with minimum padding, +1 and +3 blocks and the largest padding <= 255; whole and byte-at-a-time "
             "delivery; starting sequence numbers 0 and 5 (thorough: 0..80 and 2**31)")
    functions = ["SSHTransportBase.sendPacket", "SSHTransportBase.getPacket", "SSHTransportBase.dataReceived",
                 "SSHCiphers.setKeys", "SSHCiphers._getCipher", "SSHCiphers._getMAC", "SSHCiphers.encrypt",
                 "SSHCiphers.decrypt", "SSHCiphers.makeMAC", "SSHCiphers.verify"]

    def cases(self, tier, rng):
        for cfg in all_configs():
            if cfg[0] not in REF_CIPHERS or cfg[1] not in REF_MACS:
                continue
            for seq0 in (0, 5):
                yield cfg + ("twisted->ref", 35, seq0, 0)
            for extra in (0, 1, 3, 99):
                yield cfg + ("ref->twisted", 35, 5 if extra == 1 else 0, extra)
            if tier != "quick":
                yield cfg + ("twisted->ref", 80, 2 ** 31, 0)
                yield cfg + ("ref->twisted", 80, 2 ** 31, 2)

    def check(self, case):
        cfg, (direction, top, seq0, extra) = case[:3], case[3:]
        msgs = ladder(top, salt=extra)
        want = [(t, p) for t, p in msgs]
        if direction == "twisted->ref":
            sender, wire = send_all(cfg, msgs, seq0)
            got, err = RefCodec(cfg, "ab", seq0).decode(wire)
            if err is not None:
                return "%s seq0=%d: sendPacket output is not an RFC 4253 packet stream: %s; sent %s wire %s" % (
                    name_of(cfg), seq0, err, show(msgs), hx(wire))
            if got != want:
                return "%s: reference decoder reads %s, sent %s" % (name_of(cfg), show(got), show(msgs))
            return None
        ref = RefCodec(cfg, "ab", seq0)
        wire = b"".join(ref.encode(t, p, extra_blocks=extra, filler=(n * 37) & 0xFF) for n, (t, p) in enumerate(msgs))
        for label, chunks in (("whole", [wire]), ("bytewise", bytewise(wire))):
            b = receive(cfg, chunks, seq0)
            where = "%s seq0=%d padding+%d blocks, %s" % (name_of(cfg), seq0, extra, label)
            if b.transport.lost:
                return "%s: receiver disconnected on a valid RFC 4253 stream (%s)" % (where, hx(b.transport.take(), 60))
            if b.delivered != want:
                return "%s: reference sent %s, dispatched %s" % (where, show(msgs), show(b.delivered))
        return None


# --------------------------------------------------------------------------
# 3. tampering


def packet_spans(cfg, msgs, seq0=0):
    """wire and the (start, end) of every packet in it, measured at the sender's write calls"""
    a = endpoint(cfg, "A", seq0)
    spans, pos = [], 0
    for t, p in msgs:
        a.sendPacket(t, p)
        n = sum(len(c) for c in a.transport.chunks) - pos
        spans.append((pos, pos + n))
        pos += n
    return a.transport.take(), spans


CAP = 1048576 + 4 + 64 + 64
FILL = (300, 5000, 70000, CAP)


def claimed_need(cfg, wire, start, evil):
    """How many bytes beyond `evil` the receiver is entitled to wait for before it can judge the altered packet that
    starts at `start`: RFC 4253 section 6 -- it must read packet_length (as *it* decrypts it from the altered first
    block) + 4 + mac_length bytes.  Computed with the reference cipher state, None if the tables do not know cfg."""
    if cfg[0] not in REF_CIPHERS or cfg[1] not in REF_MACS:
        return None
    ref = RefCodec(cfg, "ab")
    _, err = ref.decode(wire[:start])
    if err is not None:
        return None
    block = evil[start:start + ref.bs]
    first = ref.dec.update(block) if ref.dec else block
    claimed = struct.unpack(">I", first[:4])[0]
    return claimed + 4 + (ref.mac[2] if ref.mac else 0) - (len(evil) - start)


class Tamper(Bounded):
    prop = "C35"
    title = ("one altered byte in a MAC protected packet: that payload and everything after it is never dispatched, "
             "the packets before it are, and the receiver drops the connection")
    scope = ("every supported cipher (incl. none) x every real MAC x {no compression, zlib}; a 3-message session "
             "(lengths 7, 18, 3; thorough also 6/0/40); the altered packet is the 2nd (thorough: each of the three); every "
             "byte offset of the packet on the wire (length field, padding length, type, payload, padding, every MAC "
             "byte) x XOR masks {0x01, 0x80, 0xff} (thorough: every single bit and 0xff); delivered whole, and for "
             "the offsets in the first 17 bytes / last payload byte / first and last MAC byte also byte-at-a-time and "
             "cut right after the altered byte.  The disconnect is demanded as soon as the receiver holds the bytes "
             "the (altered) length field announces: when that field now announces more than was sent, exactly the "
             "missing bytes (at most 1 MiB) are supplied first -- it cannot know earlier (RFC 4253 6)")
    functions = ["SSHTransportBase.getPacket", "SSHTransportBase.dataReceived", "SSHTransportBase.sendDisconnect",
                 "SSHCiphers.verify", "SSHCiphers.decrypt"]

    def cases(self, tier, rng):
        quick = tier == "quick"
        masks = (0x01, 0x80, 0xFF) if quick else (1, 2, 4, 8, 16, 32, 64, 128, 255)
        for cfg in all_configs(mac_required=True):
            for lens in (((7, 18, 3),) if quick else ((7, 18, 3), (6, 0, 40))):
                for k in ((1,) if quick else (0, 1, 2)):
                    for mask in masks:
                        yield cfg + (lens, k, mask)

    def check(self, case):
        cfg, (lens, k, mask) = case[:3], case[3:]
        msgs = tuple((t, payload(n, n + i)) for i, (t, n) in enumerate(zip((94, 80, 2), lens)))
        wire, spans = packet_spans(cfg, msgs)
        if len(spans) != len(msgs) or spans[-1][1] != len(wire):
            raise Bounded.Skip()
        start, end = spans[k]
        want = [(t, p) for t, p in msgs[:k]]
        macsize = REF_MACS[cfg[1]][1] if REF_MACS.get(cfg[1]) else 0
        special = {start + i for i in range(0, 17)} | {end - 1, end - macsize, end - macsize - 1}
        bad = []
        for off in range(start, end):
            evil = wire[:off] + bytes([wire[off] ^ mask]) + wire[off + 1:]
            need = claimed_need(cfg, wire, start, evil) if off - start < 16 else 0
            deliveries = [("whole", [evil])]
            if off in special:
                deliveries += [("bytewise", bytewise(evil)), ("cut after the altered byte", [evil[:off + 1], evil[off + 1:]])]
            for label, chunks in deliveries:
                b = receive(cfg, chunks)
                waited = 0
                if need is None:      # configuration unknown to the reference tables: weaker, keep the stream going
                    for n in FILL:
                        if b.transport.lost or b.delivered != want:
                            break
                        b.dataReceived(b"\x00" * n)
                        waited += n
                elif need > 0 and not b.transport.lost and b.delivered == want:
                    waited = min(need, CAP)
                    b.dataReceived(b"\x00" * waited)   # exactly the rest of what the altered length field announces
                what = None
                if b.delivered[:len(want)] != want:
                    what = "intact packets before it were not dispatched: got %s" % show(b.delivered)
                elif len(b.delivered) > len(want):
                    what = "dispatched %s after the alteration (sent %s)" % (show(b.delivered[len(want):]), show(msgs[k:]))
                elif not b.transport.lost:
                    what = "no disconnect (%d further bytes supplied to complete the announced length)" % waited
                if what:
                    bad.append("byte %d of packet %d (wire offset %d, packet is %d bytes incl. %d MAC) ^ 0x%02x, %s: %s" % (
                        off - start, k, off, end - start, macsize, mask, label, what))
                    break
            if len(bad) >= 3:
                break
        if bad:
            return "%s: %s; wire %s" % (name_of(cfg), " | ".join(bad), hx(wire))
        return None


# --------------------------------------------------------------------------
# 4. identification lines, version line, first packets


BANNER_LINES = (b"", b"a", b"S", b"SS", b"SSH", b"SSH2", b"-", b"hi SSH-", b"xSSH-2.0-y", b"welcome to the server",
                b"\x00\x00\x00\x0cnot a packet")
VERSION_LINES = (b"SSH-2.0-peer", b"SSH-2.0-peer_1.0 a comment SSH-2.0", b"SSH-1.99-x")
FIRST_PACKETS = (
    (),
    ((20, b"cookie0123456789"),),
    ((20, b"k\nx"), (2, b"")),
    ((20, b"ab\nSSH-2.0-inside\r\ncd"),),
)


class VersionExchange(Bounded):
    prop = "C35"
    title = ("identification lines + version line + first packets, cut anywhere: the version string is the peer's, the "
             "packets after it are dispatched exactly, no disconnect (RFC 4253 4.2)")
    scope = ("receiver fresh from connectionMade (no cipher, no MAC, as at the start of every connection); 0, 1 or 2 "
             "lines before the version line drawn from 11 texts (empty, prefixes of 'SSH-', 'SSH-' inside a line, long "
             "text, bytes that look like a length field; none begins with 'SSH-' as the RFC requires) each ended "
             "CR LF or LF; 3 version lines (2.0, 2.0 with comment, 1.99) ended CR LF or LF; then 0..2 packets from a "
             "real sendPacket incl. payloads containing LF and 'SSH-'; delivered whole, byte-at-a-time, in every 2-way "
             "split, and (streams <= 48 bytes; thorough: all) every 3-way split; thorough adds all ordered pairs of "
             "lines (first version line only)")
    functions = ["SSHTransportBase.dataReceived", "SSHTransportBase.getPacket", "SSHTransportBase.connectionMade",
                 "SSHTransportBase.sendPacket"]

    def cases(self, tier, rng):
        quick = tier == "quick"
        banners = [()]
        for ln in BANNER_LINES:
            for eol in (b"\r\n", b"\n"):
                banners.append((ln + eol,))
        pairs = list(itertools.product(BANNER_LINES, repeat=2)) if not quick else [
            (b"a", b"SS"), (b"welcome to the server", b""), (b"", b"hi SSH-"), (b"S", b"welcome to the server"),
            (b"hi SSH-", b"xSSH-2.0-y"), (b"SSH", b"-")]
        for a, b in pairs:
            banners.append((a + b"\r\n", b + b"\r\n"))
            if not quick:
                banners.append((a + b"\n", b + b"\r\n"))
        for banner in banners:
            for v in (VERSION_LINES if quick or len(banner) < 2 else VERSION_LINES[:1]):
                for eol in (b"\r\n", b"\n"):
                    for pk in range(len(FIRST_PACKETS)):
                        if quick and len(banner) == 2 and (eol == b"\n" or pk == 2):
                            continue
                        yield (banner, v, eol, pk, not quick)

    def nontrivial(self, case):
        return bool(case[0]) or bool(case[3])

    def check(self, case):
        banner, version, eol, pk, all3 = case
        msgs = FIRST_PACKETS[pk]
        _, packets = send_all((b"none", b"none", False), msgs)
        head = b"".join(banner) + version + eol
        stream = head + packets
        want = [(t, p) for t, p in msgs]
        deliveries = [[stream], bytewise(stream)] + list(two_way(stream))
        if len(stream) <= 48 or all3:
            deliveries += list(three_way(stream))
        for chunks in deliveries:
            b = _Endpoint()
            b.delivered = []
            b.makeConnection(_Wire())
            b.transport.take()
            for c in chunks:
                b.dataReceived(c)
            where = "lines %r version %r%r packets %s, cuts at %s" % (list(banner), version, eol, show(msgs), _cuts(chunks))
            if b.transport.lost:
                return "%s: receiver disconnected (%s)" % (where, _disconnect_text(b.transport.take()))
            if b.delivered != want:
                return "%s: dispatched %s" % (where, show(b.delivered))
            if not b.gotVersion or getattr(b, "otherVersionString", None) != version:
                return "%s: version string recorded %r" % (where, getattr(b, "otherVersionString", None))
            if b.incomingPacketSequence != len(msgs) or b.buf != b"":
                return "%s: %d packets received but incoming sequence number %r, %d bytes left in the buffer" % (
                    where, len(msgs), b.incomingPacketSequence, len(b.buf))
        return None


def _disconnect_text(out):
    """text of an unencrypted MSG_DISCONNECT among the bytes the receiver wrote (for the failure message only)"""
    i = out.find(b"\x00\x00\x00", 1)
    try:
        codec = RefCodec((b"none", b"none", False), "ba")
        got, _ = codec.decode(out)
        for t, p in got:
            if t == 1:
                n = struct.unpack(">I", p[4:8])[0]
                return "DISCONNECT %d %r" % (struct.unpack(">I", p[:4])[0], p[8:8 + n])
    except Exception:
        pass
    return hx(out[max(i, 0):], 40)


# --------------------------------------------------------------------------
# 5. sequence number wrap


class SequenceWrap(Bounded):
    prop = "C35"
    title = "a session whose packet sequence number passes 2**32 - 1 still round-trips (uint32 wraps, RFC 4253 6.4)"
    scope = ("every supported cipher x every MAC (incl. none), no compression; both counters start at 2**32 - 2; 5 "
             "messages; whole and byte-at-a-time; also read by the reference codec")
    functions = ["SSHTransportBase.sendPacket", "SSHTransportBase.getPacket", "SSHCiphers.makeMAC", "SSHCiphers.verify"]

    def cases(self, tier, rng):
        for cip in all_ciphers():
            for mac in all_macs():
                yield (cip, mac, False, 2 ** 32 - 2)

    def check(self, case):
        cfg, seq0 = case[:3], case[3]
        msgs = ladder(4)
        want = [(t, p) for t, p in msgs]
        a = endpoint(cfg, "A", seq0)
        for n, (t, p) in enumerate(msgs):
            try:
                a.sendPacket(t, p)
            except Exception as e:
                return "%s: sendPacket number %d of the session (sequence number %d) raised %r" % (
                    name_of(cfg), n, seq0 + n, e)
        wire = a.transport.take()
        for label, chunks in (("whole", [wire]), ("bytewise", bytewise(wire))):
            try:
                b = receive(cfg, chunks, seq0)
            except Exception as e:
                return "%s %s: receiving raised %r" % (name_of(cfg), label, e)
            if b.transport.lost or b.delivered != want:
                return "%s %s: sent %s, dispatched %s, disconnected %s" % (
                    name_of(cfg), label, show(msgs, 6), show(b.delivered, 6), bool(b.transport.lost))
        if cfg[0] in REF_CIPHERS and cfg[1] in REF_MACS:
            got, err = RefCodec(cfg, "ab", seq0).decode(wire)
            if err or got != want:
                return "%s: reference decoder (sequence numbers mod 2**32): %s, read %s" % (name_of(cfg), err, show(got, 6))
        return None


K2 = dict(iv_ab=_material(b"ivab2"), key_ab=_material(b"keyab2"), mac_ab=_material(b"macab2"),
          iv_ba=_material(b"ivba2"), key_ba=_material(b"keyba2"), mac_ba=_material(b"macba2"))


def _next_ciphers(cfg, role):
    cip, mac, comp = cfg
    c = transport.SSHCiphers(cip, cip, mac, mac)
    with warnings.catch_warnings():
        warnings.simplefilter("ignore")
        if role == "A":
            c.setKeys(K2["iv_ab"], K2["key_ab"], K2["iv_ba"], K2["key_ba"], K2["mac_ab"], K2["mac_ba"])
        else:
            c.setKeys(K2["iv_ba"], K2["key_ba"], K2["iv_ab"], K2["key_ab"], K2["mac_ba"], K2["mac_ab"])
    return c


class _RekeyEndpoint(_Endpoint):
    """switches to the negotiated keys when the peer's NEWKEYS arrives, as SSHServerTransport / SSHClientTransport do"""

    def dispatchMessage(self, messageNum, payload):
        self.delivered.append((messageNum, bytes(payload)))
        if messageNum == transport.MSG_NEWKEYS:
            self._newKeys()


def _begin_rekey(e, cfg2, role):
    """the state sendKexInit / ssh_KEXINIT / _keySetup leave behind, without the Diffie-Hellman arithmetic"""
    e._keyExchangeState = e._KEY_EXCHANGE_PROGRESSING
    e._blockedByKeyExchange = []
    e.nextEncryptions = _next_ciphers(cfg2, role)
    comp = b"zlib" if cfg2[2] else b"none"
    e.outgoingCompressionType = e.incomingCompressionType = comp


class RekeyQueue(Bounded):
    prop = "C35"
    title = "payloads sent while a key re-exchange is in progress reach the peer intact, in order, under the new keys"
    scope = ("A and B keyed with configuration 1 re-key to configuration 2 (every supported cipher x MAC pair as the "
             "old one against two new ones and vice versa, compression off/on); A's application sends 0..3 messages of "
             "types {IGNORE (2), 50, 94, 255} before A's NEWKEYS and 0..2 of types {50, 94} between A's NEWKEYS and the "
             "arrival of B's; the key exchange arithmetic itself is not run (states set as sendKexInit/_keySetup leave "
             "them); wire delivered whole and byte-at-a-time")
    functions = ["SSHTransportBase.sendPacket", "SSHTransportBase._allowedKeyExchangeMessageType", "SSHTransportBase._newKeys",
                 "SSHTransportBase.getPacket", "SSHTransportBase.dataReceived"]

    def cases(self, tier, rng):
        cfgs = list(all_configs())
        fixed = [(b"aes128-ctr", b"hmac-sha2-256", False), (b"aes256-ctr", b"hmac-sha1", True)]
        fixed = [f for f in fixed if f in cfgs] or cfgs[:2]
        scripts = []
        for nb in range(0, 3):
            for before in itertools.product((2, 50, 94, 255), repeat=nb):
                for after in ((), (94,), (50, 94)):
                    scripts.append((before, after))
        pairs = [(c, f) for c in cfgs for f in fixed] + [(f, c) for c in cfgs for f in fixed]
        if tier == "quick":
            pairs = pairs[::5]
        for k, (c1, c2) in enumerate(pairs):
            for j, sc in enumerate(scripts):
                if tier == "quick" and (j + k) % 7:
                    continue
                yield (c1, c2, sc)

    def check(self, case):
        cfg1, cfg2, (before, after) = case
        a = endpoint(cfg1, "A")
        a.__class__ = _RekeyEndpoint
        b = endpoint(cfg1, "B")
        b.__class__ = _RekeyEndpoint
        a.sendPacket(94, b"established")
        _begin_rekey(a, cfg2, "A")
        _begin_rekey(b, cfg2, "B")
        allowed, queued = [], []
        n = 0
        try:
            for t in before:
                n += 1
                pl = b"during-%d" % n
                a.sendPacket(t, pl)
                (allowed if t == 2 else queued).append((t, pl))
            a.sendPacket(transport.MSG_NEWKEYS, b"")
            for t in after:
                n += 1
                pl = b"after-own-newkeys-%d" % n
                a.sendPacket(t, pl)
                queued.append((t, pl))
            # B's NEWKEYS reaches A (under the old keys): A adopts the new keys and flushes its queue
            b.sendPacket(transport.MSG_NEWKEYS, b"")
            a.dataReceived(b.transport.take())
            a.sendPacket(94, b"afterwards")
        except Exception as e:
            return "%s -> %s, script %r: A raised %r" % (name_of(cfg1), name_of(cfg2), (before, after), e)
        want = [(94, b"established")] + allowed + [(transport.MSG_NEWKEYS, b"")] + queued + [(94, b"afterwards")]
        wire = a.transport.take()
        for label, chunks in (("whole", [wire]), ("bytewise", bytewise(wire))):
            r = endpoint(cfg1, "B")
            r.__class__ = _RekeyEndpoint
            _begin_rekey(r, cfg2, "B")
            try:
                for c in chunks:
                    r.dataReceived(c)
            except Exception as e:
                return "%s -> %s, script %r, %s: B raised %r" % (name_of(cfg1), name_of(cfg2), (before, after), label, e)
            if r.transport.lost or r.delivered != want:
                return "%s -> %s, script %r, %s: A sent %s, B dispatched %s, disconnected %s" % (
                    name_of(cfg1), name_of(cfg2), (before, after), label, show(want, 8), show(r.delivered, 8), bool(r.transport.lost))
        return None


BOUNDED = [RoundTripMatrix, WireReference, Tamper, VersionExchange, SequenceWrap, RekeyQueue]
