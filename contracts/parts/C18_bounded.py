"""C18 bounded tier: HTTP/1.1 server parsing does not depend on how bytes are segmented.

Every check drives a real server connection (HTTPFactory / Site -> _GenericHTTPChannelProtocol ->
HTTPChannel -> Request) over an in-memory transport, once with the whole stream in one delivery and
once per split, and compares what the application saw (method, target, version, headers, body of
every request handed to it) and the bytes written, both cut at the first loseConnection().

Independent oracles:
  * the property itself (split run == one-piece run), for every stream;
  * for grammar-generated *valid* streams the expected requests are the generator's own request
    descriptions (RFC 9112 message framing, obs-fold, chunked coding, persistence) and the expected
    responses are recovered from the written bytes by a small client-side response parser.
"""

import itertools
import random
import re

from pyvc.api import Bounded

from twisted.internet.address import IPv4Address
from twisted.internet.task import Clock
from twisted.internet.testing import StringTransport
from twisted.web import http, resource, server

ADDR = IPv4Address("TCP", "127.0.0.1", 4321)
FIXED_DATE = b"Thu, 01 Jan 1970 00:00:00 GMT"
CRLF = b"\r\n"


# ----------------------------------------------------------------------------------------------
# driver: a real server connection, a deterministic application, an observing transport
# ----------------------------------------------------------------------------------------------

def echo(method, uri, proto, body):
    return b"<" + method + b" " + uri + b" " + proto + b" %d:" % (len(body),) + body + b">"


class _Transport(StringTransport):
    """Records where (bytes written, requests seen) the server first closed the connection."""

    def __init__(self, env):
        StringTransport.__init__(self, hostAddress=ADDR, peerAddress=ADDR)
        self.env = env
        self.closedAt = None

    def _mark(self):
        if self.closedAt is None:
            self.closedAt = (len(self.value()), len(self.env.log))

    def loseConnection(self):
        self._mark()
        StringTransport.loseConnection(self)

    def abortConnection(self):
        self._mark()
        StringTransport.abortConnection(self)


class _RecRequest(http.Request):
    """The application at the twisted.web.http layer."""

    def process(self):
        self.channel.factory.c18env.received(self)


class _EchoResource(resource.Resource):
    """The application at the twisted.web.server layer (a leaf resource)."""

    isLeaf = True

    def __init__(self, env):
        resource.Resource.__init__(self)
        self.env = env

    def render(self, request):
        self.env.received(request)
        return server.NOT_DONE_YET


class _Env:
    def __init__(self, stack, policy):
        self.policy = policy
        self.log = []
        self.pending = []
        self.clock = Clock()  # never advanced: fixed clock, no idle timeout fires
        self.transport = _Transport(self)
        if stack == "http":
            f = http.HTTPFactory(reactor=self.clock)
            f.c18env = self
            self.proto = f.buildProtocol(ADDR)
            self.proto.requestFactory = _RecRequest
        else:
            f = server.Site(_EchoResource(self), reactor=self.clock)
            self.proto = f.buildProtocol(ADDR)
        self.proto.makeConnection(self.transport)

    def received(self, request):
        hdrs = tuple(sorted((k.lower(), tuple(v)) for k, v in request.requestHeaders.getAllRawHeaders()))
        body = request.content.read()
        self.log.append((request.method, request.uri, request.clientproto, hdrs, body))
        out = echo(request.method, request.uri, request.clientproto, body)
        if self.policy == "sync":
            self.complete(request, out)
        else:
            self.pending.append((request, out))

    @staticmethod
    def complete(request, out):
        request.setHeader(b"date", FIXED_DATE)
        if request.uri.startswith(b"/c"):
            k = len(out) // 2  # no Content-Length: chunked (1.1) or close-delimited (1.0) response
            request.write(out[:k])
            request.write(out[k:])
        else:
            request.setHeader(b"content-length", b"%d" % (len(out),))
            request.write(out)
        request.finish()

    def pump(self):
        """The deferred application answers everything it has been handed, oldest first."""
        while self.pending:
            request, out = self.pending.pop(0)
            self.complete(request, out)


def observe(stack, policy, chunks):
    """Deliver `chunks` as separate dataReceived calls (no delivery after the server closed, none
    while the server has paused the transport).  Policies: 'sync' answers inside the request
    callback; 'each' answers after every delivery; 'end' answers once nothing more will arrive
    (or when the server has paused reading).  Returns the observation cut at the first close."""
    env = _Env(stack, policy)
    t, p = env.transport, env.proto
    exc = None
    try:
        for c in chunks:
            if not c:
                continue
            if t.disconnecting:
                break
            if t.producerState == "paused":
                env.pump()
                if t.disconnecting:
                    break
            p.dataReceived(c)
            if policy == "each":
                env.pump()
        env.pump()
    except Exception as e:  # a real transport would log this and drop the connection
        exc = type(e).__name__
    written = t.value()
    if t.closedAt is not None:
        nbytes, nreq = t.closedAt
        return (tuple(env.log[:nreq]), written[:nbytes], True, exc)
    return (tuple(env.log), written, False, exc)


def cuts_to_chunks(stream, cuts):
    out, prev = [], 0
    for c in cuts:
        out.append(stream[prev:c])
        prev = c
    out.append(stream[prev:])
    return out


def describe(obs):
    reqs, written, closed, exc = obs
    return "requests=%r written=%r closed=%r exc=%r" % (
        [(r[0], r[1], r[2], r[3], r[4][:40]) for r in reqs][:6], written[:160], closed, exc)


def compare_splits(stack, policy, stream, cutsets, whole=None):
    """The property: every split gives the observation of the one-piece delivery."""
    if whole is None:
        whole = observe(stack, policy, [stream])
    for cuts in cutsets:
        got = observe(stack, policy, cuts_to_chunks(stream, cuts))
        if got != whole:
            return "stack=%s policy=%s cuts=%r (stream of %d bytes: %r): split run %s  !=  one-piece run %s" % (
                stack, policy, tuple(cuts), len(stream), stream if len(stream) <= 200 else stream[:80] + b"...",
                describe(got), describe(whole))
    return None


def two_way(n):
    return [(a,) for a in range(1, n)]


def three_way(n):
    return [(a, b) for a in range(1, n) for b in range(a + 1, n)]


def bytewise(n):
    return [tuple(range(1, n))] if n > 1 else []


# ----------------------------------------------------------------------------------------------
# reference: request descriptions -> wire bytes (RFC 9112 grammar) and -> what must be received
# ----------------------------------------------------------------------------------------------
# A request description is a tuple
#   (pre, method, target, version, headers, framing)
#   pre      bytes before the request line (b"" or one empty line, RFC 9112 2.2)
#   headers  tuple of (wire_line, name_lower, value): wire_line is what is sent (may contain
#            obs-fold CRLF SP/HT), value is the field value the recipient must see with every
#            whitespace run written as one SP (RFC 9112 5.2: obs-fold is replaced by SP)
#   framing  ("none",) | ("cl", body) | ("chunked", header_line, wire, body)

def chunked_wire(pieces, exts=(), last_ext=b"", trailers=(), upper=False):
    """chunked-body = *chunk last-chunk trailer-section CRLF (RFC 9112 7.1)."""
    out = b""
    for i, piece in enumerate(pieces):
        size = b"%x" % (len(piece),)
        if upper:
            size = size.upper()
        out += size + (exts[i] if i < len(exts) else b"") + CRLF + piece + CRLF
    out += b"0" + last_ext + CRLF
    for tline in trailers:
        out += tline + CRLF
    return out + CRLF


def wire(spec):
    pre, method, target, version, headers, framing = spec
    out = pre + method + b" " + target + b" " + version + CRLF
    for line, _name, _value in headers:
        out += line + CRLF
    if framing[0] == "cl":
        out += b"Content-Length: %d" % (len(framing[1]),) + CRLF + CRLF + framing[1]
    elif framing[0] == "chunked":
        out += framing[1] + CRLF + CRLF + framing[2]
    else:
        out += CRLF
    return out


def spec_body(spec):
    framing = spec[5]
    return framing[1] if framing[0] == "cl" else framing[3] if framing[0] == "chunked" else b""


def spec_persistent(spec):
    """RFC 9112 9.3: 1.1 persists unless 'close'; 1.0 without keep-alive does not."""
    if spec[3] != b"HTTP/1.1":
        return False
    for _line, name, value in spec[4]:
        if name == b"connection" and b"close" in [t.strip().lower() for t in value.split(b",")]:
            return False
    return True


def spec_expects_continue(spec):
    """RFC 9110 10.1.1: only a 1.1 request carrying the 100-continue expectation may get a 100."""
    return spec[3] == b"HTTP/1.1" and any(n == b"expect" and v.lower() == b"100-continue" for _l, n, v in spec[4])


FRAMING_HEADERS = (b"content-length", b"transfer-encoding")
_WS = re.compile(rb"[ \t]+")


def norm_headers(pairs):
    """name -> values in order, whitespace runs collapsed, framing headers left out."""
    d = {}
    for name, value in pairs:
        if name in FRAMING_HEADERS:
            continue
        d.setdefault(name, []).append(_WS.sub(b" ", value).strip(b" "))
    return tuple(sorted((k, tuple(v)) for k, v in d.items()))


def expected_for(specs):
    """(requests the application must receive, final responses (code, body), server closes?)."""
    reqs, resps, closed = [], [], False
    for spec in specs:
        body = spec_body(spec)
        reqs.append((spec[1], spec[2], spec[3], norm_headers((n, v) for _l, n, v in spec[4]), body))
        resps.append((200, b"" if spec[1] == b"HEAD" else echo(spec[1], spec[2], spec[3], body)))
        if not spec_persistent(spec):
            closed = True
            break
    return tuple(reqs), tuple(resps), closed


def parse_responses(data, methods):
    """Client-side framing of a response stream (RFC 9112 6.3).  Returns [(code, body|None)], interim
    responses included with body None; raises ValueError on anything that is not a response."""
    out, pos, nfinal = [], 0, 0
    while pos < len(data):
        end = data.find(CRLF + CRLF, pos)
        if end < 0:
            raise ValueError("unterminated response head at %d" % pos)
        lines = data[pos:end].split(CRLF)
        parts = lines[0].split(b" ", 2)
        if len(parts) < 2 or not parts[0].startswith(b"HTTP/1.") or not parts[1].isdigit():
            raise ValueError("bad status line %r" % (lines[0],))
        code = int(parts[1])
        hdrs = {}
        for h in lines[1:]:
            if b":" not in h:
                raise ValueError("bad response header %r" % (h,))
            k, v = h.split(b":", 1)
            hdrs[k.strip().lower()] = v.strip()
        pos = end + 4
        if 100 <= code < 200:
            out.append((code, None))
            continue
        method = methods[nfinal] if nfinal < len(methods) else b"GET"
        nfinal += 1
        if method == b"HEAD" or code in (204, 304):
            body = b""
        elif hdrs.get(b"transfer-encoding", b"").lower() == b"chunked":
            body = b""
            while True:
                eol = data.find(CRLF, pos)
                if eol < 0:
                    raise ValueError("truncated chunked response")
                size = int(data[pos:eol].split(b";")[0], 16)
                pos = eol + 2
                if size == 0:
                    eot = data.find(CRLF, pos)
                    while eot > pos:  # trailers
                        pos = eot + 2
                        eot = data.find(CRLF, pos)
                    if eot != pos:
                        raise ValueError("truncated chunked response trailer")
                    pos += 2
                    break
                body += data[pos:pos + size]
                if data[pos + size:pos + size + 2] != CRLF:
                    raise ValueError("chunk not followed by CRLF")
                pos += size + 2
        elif b"content-length" in hdrs:
            n = int(hdrs[b"content-length"])
            body = data[pos:pos + n]
            if len(body) != n:
                raise ValueError("truncated response body")
            pos += n
        else:
            body = data[pos:]
            pos = len(data)
        out.append((code, body))
    return out


def check_against_reference(specs, obs):
    """One-piece observation of a valid pipeline against the request descriptions."""
    reqs, written, closed, exc = obs
    want_reqs, want_resps, want_closed = expected_for(specs)
    if exc is not None:
        return "valid pipeline made dataReceived raise %s" % exc
    got_reqs = tuple((m, u, v, norm_headers((n, x) for n, vals in h for x in vals), b) for m, u, v, h, b in reqs)
    if got_reqs != want_reqs:
        return "application received %r, the stream carries %r" % (got_reqs, want_reqs)
    try:
        resps = parse_responses(written, [r[0] for r in want_reqs])
    except ValueError as e:
        return "written bytes are not a response stream (%s): %r" % (e, written[:200])
    finals = tuple(r for r in resps if r[1] is not None)
    if finals != want_resps:
        return "final responses %r, expected %r" % (finals, want_resps)
    # interim responses only where the request asked for one: directly before that request's final response
    idx = 0
    for i, r in enumerate(resps):
        if r[1] is None:
            if r[0] != 100 or idx >= len(specs) or not spec_expects_continue(specs[idx]):
                return "interim response %d before final response #%d which did not expect one" % (r[0], idx)
            if i > 0 and resps[i - 1][1] is None:
                return "two interim responses for request #%d" % idx
        else:
            idx += 1
    if closed != want_closed:
        return "server closed=%r, persistence rules say %r" % (closed, want_closed)
    return None


def H(line, name=None, value=None):
    """A header whose wire form is its own normal form unless told otherwise."""
    if name is None:
        n, v = line.split(b":", 1)
        name, value = n.lower(), v.strip(b" \t")
    return (line, name, value)


EVIL = b"GET /evil HTTP/1.1\r\nHost: e\r\n\r\n"  # a body that looks like a request
TE = b"Transfer-Encoding: chunked"

SHAPES = {
    "get": (b"", b"GET", b"/", b"HTTP/1.1", (), ("none",)),
    "get-fold": (b"", b"GET", b"/a?b=c&d", b"HTTP/1.1",
                 (H(b"Host: x"), H(b"X-F: a\r\n b\r\n\t c", b"x-f", b"a b c"), H(b"X-G:g")), ("none",)),
    "get-odd-headers": (b"", b"GET", b"/r", b"HTTP/1.1",
                        (H(b"X-R: 1"), H(b"x-r:2"), H(b"X-E:", b"x-e", b""), H(b"X-T:\t v:w \t", b"x-t", b"v:w"),
                         H(b"X-L: tail\r\n ", b"x-l", b"tail")), ("none",)),
    "post-cl0": (b"", b"POST", b"/p0", b"HTTP/1.1", (H(b"Host: x"),), ("cl", b"")),
    "post-cl-evil": (b"", b"POST", b"/p", b"HTTP/1.1", (), ("cl", EVIL)),
    "post-cl-crlf": (b"", b"POST", b"/p2", b"HTTP/1.1", (H(b"Content-Type: text/plain"),), ("cl", b"\r\n\r\n0\r\n\r\n")),
    "post-chunked": (b"", b"POST", b"/q", b"HTTP/1.1", (),
                     ("chunked", TE, chunked_wire((b"ab", b"\r\n0\r\n\r\n!", b"0123456789"), exts=(b"", b";x=y"),
                                                  upper=True), b"ab\r\n0\r\n\r\n!0123456789")),
    "post-chunked-trailer": (b"", b"POST", b"/q2", b"HTTP/1.1", (H(b"Host: x"),),
                             ("chunked", b"transfer-encoding: CHUNKED",
                              chunked_wire((EVIL,), last_ext=b";e=\"q\"", trailers=(b"T: v", b"U:w")), EVIL)),
    "post-chunked-empty": (b"", b"POST", b"/q0", b"HTTP/1.1", (), ("chunked", TE, chunked_wire(()), b"")),
    "put-expect": (b"", b"PUT", b"/e", b"HTTP/1.1", (H(b"Expect: 100-continue"),), ("cl", b"xyz")),
    "post-expect-chunked": (b"", b"POST", b"/e2", b"HTTP/1.1", (H(b"Expect: 100-Continue"), H(b"Host: x")),
                            ("chunked", TE, chunked_wire((b"x", b"yz")), b"xyz")),
    "get-chunked-response": (b"", b"GET", b"/c", b"HTTP/1.1", (), ("none",)),
    "head": (b"", b"HEAD", b"/h", b"HTTP/1.1", (H(b"Host: x"),), ("none",)),
    "get-close": (b"", b"GET", b"/k", b"HTTP/1.1", (H(b"Connection: close"),), ("none",)),
    "get-10": (b"", b"GET", b"/o", b"HTTP/1.0", (), ("none",)),
    "post-10-expect": (b"", b"POST", b"/o2", b"HTTP/1.0", (H(b"Expect: 100-continue"),), ("cl", b"hi")),
    "blank-get": (CRLF, b"GET", b"/b", b"HTTP/1.1", (H(b"Host: x"),), ("none",)),
    "blank-post": (CRLF, b"POST", b"/bp", b"HTTP/1.1", (), ("cl", b"\r\n")),
}
SHAPE_NAMES = tuple(SHAPES)
BODY_SHAPES = ("post-cl-evil", "post-chunked", "post-chunked-trailer", "put-expect", "blank-post", "get-fold")
QUICK_SINGLE_ONLY = ("get-odd-headers", "post-cl0", "post-cl-crlf", "post-chunked-empty")  # not paired in the quick tier


class PipelineSplits(Bounded):
    prop = "C18"
    title = ("valid pipelined request streams: every split gives the requests and written bytes of the one-piece "
             "delivery, and the one-piece delivery gives the requests the stream carries (RFC 9112 reference)")
    scope = ("18 hand-written request shapes (GET/HEAD/POST/PUT, HTTP/1.0 and 1.1, obs-fold continuation lines, empty / "
             "repeated / colon-carrying header values, Content-Length 0 and >0, bodies that look like requests or chunk "
             "framing, chunked bodies with extensions / upper-case sizes / trailers / no chunks, Expect: 100-continue "
             "on 1.1 and 1.0, Connection: close, a leading empty line, chunked and close-delimited responses); all "
             "singles and all ordered pairs of 14 of them (thorough: all 324 pairs plus all triples of 6 body shapes); "
             "both application layers "
             "(http.Request subclass, Site + leaf Resource); answer policies sync / after each delivery / at end; "
             "byte-at-a-time for every stream x layer x policy; every 2-way split for singles (all layers, policies) and "
             "for pairs at the http layer under sync and after-each-delivery (thorough: every stream x layer x policy); "
             "every 3-way split for the 15 singles of <= 80 bytes at the http layer under sync (thorough: all singles "
             "everywhere, and the 16 pairs of "
             "4 body shapes at the http layer under sync)")
    functions = ["HTTPChannel.dataReceived", "HTTPChannel.lineReceived", "HTTPChannel.headerReceived",
                 "HTTPChannel.allHeadersReceived", "HTTPChannel.rawDataReceived", "HTTPChannel.allContentReceived",
                 "HTTPChannel.requestDone", "HTTPChannel._finishRequestBody", "HTTPChannel._send100Continue",
                 "HTTPChannel.checkPersistence", "_IdentityTransferDecoder.dataReceived",
                 "_ChunkedTransferDecoder.dataReceived", "LineReceiver.dataReceived", "LineReceiver.setLineMode",
                 "Request.requestReceived", "_GenericHTTPChannelProtocol.dataReceived"]

    def cases(self, tier, rng):
        pair_names = SHAPE_NAMES if tier != "quick" else tuple(n for n in SHAPE_NAMES if n not in QUICK_SINGLE_ONLY)
        pipes = [(a,) for a in SHAPE_NAMES] + [(a, b) for a in pair_names for b in pair_names]
        if tier != "quick":
            pipes += list(itertools.product(BODY_SHAPES, repeat=3))
        for names in pipes:
            for stack in ("http", "site"):
                for policy in ("sync", "each", "end"):
                    yield (names, stack, policy, tier != "quick")

    def check(self, case):
        names, stack, policy, wide = case
        specs = [SHAPES[n] for n in names]
        stream = b"".join(wire(s) for s in specs)
        n = len(stream)
        whole = observe(stack, policy, [stream])
        why = check_against_reference(specs, whole)
        if why:
            return "one-piece delivery of %r (stack=%s policy=%s): %s" % (stream, stack, policy, why)
        cutsets = bytewise(n)
        if wide or len(names) == 1 or (stack == "http" and policy != "end"):
            cutsets += two_way(n)
        if len(names) == 1 and (wide or (stack == "http" and policy == "sync" and n <= 80)):
            cutsets += three_way(n)
        elif wide and len(names) == 2 and stack == "http" and policy == "sync" and all(x in BODY_SHAPES[:4] for x in names):
            cutsets += three_way(n)
        return compare_splits(stack, policy, stream, cutsets, whole)


# ----------------------------------------------------------------------------------------------
# mutated streams: only the property itself is the oracle
# ----------------------------------------------------------------------------------------------

BASES = (
    b"GET /a HTTP/1.1\r\nH: h\r\n\r\nGET /b HTTP/1.1\r\n\r\n",
    b"POST /a HTTP/1.1\r\nContent-Length: 3\r\n\r\nabc\r\nGET /b HTTP/1.1\r\n\r\n",
    b"POST /a HTTP/1.1\r\nTransfer-Encoding: chunked\r\n\r\n2;x\r\nab\r\n0\r\nT: v\r\n\r\nGET /b HTTP/1.1\r\n\r\n",
    b"PUT /a HTTP/1.1\r\nExpect: 100-continue\r\nX: a\r\n b\r\nContent-Length: 2\r\n\r\nxyGET /b HTTP/1.0\r\n\r\nGET /c HTTP/1.1\r\n\r\n",
)
MUT_QUICK = b"\r\n:\x00"
MUT_WIDE = b"\r\n \t:;,\x000a9fxG/=\"\x7f\x80\xff"


def mutate(base, op, pos, byte):
    if op == "del":
        return base[:pos] + base[pos + 1:]
    if op == "rep":
        return base[:pos] + bytes([byte]) + base[pos + 1:]
    if op == "ins":
        return base[:pos] + bytes([byte]) + base[pos:]
    if op == "crlf":
        return base[:pos] + CRLF + base[pos:]
    if op == "trunc":
        return base[:pos]
    if op == "dup":  # repeat the line that starts at or before pos
        a = base.rfind(CRLF, 0, pos) + 2 if CRLF in base[:pos] else 0
        b = base.find(CRLF, pos)
        b = len(base) if b < 0 else b + 2
        return base[:b] + base[a:b] + base[b:]
    if op == "barelf":  # the pos-th CRLF becomes a bare LF / bare CR
        idx = [m.start() for m in re.finditer(CRLF, base)]
        if pos >= len(idx):
            return None
        return base[:idx[pos]] + (b"\n" if byte else b"\r") + base[idx[pos] + 2:]
    raise ValueError(op)


class MutatedSplits(Bounded):
    prop = "C18"
    title = "single-edit mutants of pipelined streams: every split gives the requests and written bytes of the one-piece delivery"
    scope = ("4 base pipelines (GET+GET; Content-Length body + stray CRLF + GET; chunked body with extension and trailer + "
             "GET; Expect/continuation/Content-Length + 1.0 GET + GET), 44..112 bytes; every single-byte deletion, every "
             "replacement and insertion at every position with each of CR LF ':' NUL (thorough: 20 bytes incl. SP HT ';' "
             "',' digits hex '=' '\"' DEL 0x80 0xff), CRLF insertion at every position, every truncation, every line "
             "duplicated, every CRLF reduced to bare LF / bare CR; http.Request layer; sync policy: byte-at-a-time and every "
             "2-way split (quick tier, replacements and insertions only: the 2-way splits within 10 bytes of the edit); "
             "after-each-delivery policy: byte-at-a-time (thorough: every 2-way split too)")
    functions = PipelineSplits.functions + ["_parseRequestLine", "HTTPChannel._respondToBadRequestAndDisconnect",
                                            "HTTPChannel._maybeChooseTransferDecoder", "LineReceiver.lineLengthExceeded"]

    def cases(self, tier, rng):
        alpha = MUT_QUICK if tier == "quick" else MUT_WIDE
        for bi, base in enumerate(BASES):
            n = len(base)
            for pos in range(n):
                yield (bi, "del", pos, 0, tier != "quick")
                yield (bi, "trunc", pos, 0, tier != "quick")
                yield (bi, "crlf", pos, 0, tier != "quick")
                for byte in alpha:
                    if byte != base[pos]:
                        yield (bi, "rep", pos, byte, tier != "quick")
                    yield (bi, "ins", pos, byte, tier != "quick")
            for k in range(base.count(CRLF)):
                yield (bi, "barelf", k, 0, tier != "quick")
                yield (bi, "barelf", k, 1, tier != "quick")
            for pos in sorted({0} | {m.end() for m in re.finditer(CRLF, base) if m.end() < n}):
                yield (bi, "dup", pos, 0, tier != "quick")

    def check(self, case):
        bi, op, pos, byte, wide = case
        stream = mutate(BASES[bi], op, pos, byte)
        if stream is None or len(stream) < 2:
            raise Bounded.Skip()
        n = len(stream)
        if wide or op not in ("rep", "ins"):
            cuts = two_way(n)
        else:  # quick tier, the two bulk operators: cut points within 10 bytes of the edit
            cuts = [(a,) for a in range(max(1, pos - 10), min(n, pos + 11))]
        why = compare_splits("http", "sync", stream, cuts + bytewise(n))
        if why:
            return why
        return compare_splits("http", "each", stream, (two_way(n) if wide else []) + bytewise(n))


# ----------------------------------------------------------------------------------------------
# exhaustive small suffixes at each parser state
# ----------------------------------------------------------------------------------------------

TAIL_GET = b"GET /t HTTP/1.1\r\n\r\n"
CONTEXTS = {
    # name: (prefix, alphabet, tails)
    "header-section": (b"GET / HTTP/1.1\r\n", b"a: \t\r\n", (CRLF + CRLF + TAIL_GET,)),
    "request-target": (b"GET /", b"a \t\x7f\r\n", (b" HTTP/1.1\r\n\r\n" + TAIL_GET,)),
    "request-start": (b"", b"\r\nG \x00", (b"GET / HTTP/1.1\r\n\r\n" + TAIL_GET,)),
    "content-length-value": (b"POST / HTTP/1.1\r\nContent-Length:", b"02 +\r\n", (CRLF + CRLF + b"ab" + TAIL_GET,)),
    "after-body": (b"POST / HTTP/1.1\r\nContent-Length: 1\r\n\r\nx", b"\r\nG a", (TAIL_GET,)),
    "chunked-body": (b"POST / HTTP/1.1\r\nTransfer-Encoding: chunked\r\n\r\n", b"012a;\r\n",
                     (CRLF + b"0\r\n\r\n" + TAIL_GET, TAIL_GET)),
    "chunk-trailer": (b"POST / HTTP/1.1\r\nTransfer-Encoding: chunked\r\n\r\n1\r\nz\r\n0\r\n", b"T:v \r\n",
                      (CRLF + TAIL_GET,)),
    "expect-value": (b"PUT / HTTP/1.1\r\nContent-Length: 1\r\nExpect:", b"1c \r\n", (b"00-continue\r\n\r\nx" + TAIL_GET,)),
}


class SuffixStates(Bounded):
    prop = "C18"
    title = ("every short byte string placed at each parser state (request start, target, header section, Content-Length "
             "value, Expect value, between requests, chunked body, trailer section): every split around it gives the "
             "one-piece result")
    scope = ("8 parser contexts, each a fixed valid prefix + every string of <= 4 bytes (<= 3 in the two chunked contexts; "
             "thorough <= 5, header-section <= 6) over a 5..7 symbol alphabet holding that state's delimiters (CR LF SP HT "
             "':' ';' NUL DEL digits hex) + a fixed tail that completes the message and pipelines one more GET; cut "
             "points: every 2-way split from one byte before the inserted string to 4 bytes after it, byte-at-a-time "
             "across that window (thorough, strings <= 4: also every 3-way split inside the window and byte-at-a-time "
             "over the whole stream); http.Request layer; sync policy, and after-each-delivery policy for the "
             "byte-at-a-time deliveries")
    functions = MutatedSplits.functions + ["_ChunkedTransferDecoder._dataReceived_CHUNK_LENGTH",
                                           "_ChunkedTransferDecoder._dataReceived_BODY", "_ChunkedTransferDecoder._dataReceived_CRLF",
                                           "_ChunkedTransferDecoder._dataReceived_TRAILER"]

    def cases(self, tier, rng):
        slow = ("chunked-body", "chunk-trailer")  # chunked requests spool the body to a temporary file
        for name, (prefix, alpha, tails) in CONTEXTS.items():
            if tier == "quick":
                top, wide_top = (3 if name in slow else 4), -1
            else:
                top, wide_top = (6 if name == "header-section" else 5), 4
            for k in range(0, top + 1):
                for t in itertools.product(alpha, repeat=k):
                    for ti in range(len(tails) if k <= 4 else 1):
                        yield (name, bytes(t), ti, k <= wide_top)

    def nontrivial(self, case):
        return len(case[1]) >= 1

    def check(self, case):
        name, suffix, ti, wide = case
        prefix, _alpha, tails = CONTEXTS[name]
        stream = prefix + suffix + tails[ti]
        n = len(stream)
        lo, hi = max(1, len(prefix) - 1), min(n - 1, len(prefix) + len(suffix) + 4)
        if hi < lo:
            raise Bounded.Skip()
        burst = [tuple(range(lo, hi + 1))]  # byte-at-a-time across the window, the rest in two pieces
        cutsets = [(a,) for a in range(lo, hi + 1)] + burst
        if wide:
            cutsets += [(a, b) for a in range(lo, hi + 1) for b in range(a + 1, hi + 1)] + bytewise(n)
        why = compare_splits("http", "sync", stream, cutsets)
        if why:
            return why
        return compare_splits("http", "each", stream, burst + (bytewise(n) if wide else []))


# ----------------------------------------------------------------------------------------------
# lengths around every limit (real limits, targeted cut points)
# ----------------------------------------------------------------------------------------------

CHUNKED_PRE = b"POST /x HTTP/1.1\r\nTransfer-Encoding: chunked\r\n\r\n"


def limit_stream(kind, n):
    """Returns (stream, interesting offsets).  `n` is the length being placed at the limit."""
    if kind == "request-line":  # LineReceiver.MAX_LENGTH / totalHeadersSize = 16384 on the first line
        line = b"GET /" + b"a" * (n - 14) + b" HTTP/1.1"
        assert len(line) == n
        return line + CRLF + CRLF + TAIL_GET, [n]
    if kind == "no-delimiter":  # n bytes without any CRLF, then a CRLF
        return b"a" * n + CRLF + TAIL_GET, [n, 16384, 16386]
    if kind == "junk-after-request":  # the same after a complete request with a body
        pre = b"POST /x HTTP/1.1\r\nContent-Length: 2\r\n\r\nhi"
        return pre + b"a" * n + CRLF + TAIL_GET, [len(pre), len(pre) + n, len(pre) + 16384, len(pre) + 16386]
    if kind == "header-total":  # totalHeadersSize: request line + header lines sum to n
        lines = [b"GET /x HTTP/1.1"] + [b"H%d: " % i + b"v" * 3995 for i in range(3)]
        rest = n - sum(map(len, lines))
        lines.append(b"L: " + b"w" * (rest - 3))
        assert sum(map(len, lines)) == n
        s, marks = b"", []
        for ln in lines:
            s += ln + CRLF
            marks.append(len(s) - 2)
        return s + CRLF + TAIL_GET, marks[-2:] + [len(s)]
    if kind == "fold-total":  # the same with the bytes in continuation lines
        lines = [b"GET /x HTTP/1.1", b"F: v"] + [b" " + b"c" * 999] * 16
        rest = n - sum(map(len, lines))
        lines.append(b"\t" + b"d" * (rest - 1))
        assert sum(map(len, lines)) == n
        s = b"".join(ln + CRLF for ln in lines)
        return s + CRLF + TAIL_GET, [len(s) - 2, len(s)]
    if kind == "header-count":  # maxHeaders = 500
        s = b"GET /x HTTP/1.1\r\n" + b"".join(b"h%d: v\r\n" % i for i in range(n))
        return s + CRLF + TAIL_GET, [len(s) - 2, len(s)]
    if kind in ("chunk-size-line", "last-chunk-line"):  # maxChunkSizeLineLength = 1024; n = offset of its CRLF
        first = b"1;" if kind == "chunk-size-line" else b"0;"
        line = first + b"x" * (n - 2)
        body = line + CRLF + (b"z\r\n0\r\n\r\n" if kind == "chunk-size-line" else CRLF)
        p = len(CHUNKED_PRE)
        return CHUNKED_PRE + body + TAIL_GET, [p + n, p + 1024, p + 1, p + 2]
    if kind in ("trailer-one", "trailer-many"):  # _maxTrailerHeadersSize = 65536; n = bytes of trailer fields
        if kind == "trailer-one":
            fields = [b"T: " + b"t" * (n - 5)]
        else:
            fields = [b"T%d: " % i + b"t" * 8000 for i in range(7)]
            rest = n - sum(len(f) + 2 for f in fields)
            fields.append(b"L: " + b"u" * (rest - 5))
        tr = b"".join(f + CRLF for f in fields)
        assert len(tr) == n
        s = CHUNKED_PRE + b"1\r\nz\r\n0\r\n" + tr
        return s + CRLF + TAIL_GET, [len(s) - len(fields[-1]) - 2, len(s) - 2, len(s), len(s) + 2]
    if kind == "pipelined-backlog":  # _optimisticEagerReadSize = 0x4000 bytes buffered behind a pending request
        one = b"GET /%03d HTTP/1.1\r\n\r\n"
        unit = len(one % 0)
        k = n // unit + 20
        s = b"".join(one % (i % 1000) for i in range(k))
        return s, [unit, unit + 0x4000, len(s) - unit]
    if kind == "big-body":
        body = (b"0\r\n\r\nGET /evil HTTP/1.1\r\n\r\n" * (n // 27 + 1))[:n]
        pre = b"POST /x HTTP/1.1\r\nContent-Length: %d\r\n\r\n" % n
        return pre + body + TAIL_GET, [len(pre), len(pre) + n, len(pre) + 65536]
    if kind == "big-chunked-body":
        piece = (b"0\r\n\r\nGET /evil HTTP/1.1\r\n\r\n" * (n // 27 + 1))[:n]
        w = chunked_wire((piece, b"end"))
        return CHUNKED_PRE + w + TAIL_GET, [len(CHUNKED_PRE) + len(b"%x" % n) + 2 + n, len(CHUNKED_PRE) + len(w)]
    raise ValueError(kind)


LIMIT_CASES = (
    [("request-line", n) for n in range(16382, 16388)]
    + [("no-delimiter", n) for n in range(16383, 16388)]
    + [("junk-after-request", n) for n in range(16383, 16388)]
    + [("header-total", n) for n in range(16382, 16387)]
    + [("fold-total", n) for n in range(16383, 16387)]
    + [("header-count", n) for n in (499, 500, 501)]
    + [("chunk-size-line", n) for n in range(1021, 1027)]
    + [("last-chunk-line", n) for n in range(1021, 1027)]
    + [("pipelined-backlog", 0x4000 + 200)]
    + [("big-body", n) for n in (65535, 70001)]
    + [("big-chunked-body", n) for n in (65535, 70001)]
    + [("trailer-one", n) for n in range(65533, 65539)]
    + [("trailer-many", n) for n in range(65533, 65539)]
)


class LimitBoundaries(Bounded):
    prop = "C18"
    title = "streams whose lines / header totals / counts / chunk lines / trailers / backlog sit on each limit: splits at the limit give the one-piece result"
    scope = ("real limits (MAX_LENGTH 16384, totalHeadersSize 16384, maxHeaders 500, maxChunkSizeLineLength 1024, trailer limit "
             "65536, eager-read backlog 0x4000); 10 stream families with the measured quantity at every value from limit-2/-1 "
             "to limit+2/+3, plus a 17 KB pipeline of small requests (backlog; the cut decides how much is buffered behind "
             "the pending request) and 64 KB / 70 KB Content-Length and chunked bodies; cut points: every offset within 3 "
             "bytes of each limit-relevant position (end of the long line, its CR / LF, the limit offset itself, end of "
             "trailers, final CRLF) as 2-way splits, as 3-way splits isolating one byte, and byte-at-a-time across that "
             "window; plus 4 (thorough 40) seeded random multi-way splits per stream; sync and after-each-delivery "
             "policies, at-end policy for the backlog family; http.Request layer")
    functions = SuffixStates.functions + ["HTTPChannel.pauseProducing", "HTTPChannel.resumeProducing"]

    def cases(self, tier, rng):
        nrand = 4 if tier == "quick" else 40
        for kind, n in LIMIT_CASES:
            policies = ("sync", "each", "end") if kind == "pipelined-backlog" else ("sync", "each")
            for policy in policies:
                yield (kind, n, policy, tuple(rng.getrandbits(30) for _ in range(nrand)))

    def check(self, case):
        kind, n, policy, seeds = case
        stream, marks = limit_stream(kind, n)
        size = len(stream)
        window = set()
        for m in marks:
            window.update(range(m - 3, m + 4))
        pts = sorted(p for p in window if 0 < p < size)
        cutsets = [(p,) for p in pts]
        if kind != "pipelined-backlog":  # (hundreds of requests per run: keep that family to 2-way and bursts)
            cutsets += [(p, p + 1) for p in pts if p + 1 < size]
        for m in marks:  # byte-at-a-time across the window around each mark
            run = tuple(p for p in range(m - 3, m + 5) if 0 < p < size)
            if run:
                cutsets.append(run)
        for seed in seeds:
            r = random.Random(seed)
            k = r.choice((1, 2, 3, 8, 40))
            cutsets.append(tuple(sorted({r.randrange(1, size) for _ in range(k)})))
        if kind in ("header-count",):
            cutsets += bytewise(size)
        return compare_splits("http", policy, stream, cutsets)


# ----------------------------------------------------------------------------------------------
# seeded random grammar streams, valid and mutated, random multi-way splits, Site layer
# ----------------------------------------------------------------------------------------------

BODY_ALPHA = b"\r\n0a:; GET/HTP1.\x00\xff"
TOKEN = b"abcXYZ-09"


def gen_request(rng, persistent):
    method = rng.choice((b"GET", b"POST", b"PUT", b"DELETE", b"HEAD", b"OPTIONS", b"get"))
    target = b"/" + bytes(rng.choice(b"abc/?=&%2.~") for _ in range(rng.randrange(0, 8)))
    if rng.random() < 0.2:
        target = b"/c" + target[1:]
    version = b"HTTP/1.1" if persistent or rng.random() < 0.5 else b"HTTP/1.0"
    headers = []
    for i in range(rng.randrange(0, 5)):
        name = b"X-" + bytes(rng.choice(TOKEN) for _ in range(rng.randrange(1, 6))) + b"%d" % i
        words = [bytes(rng.choice(b"abc:;=,\"09") for _ in range(rng.randrange(1, 6))) for _ in range(rng.randrange(0, 4))]
        line = name + b":" + rng.choice((b"", b" ", b"\t", b"  "))
        for j, w in enumerate(words):
            if j:
                line += rng.choice((b" ", b"\t ", CRLF + b" ", CRLF + b"\t", CRLF + b"  \t"))
            line += w
        line += rng.choice((b"", b"", b" ", b"\t"))
        headers.append((line, name.lower(), b" ".join(words)))
    if rng.random() < 0.3:
        headers.append(H(b"Host: example.test"))
    if not persistent and version == b"HTTP/1.1":
        headers.append(H(rng.choice((b"Connection: close", b"connection: Close", b"Connection: foo, close"))))
    has_body = method in (b"POST", b"PUT") or rng.random() < 0.15
    framing = ("none",)
    if has_body:
        body = bytes(rng.choice(BODY_ALPHA) for _ in range(rng.choice((0, 1, 2, 5, 17, 60, 300))))
        if rng.random() < 0.3:
            body += EVIL
        if rng.random() < 0.25 and version == b"HTTP/1.1":
            headers.insert(rng.randrange(0, len(headers) + 1), H(rng.choice((b"Expect: 100-continue", b"expect:100-Continue"))))
        if version == b"HTTP/1.1" and rng.random() < 0.5:
            pieces, pos = [], 0
            while pos < len(body):
                k = rng.choice((1, 2, 3, 9, 16, 17, 255, 256))
                pieces.append(body[pos:pos + k])
                pos += k
            exts = tuple(rng.choice((b"", b"", b";a", b";a=b", b";q=\"x y\"")) for _ in pieces)
            trailers = tuple(b"T%d: %d" % (i, i) for i in range(rng.choice((0, 0, 1, 3))))
            w = chunked_wire(tuple(pieces), exts=exts, last_ext=rng.choice((b"", b";z")), trailers=trailers,
                             upper=rng.random() < 0.5)
            framing = ("chunked", rng.choice((TE, b"transfer-encoding:chunked", b"Transfer-Encoding: Chunked")), w, body)
        else:
            framing = ("cl", body)
    pre = CRLF if rng.random() < 0.15 else b""
    return (pre, method, target, version, tuple(headers), framing)


def gen_pipeline(rng, maxreq):
    k = rng.randrange(1, maxreq + 1)
    specs = [gen_request(rng, True) for _ in range(k - 1)]
    specs.append(gen_request(rng, rng.random() < 0.6))
    if rng.random() < 0.3:  # something after the last request as well
        specs.append(gen_request(rng, True))
    return specs


def rand_cuts(rng, n):
    if n < 2:
        return ()
    style = rng.randrange(4)
    if style == 0:
        k = rng.randrange(1, 4)
    elif style == 1:
        k = rng.randrange(4, 30)
    elif style == 2:
        k = max(1, n // rng.choice((2, 3, 5)))
    else:  # a burst of one-byte deliveries somewhere
        a = rng.randrange(1, n)
        return tuple(range(a, min(n, a + rng.randrange(2, 40))))
    return tuple(sorted({rng.randrange(1, n) for _ in range(k)}))


class RandomStreams(Bounded):
    prop = "C18"
    title = ("seeded random grammar-generated pipelines (valid, and with 1-3 random byte edits): random multi-way splits "
             "give the one-piece result; valid ones are received as generated")
    scope = ("random pipelines of 1..5 requests (thorough 1..9): random method / target / version, 0..4 headers with random "
             "OWS and obs-folds, Host, Connection: close variants, Expect: 100-continue, bodies of 0..300 bytes over "
             "{CR LF 0 a : ; SP G E T / H P 1 . NUL 0xff} optionally followed by a request-looking tail, Content-Length or "
             "chunked with random chunk sizes / extensions / trailers / hex case, optional leading empty line; quick 150 "
             "valid + 150 mutated streams, thorough 2500 + 2500; per stream 10 (thorough 16) random splits of four styles "
             "(few cuts, many cuts, dense, one-byte burst) plus byte-at-a-time; Site + Resource layer for valid streams, "
             "http.Request layer for mutated; policy drawn per stream from sync / each / end.  Sampled, not exhaustive.")
    functions = PipelineSplits.functions

    def cases(self, tier, rng):
        count = 150 if tier == "quick" else 2500
        nsplit = 10 if tier == "quick" else 16
        maxreq = 5 if tier == "quick" else 9
        for i in range(count):
            specs = gen_pipeline(rng, maxreq)
            stream = b"".join(wire(s) for s in specs)
            policy = rng.choice(("sync", "each", "end"))
            cutsets = tuple(rand_cuts(rng, len(stream)) for _ in range(nsplit))
            yield ("valid", stream, tuple(specs), policy, cutsets)
            mutated = bytearray(stream)
            for _ in range(rng.randrange(1, 4)):
                pos = rng.randrange(0, len(mutated))
                op = rng.randrange(3)
                b = rng.choice(MUT_WIDE)
                if op == 0:
                    del mutated[pos]
                elif op == 1:
                    mutated[pos] = b
                else:
                    mutated.insert(pos, b)
            mutated = bytes(mutated)
            cutsets = tuple(rand_cuts(rng, len(mutated)) for _ in range(nsplit))
            yield ("mutated", mutated, None, policy, cutsets)

    def check(self, case):
        kind, stream, specs, policy, cutsets = case
        if len(stream) < 2:
            raise Bounded.Skip()
        stack = "site" if kind == "valid" else "http"
        whole = observe(stack, policy, [stream])
        if kind == "valid":
            why = check_against_reference(list(specs), whole)
            if why:
                return "one-piece delivery of %r (stack=%s policy=%s): %s" % (stream, stack, policy, why)
        return compare_splits(stack, policy, stream, [c for c in cutsets if c] + bytewise(len(stream)), whole)


BOUNDED = [PipelineSplits, MutatedSplits, SuffixStates, LimitBoundaries, RandomStreams]
