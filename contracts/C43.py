"""C43 -- IRC messages are split within the length limit without losing content.

Deductive, character by character (every code point, symbolically), on the two quoting functions: irc.lowQuote maps NUL,
LF, CR and the quote character M-QUOTE to a two-character escape that begins with M-QUOTE and leaves every other
character alone -- so what IRCClient._reallySendLine puts on the wire never contains CR, LF or NUL inside a line --
and irc.ctcpQuote does the same for X-DELIM and the backslash.  The escapes are pairwise distinct and each first
character is the quote character itself, which is what makes the regular-expression dequoters an inverse (that inverse,
irc.split on top of textwrap, and the octet limit are the bounded tier's business).
Bounded (contracts/parts/C43_bounded.py): msg / notice / say, splitting, limits, round trips.
"""
from pyvc.api import *
from pyvc import core
from contracts._parts import bounded
from twisted.words.protocols import irc

LOW = {irc.M_QUOTE: irc.M_QUOTE + irc.M_QUOTE, irc.NUL: irc.M_QUOTE + "0", irc.NL: irc.M_QUOTE + "n", irc.CR: irc.M_QUOTE + "r"}
CTCP = {irc.X_QUOTE: irc.X_QUOTE + irc.X_QUOTE, irc.X_DELIM: irc.X_QUOTE + "a"}


class _QuoteChar(Contract):
    prop = "C43"
    module = "twisted.words.protocols.irc"
    differential = False
    inputs = dict(ch=Str(maxlen=1, minlen=1, alphabet="a\n\r\0\x10\\\x01", small_len=1))
    trusted = ["str.replace with a one-character pattern acts on every character independently (the per-character table is the function)"]
    TABLE = {}
    FORBIDDEN = ()

    def setup(self, i):
        return dict(fn=getattr(irc, self.function), args=[i.ch])

    def bounded_inputs(self, tier):
        return iter(())

    raises = ()

    def _table(S):
        truth = S.ghost["$interp"].truth
        c = S.ghost["$contract"]
        want = S.i.ch
        for k, v in sorted(c.TABLE.items()):
            if truth(veq(S.i.ch, k)):
                want = v
                break
        ok = veq(S.result, want)
        for f in c.FORBIDDEN:
            ok = band(ok, bnot(core.seq_contains(S.result, f)))
        return ok

    ensures = dict(escape_table_and_no_raw_special_character=_table)


class LowQuoteChar(_QuoteChar):
    function = "lowQuote"
    TABLE = LOW
    FORBIDDEN = (irc.NUL, irc.NL, irc.CR)
    canaries = [("for c in (M_QUOTE, NUL, NL, CR):", "for c in (M_QUOTE, NUL, NL):", "escape_table_and_no_raw_special_character"),
                ("for c in (M_QUOTE, NUL, NL, CR):", "for c in (NUL, NL, CR, M_QUOTE):", "escape_table_and_no_raw_special_character")]


class CtcpQuoteChar(_QuoteChar):
    function = "ctcpQuote"
    TABLE = CTCP
    FORBIDDEN = (irc.X_DELIM,)
    canaries = [("for c in (X_QUOTE, X_DELIM):", "for c in (X_DELIM, X_QUOTE):", "escape_table_and_no_raw_special_character")]



# -- the rate-limited send queue (lineRate) ---------------------------------------------------------------------------


def _really(I, client, line):
    ctx().emit("wire", client, (line,))


def _call_later(I, *args):
    # reactor.callLater(lineRate, self._sendLine): the hook of a bound method of a real object gets no receiver
    delay, fn = args[-2], args[-1]
    c = ctx()
    c.emit("callLater", None, (delay, fn))
    return c.ghost["$contract"].opaque("delayedcall")


QUEUE_CALLS = {"IRCClient._reallySendLine": _really, "reactor.callLater": _call_later, "callLater": _call_later,
               "ReactorBase.callLater": _call_later, "EPollReactor.callLater": _call_later, "SelectReactor.callLater": _call_later}


def _client(c, rate, queue, emptying):
    return c.make(irc.IRCClient, lineRate=rate, _queue=list(queue), _queueEmptying=emptying)


class DrainStep(Contract):
    """IRCClient._sendLine: with lines queued, the oldest goes to the wire and the next step is scheduled lineRate
    later; with the queue empty the drain is marked as stopped (_queueEmptying None), so that the next sendLine()
    starts it again (seeded change C43-3)."""
    prop = "C43"
    module = "twisted.words.protocols.irc"
    function = "IRCClient._sendLine"
    differential = False
    calls = QUEUE_CALLS
    inputs = dict(n=OneOf(0, 1, 2, 3), l0=Str(small_len=1), l1=Str(small_len=1), l2=Str(small_len=1), rate=Int(lo=0, small=[1, 2]))

    def setup(self, i):
        lines = [i.l0, i.l1, i.l2][: i.n]
        cl = _client(self, i.rate, lines, self.opaque("olddelayedcall"))
        return dict(self=cl, args=[], objs=dict(cl=cl), ghost=dict(lines=lines))

    def bounded_inputs(self, tier):
        return iter(())

    raises = ()

    def _step(S):
        cl, lines = S.new.cl, S.ghost["lines"]
        wire = [e for e in S.trace if e.name == "wire"]
        later = [e for e in S.trace if e.name == "callLater"]
        if not lines:
            return band(len(wire) == 0, len(later) == 0, cl._queueEmptying is None, len(cl._queue) == 0)
        if len(wire) != 1 or len(later) != 1:
            return False
        return band(wire[0].args[0] is lines[0], len(cl._queue) == len(lines) - 1,
                    all(a is b for a, b in zip(cl._queue, lines[1:])), later[0].args[0] == S.i.rate,
                    cl._queueEmptying is not None, cl._queueEmptying is not S.old.cl._queueEmptying)

    ensures = dict(oldest_line_sent_next_step_scheduled_or_drain_marked_stopped=_step)
    canaries = [("        else:\n            self._queueEmptying = None", "        else:\n            pass",
                 "oldest_line_sent_next_step_scheduled_or_drain_marked_stopped"),
                ("self._queue.pop(0)", "self._queue.pop()", "oldest_line_sent_next_step_scheduled_or_drain_marked_stopped")]


class QueueOrSend(Contract):
    """IRCClient.sendLine: without a rate the line goes out at once; with one it is queued at the tail and the drain is
    started exactly when none is running -- so a queued line always has a drain step pending"""
    prop = "C43"
    module = "twisted.words.protocols.irc"
    function = "IRCClient.sendLine"
    also = ["IRCClient._sendLine"]
    differential = False
    calls = QUEUE_CALLS
    inputs = dict(rated=ForkBool(), draining=ForkBool(), n=OneOf(0, 1, 2), l0=Str(small_len=1), l1=Str(small_len=1), line=Str(small_len=1))

    def requires(self, i):
        # the invariant of the queue: lines wait only while a drain step is pending
        return band(i.draining or i.n == 0, i.rated or (i.n == 0 and not i.draining))

    def setup(self, i):
        lines = [i.l0, i.l1][: i.n]
        cl = _client(self, 1 if i.rated else None, lines, self.opaque("olddelayedcall") if i.draining else None)
        return dict(self=cl, args=[i.line], objs=dict(cl=cl), ghost=dict(lines=lines))

    def bounded_inputs(self, tier):
        return iter(())

    raises = ()

    def _queued(S):
        cl, lines = S.new.cl, S.ghost["lines"]
        wire = [e for e in S.trace if e.name == "wire"]
        later = [e for e in S.trace if e.name == "callLater"]
        if not S.i.rated:
            return band(len(wire) == 1, wire[0].args[0] is S.i.line or veq(wire[0].args[0], S.i.line), len(later) == 0, len(cl._queue) == 0)
        if S.i.draining:
            return band(len(wire) == 0, len(later) == 0, len(cl._queue) == len(lines) + 1,
                        cl._queueEmptying is S.old.cl._queueEmptying)
        # nothing was pending: the line goes out now and the next step is scheduled
        return band(len(wire) == 1, len(later) == 1, len(cl._queue) == 0, cl._queueEmptying is not None)

    def _inv(S):
        cl = S.new.cl
        return bool(len(cl._queue) == 0 or cl._queueEmptying is not None)

    ensures = dict(sent_at_once_or_queued_behind_a_pending_drain=_queued, a_waiting_line_has_a_drain_step_pending=_inv)
    canaries = [("            if not self._queueEmptying:\n                self._sendLine()", "            pass",
                 "a_waiting_line_has_a_drain_step_pending")]


CONTRACTS = [LowQuoteChar, CtcpQuoteChar, DrainStep, QueueOrSend]
BOUNDED = bounded("C43")
_SCOPE = ("IRCClient.msg / notice / say and the low-level / CTCP quoting on the real code: exhaustive texts up to 5-6 characters over "
          "alphabets with blanks, CR, LF, multi-byte characters and the quoting metacharacters, all relevant limits, seeded random "
          "long texts; oracle: octet limit, no CR / LF inside a line, non-blank characters preserved in order, quoting round trips")
NOTES = dict(
    explanation="the two quoting functions proved character by character; splitting, limits and the dequoters bounded: " + _SCOPE,
    not_covered=["irc.split (textwrap), the octet limit (two recorded findings), lowDequote / ctcpDequote (regular expressions), the "
                 "composition of the per-character table over whole strings: bounded tier only"],
)
MANIFEST = dict(
    category="proof",
    text="For every character, irc.lowQuote returns the character itself or, for NUL, LF, CR and M-QUOTE, its two-character "
         "escape, and never an output containing NUL, LF or CR; irc.ctcpQuote likewise for X-DELIM and the backslash.  "
         "str.replace with a one-character pattern is characterwise, so no line IRCClient._reallySendLine sends contains a raw "
         "CR, LF or NUL.  With lineRate set, IRCClient.sendLine / _sendLine are proved to keep the queue discipline: a line is "
         "sent at once exactly when no drain is pending, otherwise queued at the tail; each drain step sends the oldest "
         "line and schedules the next step, and a step that finds the queue empty marks the drain as stopped, so that a "
         "waiting line always has a drain step pending.  Splitting within the limit (two genuine defects are recorded findings), preservation of the "
         "message's characters and the dequoters are exercised in the bounded tier only: " + _SCOPE + ".",
    note="Trusted: pyvc, SMT solvers, characterwise replace.  Everything else: bounded, never counted as proved.",
    technique="contract-based deductive verification (complete symbolic case analysis per character, SMT sequences) + bounded exhaustive texts and limits",
)
