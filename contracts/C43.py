"""C43 -- IRC line splitting and quoting: bounded only (textwrap / regex internals have no contract within reach)."""
from contracts._parts import bounded, EXPLORATION_NOTE

CONTRACTS = []
BOUNDED = bounded("C43")
NOTES = dict(
    explanation="IRCClient.msg/notice/say and the low-level/CTCP quoting run on the real code over exhaustive short "
                "texts and seeded random long ones; oracle: octet limit, no CR/LF inside a line, non-blank characters "
                "preserved in order, quoting round trips.",
    not_covered=["everything deductively: irc.split sits on textwrap, the dequoters on regular expressions"],
)
MANIFEST = dict(
    category="exploration",
    text="No function of this property is within the deductive verifier's reach (textwrap, re). The property is "
         "checked by the bounded stand-in: exhaustive texts up to 5-6 characters over alphabets with blanks, CR, LF, "
         "multi-byte characters and the quoting metacharacters, all relevant limits, plus seeded random texts; two "
         "genuine defects (line limit counted in characters; low-level quoting applied after splitting) are listed "
         "as known findings and every other failure is a violation.",
    note=EXPLORATION_NOTE,
    technique="bounded exhaustive evaluation of an executable contract on the real code (stand-in; not proved)",
)
