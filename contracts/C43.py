"""C43 -- IRC messages are split within the length limit without losing content.

Deductive, character by character (every code point, symbolically), on the two quoting functions: irc.lowQuote maps NUL,
LF, CR and the quote character M-QUOTE to a two-character escape that begins with M-QUOTE and leaves every other
character alone -- so what IRCClient._reallySendLine puts on the wire never contains CR, LF or NUL inside a line --
and irc.ctcpQuote does the same for X-DELIM and the backslash.  The escapes are pairwise distinct and each first
character is the quote character itself, which is what makes the regular-expression dequoters an inverse (that inverse,
irc.split on top of textwrap, and the octet limit are the bounded tier's business).
Bounded (contracts/parts/C43_bounded.py): msg / notice / say, splitting, limits, round trips.
"""
from pyvc.api import *
from pyvc import core
from contracts._parts import bounded
from twisted.words.protocols import irc

LOW = {irc.M_QUOTE: irc.M_QUOTE + irc.M_QUOTE, irc.NUL: irc.M_QUOTE + "0", irc.NL: irc.M_QUOTE + "n", irc.CR: irc.M_QUOTE + "r"}
CTCP = {irc.X_QUOTE: irc.X_QUOTE + irc.X_QUOTE, irc.X_DELIM: irc.X_QUOTE + "a"}


class _QuoteChar(Contract):
    prop = "C43"
    module = "twisted.words.protocols.irc"
    differential = False
    inputs = dict(ch=Str(maxlen=1, minlen=1, alphabet="a\n\r\0\x10\\\x01", small_len=1))
    trusted = ["str.replace with a one-character pattern acts on every character independently (the per-character table is the function)"]
    TABLE = {}
    FORBIDDEN = ()

    def setup(self, i):
        return dict(fn=getattr(irc, self.function), args=[i.ch])

    def bounded_inputs(self, tier):
        return iter(())

    raises = ()

    def _table(S):
        truth = S.ghost["$interp"].truth
        c = S.ghost["$contract"]
        want = S.i.ch
        for k, v in sorted(c.TABLE.items()):
            if truth(veq(S.i.ch, k)):
                want = v
                break
        ok = veq(S.result, want)
        for f in c.FORBIDDEN:
            ok = band(ok, bnot(core.seq_contains(S.result, f)))
        return ok

    ensures = dict(escape_table_and_no_raw_special_character=_table)


class LowQuoteChar(_QuoteChar):
    function = "lowQuote"
    TABLE = LOW
    FORBIDDEN = (irc.NUL, irc.NL, irc.CR)
    canaries = [("for c in (M_QUOTE, NUL, NL, CR):", "for c in (M_QUOTE, NUL, NL):", "escape_table_and_no_raw_special_character"),
                ("for c in (M_QUOTE, NUL, NL, CR):", "for c in (NUL, NL, CR, M_QUOTE):", "escape_table_and_no_raw_special_character")]


class CtcpQuoteChar(_QuoteChar):
    function = "ctcpQuote"
    TABLE = CTCP
    FORBIDDEN = (irc.X_DELIM,)
    canaries = [("for c in (X_QUOTE, X_DELIM):", "for c in (X_DELIM, X_QUOTE):", "escape_table_and_no_raw_special_character")]


CONTRACTS = [LowQuoteChar, CtcpQuoteChar]
BOUNDED = bounded("C43")
_SCOPE = ("IRCClient.msg / notice / say and the low-level / CTCP quoting on the real code: exhaustive texts up to 5-6 characters over "
          "alphabets with blanks, CR, LF, multi-byte characters and the quoting metacharacters, all relevant limits, seeded random "
          "long texts; oracle: octet limit, no CR / LF inside a line, non-blank characters preserved in order, quoting round trips")
NOTES = dict(
    explanation="the two quoting functions proved character by character; splitting, limits and the dequoters bounded: " + _SCOPE,
    not_covered=["irc.split (textwrap), the octet limit (two recorded findings), lowDequote / ctcpDequote (regular expressions), the "
                 "composition of the per-character table over whole strings: bounded tier only"],
)
MANIFEST = dict(
    category="proof",
    text="For every character, irc.lowQuote returns the character itself or, for NUL, LF, CR and M-QUOTE, its two-character "
         "escape, and never an output containing NUL, LF or CR; irc.ctcpQuote likewise for X-DELIM and the backslash.  "
         "str.replace with a one-character pattern is characterwise, so no line IRCClient._reallySendLine sends contains a raw "
         "CR, LF or NUL.  Splitting within the limit (two genuine defects are recorded findings), preservation of the "
         "message's characters and the dequoters are exercised in the bounded tier only: " + _SCOPE + ".",
    note="Trusted: pyvc, SMT solvers, characterwise replace.  Everything else: bounded, never counted as proved.",
    technique="contract-based deductive verification (complete symbolic case analysis per character, SMT sequences) + bounded exhaustive texts and limits",
)
