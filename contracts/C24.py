"""C24 -- HTTP client requests serialize to exactly the intended message.

Deductive, on the two objects that frame the request body:

  LengthEnforcingConsumer (Content-Length framing), for an arbitrary number of bytes still allowed and an arbitrary write:
      a write that fits is forwarded unchanged, exactly once, and the allowance shrinks by exactly its length (so the
      bytes forwarded never exceed, and on success equal, the declared length); a write that does not fit is not
      forwarded at all: the producer is stopped, the request fails with WrongBodyLength and every later write is refused
      (ExcessWrite, producer stopped again, nothing forwarded); _noMoreWritesExpected raises WrongBodyLength exactly
      when bytes are still missing.
  ChunkedEncoder (chunked framing), for an arbitrary write: a non-empty write becomes exactly one chunk
      `hex(len) CRLF data CRLF` (the hex spelling is the one C22's decoder contract reads back), an empty write emits
      nothing (it would be the last-chunk marker), unregisterProducer emits exactly the last chunk and an empty trailer
      and closes the encoder; writes after that are refused.
Bounded (contracts/parts/C24_bounded.py): whole requests against h11 (request line, headers, refusal of invalid
methods and targets, producers).
"""
import z3

from pyvc.api import *
from pyvc import core, models
from contracts._parts import bounded
from twisted.internet.defer import Deferred
from twisted.web import _newclient
from twisted.web._newclient import ChunkedEncoder, ExcessWrite, LengthEnforcingConsumer, WrongBodyLength

M = "twisted.web._newclient"


def ev(S, name):
    return [e for e in S.trace if e.name == name]


def rec(name):
    def h(I, obj, *a, **kw):
        ctx().emit(name, obj, a, kw)
    return h


class _Consumer(Contract):
    prop = "C24"
    module = M
    differential = False

    def bounded_inputs(self, tier):
        return iter(())


class LengthWrite(_Consumer):
    function = "LengthEnforcingConsumer.write"
    calls = {"consumer.write": rec("consumer.write"), "producer.stopProducing": rec("producer.stopProducing"),
             "finished.errback": rec("finished.errback"), "Failure": "native"}
    inputs = dict(remaining=Int(0, None), data=Bytes(alphabet=b"a", small_len=2), open=ForkBool())
    trusted = ["the underlying consumer, the producer and the request's Deferred are recorded call-outs",
               "_ignoreStopProducerWrite swallows what the producer's stopProducing raises (its own few lines; bounded tier)"]

    def setup(self, i):
        fin = self.opaque("finished") if i.open else None
        c = self.make(LengthEnforcingConsumer, _length=i.remaining, _producer=self.opaque("producer"),
                      _consumer=self.opaque("consumer"), _finished=fin)
        return dict(self=c, args=[i.data], objs=dict(c=c), ghost=dict(fin=fin))

    raises = {ExcessWrite: lambda S: not S.i.open}

    def _step(S):
        i = S.i
        w, stop, eb = ev(S, "consumer.write"), ev(S, "producer.stopProducing"), ev(S, "finished.errback")
        if not i.open:
            # closed (after an overrun or after the body was declared complete): nothing is forwarded any more
            return band(len(w) == 0, len(stop) == 1, len(eb) == 0, veq(S.new.c._length, i.remaining), S.new.c._finished is None)
        fits = L(i.data) <= i.remaining
        if len(w) == 1:
            return band(fits, len(stop) == 0, len(eb) == 0, veq(w[0].args[0], i.data), veq(S.new.c._length, i.remaining - L(i.data)),
                        S.new.c._finished is S.ghost["fin"])
        return band(bnot(fits), len(w) == 0, len(stop) == 1, len(eb) == 1,
                    isinstance(getattr(eb[0].args[0], "value", eb[0].args[0]), WrongBodyLength) if eb else False,
                    S.new.c._finished is None)

    ensures = dict(forwarded_unchanged_within_the_declared_length_or_not_at_all=_step)
    canaries = [("if len(bytes) <= self._length:", "if len(bytes) <= self._length + 1:", "forwarded_unchanged_within_the_declared_length_or_not_at_all"),
                ("self._length -= len(bytes)", "self._length -= 1", "forwarded_unchanged_within_the_declared_length_or_not_at_all")]


class LengthDone(_Consumer):
    function = "LengthEnforcingConsumer._noMoreWritesExpected"
    inputs = dict(remaining=Int(0, None), open=ForkBool())

    def setup(self, i):
        fin = self.opaque("finished") if i.open else None
        c = self.make(LengthEnforcingConsumer, _length=i.remaining, _producer=self.opaque("producer"),
                      _consumer=self.opaque("consumer"), _finished=fin)
        return dict(self=c, args=[], objs=dict(c=c))

    raises = {WrongBodyLength: lambda S: band(S.i.open, S.i.remaining > 0)}
    ensures = dict(closed_afterwards=lambda S: band(S.new.c._finished is None, len(S.trace) == 0))
    canaries = [("if self._length:", "if self._length > 1:", "raises/WrongBodyLength-exactly-when")]


class ChunkWrite(_Consumer):
    function = "ChunkedEncoder.write"
    calls = {"transport.writeSequence": rec("transport.writeSequence")}
    inputs = dict(data=Bytes(alphabet=b"a\r\n0", small_len=2), open=ForkBool())
    trusted = ["the transport is a recorded call-out; writeSequence(parts) writes the concatenation of the parts"]

    def setup(self, i):
        enc = self.make(ChunkedEncoder, transport=self.opaque("transport") if i.open else None)
        return dict(self=enc, args=[i.data], objs=dict(e=enc))

    raises = {ExcessWrite: lambda S: not S.i.open}

    def _chunk(S):
        if S.exc is not None:
            return len(S.trace) == 0
        ws = ev(S, "transport.writeSequence")
        n = L(S.i.data)
        if len(ws) == 0:
            return n == 0
        if len(ws) != 1 or len(S.trace) != 1:
            return False
        parts = list(ws[0].args[0])
        wire = parts[0]
        for p in parts[1:]:
            wire = wire + p
        size = core.SSeq(models.hexenc()(core.num_term(n)), "bytes")
        return band(n > 0, veq(wire, size + b"\r\n" + S.i.data + b"\r\n"))

    ensures = dict(one_chunk_with_the_hex_size_or_nothing_for_an_empty_write=_chunk)
    canaries = [("if not data:", "if False:", "one_chunk_with_the_hex_size_or_nothing_for_an_empty_write"),
                ("(networkString(\"%x\\r\\n\" % len(data)), data, b\"\\r\\n\")", "(networkString(\"%d\\r\\n\" % len(data)), data, b\"\\r\\n\")",
                 "one_chunk_with_the_hex_size_or_nothing_for_an_empty_write")]


class ChunkDone(_Consumer):
    function = "ChunkedEncoder.unregisterProducer"
    calls = {"transport.writeSequence": rec("transport.writeSequence"), "transport.unregisterProducer": rec("transport.unregisterProducer")}
    inputs = dict(open=ForkBool())

    def setup(self, i):
        enc = self.make(ChunkedEncoder, transport=self.opaque("transport") if i.open else None)
        return dict(self=enc, args=[], objs=dict(e=enc))

    raises = {ExcessWrite: lambda S: not S.i.open}

    def _last(S):
        if S.exc is not None:
            return len(S.trace) == 0
        ws, un = ev(S, "transport.writeSequence"), ev(S, "transport.unregisterProducer")
        if len(ws) != 1 or len(un) != 1 or len(S.trace) != 2 or S.trace[0] is not ws[0]:
            return False
        return band(b"".join(ws[0].args[0]) == b"0\r\n\r\n", S.new.e.transport is None)

    ensures = dict(last_chunk_once_then_closed=_last)
    canaries = [("self._allowNoMoreWrites()", "pass", "last_chunk_once_then_closed")]


def visible_ascii(b):
    q = z3.Int("c24!q")
    t = core.seq_term(b, "bytes")
    return band(L(b) > 0, core.mk_bool(z3.ForAll([q], z3.Implies(z3.And(q >= 0, q < z3.Length(t)), z3.And(t[q] >= 0x21, t[q] <= 0x7e)))))


def valid_uri_match(I, arg, *rest):
    r"""_VALID_URI.match for the pattern rb"\A[\x21-\x7e]+\Z": one or more bytes, each of them visible ASCII"""
    if _newclient._VALID_URI.pattern != rb"\A[\x21-\x7e]+\Z":
        raise Unsupported("_VALID_URI is no longer the pattern this model was written for: %r" % (_newclient._VALID_URI.pattern,))
    c = ctx()
    c.emit("match", None, (arg,))
    return True if I.truth(visible_ascii(arg)) else None


class EnsureValidURI(_Consumer):
    """the request target that is written is the very value that passed the test (seeded change C24-2 tested a stripped copy)"""
    function = "_ensureValidURI"
    calls = {"Pattern.match": valid_uri_match}
    inputs = dict(uri=Bytes(alphabet=b"a \r\n\x7f", small_len=2))
    trusted = [r"the compiled pattern rb'\A[\x21-\x7e]+\Z' means: at least one byte, every byte in 0x21..0x7e (the model refuses "
               "to run if the pattern's text changes)"]

    def setup(self, i):
        return dict(fn=_newclient._ensureValidURI, args=[i.uri])

    raises = {ValueError: lambda S: bnot(visible_ascii(S.i.uri))}
    ensures = dict(returns_the_value_it_tested=lambda S: None if S.exc else band(veq(S.result, S.i.uri), visible_ascii(S.result)))
    canaries = [("if _VALID_URI.match(uri):", "if _VALID_URI.match(uri.strip()):", "raises/ValueError-exactly-when")]


from contracts.C19 import all_tchars, istoken_summary  # noqa: E402  (the _istoken predicate proved there)


class EnsureValidMethod(_Consumer):
    function = "_ensureValidMethod"
    summaries = {"_istoken": istoken_summary}
    inputs = dict(method=Bytes(alphabet=b"G \r:", small_len=2))
    trusted = ["_istoken(b) <=> b is non-empty and every byte is an RFC 9110 tchar (proved as C19's IsToken contract)"]

    def setup(self, i):
        return dict(fn=_newclient._ensureValidMethod, args=[i.method])

    raises = {ValueError: lambda S: bnot(band(L(S.i.method) > 0, all_tchars(S.i.method)))}
    ensures = dict(returns_the_value_it_tested=lambda S: None if S.exc else veq(S.result, S.i.method))
    canaries = [("if _istoken(method):", "if _istoken(method.strip()):", "raises/ValueError-exactly-when")]



# -- the protocol's entry point: one request at a time on the wire ---------------------------------------------------


def write_to(I, request, transport):
    """request.writeTo(transport) serialises the head and starts the body producer -- application code that may call
    protocol.request() again: recorded with the protocol's state at that moment"""
    c = ctx()
    c.emit("writeTo", request, (transport,), {}, NSView({"p": snapshot_of(c.ghost["$objs"]["p"])}))
    if c.ghost["write_raises"]:
        raise RuntimeError("producer failed at once")
    return c.ghost["written"]


class RequestEntry(Contract):
    """HTTP11ClientProtocol.request: refused (RequestNotSent, nothing written) unless the protocol is QUIESCENT; otherwise
    the protocol is already TRANSMITTING when the request starts to be written -- so a request() issued from inside the
    body producer is refused instead of being written into the middle of this one (seeded change C24-3)."""
    prop = "C24"
    module = M
    function = "HTTP11ClientProtocol.request"
    differential = False
    calls = {"request.writeTo": write_to, "fail": lambda I, *a: (ctx().emit("fail", None, a), ctx().ghost["failed"])[1],
             "Deferred": lambda I, *a, **kw: ctx().ghost["$contract"].opaque("finished"),
             "TransportProxyProducer": lambda I, t: ctx().ghost["$contract"].opaque("proxy"),
             "HTTPClientParser": lambda I, *a: ctx().ghost["$contract"].opaque("parser", _responseDeferred=ctx().ghost["$contract"].opaque("responsed")),
             "written.addCallbacks": rec("addCallbacks"), "failed.addCallbacks": rec("addCallbacks"),
             "RequestNotSent": "native"}
    inputs = dict(state=OneOf("QUIESCENT", "TRANSMITTING", "WAITING", "TRANSMITTING_AFTER_RECEIVING_RESPONSE", "ABORTING",
                              "CONNECTION_LOST", "GENERATION_FAILED"), write_raises=ForkBool())

    def setup(self, i):
        p = self.make(_newclient.HTTP11ClientProtocol, _state=i.state, _parser=None, _currentRequest=None, _finishedRequest=None,
                      _responseDeferred=None, _transportProxy=None, transport=self.opaque("transport"))
        req = self.opaque("request")
        return dict(self=p, args=[req], objs=dict(p=p),
                    ghost=dict(write_raises=i.write_raises, written=self.opaque("written"), failed=self.opaque("failed"), req=req))

    def bounded_inputs(self, tier):
        return iter(())  # the real protocol is re-entered in the bounded class ReentrantRequest

    raises = ()

    def _entry(S):
        w = ev(S, "writeTo")
        p = S.new.p
        if S.i.state != "QUIESCENT":
            from twisted.web._newclient import RequestNotSent
            f = ev(S, "fail")
            return band(len(w) == 0, len(f) == 1, len(f[0].args) == 1, isinstance(f[0].args[0], RequestNotSent),
                        S.result is S.ghost["failed"], p._state == S.i.state, p._currentRequest is None, p._parser is None)
        if len(w) != 1:
            return False
        return band(w[0].target is S.ghost["req"], w[0].snap.p._state == "TRANSMITTING", p._state == "TRANSMITTING",
                    p._currentRequest is S.ghost["req"], p._parser is not None, p._finishedRequest is not None,
                    S.result is p._finishedRequest, len(ev(S, "addCallbacks")) == 1)

    ensures = dict(refused_unless_quiescent_and_transmitting_before_the_first_byte=_entry)
    canaries = [("        self._state = \"TRANSMITTING\"\n        try:\n            _requestDeferred = request.writeTo(self.transport)\n        except BaseException:\n            _requestDeferred = fail()\n",
                 "        try:\n            _requestDeferred = request.writeTo(self.transport)\n        except BaseException:\n            _requestDeferred = fail()\n        self._state = \"TRANSMITTING\"\n",
                 "refused_unless_quiescent_and_transmitting_before_the_first_byte"),
                ("        if self._state != \"QUIESCENT\":", "        if self._state == \"CONNECTION_LOST\":",
                 "refused_unless_quiescent_and_transmitting_before_the_first_byte")]


CONTRACTS = [LengthWrite, LengthDone, ChunkWrite, ChunkDone, EnsureValidURI, EnsureValidMethod, RequestEntry]
# AgentTargetDerivation (URL -> request-target in client.URI) is outside the property's statement (the target is
# given) and outside its anchors; it is not claimed here (see DESIGN.md, observations).
BOUNDED = [k for k in bounded("C24") if k.__name__ != "AgentTargetDerivation"]
_SCOPE = ("Request.writeTo / HTTP11ClientProtocol.request / Agent.request against h11 and RFC 9110/9112 byte classes: every 1-byte "
          "and short hostile method/target (each of 256 bytes inserted at start/middle/end) must be refused with nothing written, "
          "the full product of methods x targets x header sets x bodies must round-trip exactly, body write sequences (including "
          "empty writes and terminator look-alikes) must be framed correctly for every sync/async split")
NOTES = dict(explanation="the two body-framing consumers proved write by write; request line, headers, validators and producers bounded: " + _SCOPE,
             not_covered=["Request._writeHeaders (request line, Host, header lines), _ensureValidMethod / _ensureValidURI (regular "
                          "expressions), the producer plumbing of _writeToBodyProducer*: bounded tier only"])
MANIFEST = dict(
    category="proof",
    text="LengthEnforcingConsumer.write is proved, for any remaining allowance and any write, to forward a write that fits "
         "unchanged, once, and to reduce the allowance by exactly its length, and otherwise to forward nothing, stop the "
         "producer, fail the request with WrongBodyLength and refuse every later write; _noMoreWritesExpected raises "
         "WrongBodyLength exactly when bytes are missing: the body written under a Content-Length is never longer, and on "
         "success exactly as long, as declared.  ChunkedEncoder.write is proved to emit exactly `hex(len) CRLF data CRLF` for "
         "a non-empty write and nothing for an empty one, unregisterProducer exactly `0 CRLF CRLF`, once, after which the "
         "encoder is closed.  HTTP11ClientProtocol.request is proved to refuse (RequestNotSent, nothing written) in every state "
         "but QUIESCENT and to be TRANSMITTING already when the request starts to be written, so that a request() from "
         "inside the body producer cannot be written into the middle of this one.  Request line, headers, validators "
         "and producers are exercised in the bounded tier only: " + _SCOPE + ".",
    note="Trusted: pyvc, SMT solvers, transport / producer / Deferred as recorded call-outs.  Everything else: bounded, never counted as proved.",
    technique="contract-based deductive verification (symbolic execution, linear integer and sequence VCs, call-out traces) + bounded exhaustive requests against h11",
)
