"""C24 -- HTTP client request serialisation: bounded (h11 as the independent parser)."""
from contracts._parts import bounded, EXPLORATION_NOTE

CONTRACTS = []
# AgentTargetDerivation (URL -> request-target in client.URI) is outside the property's statement (the target is
# given) and outside its anchors; it is not claimed here (see DESIGN.md, observations).
BOUNDED = [k for k in bounded("C24") if k.__name__ != "AgentTargetDerivation"]
NOTES = dict(
    explanation="Request.writeTo / HTTP11ClientProtocol.request / Agent.request against h11 and RFC 9110/9112 byte "
                "classes: refusal before any write for invalid method/target, exact round trip otherwise, body framing "
                "for every split of the producer's writes.",
    not_covered=["deductive contracts on _writeHeaders / ChunkedEncoder (planned; the regex-based validators and the "
                 "producer plumbing are exercised by the bounded tier only)"],
)
MANIFEST = dict(
    category="exploration",
    text="Bounded stand-in with an independent parser (h11): every 1-byte and short hostile method/target (each of "
         "256 bytes inserted at start/middle/end) must be refused with nothing written, the full product of "
         "methods x targets x header sets x bodies must round-trip exactly, body write sequences (including empty "
         "writes and terminator look-alikes) must be framed correctly for every sync/async split.",
    note=EXPLORATION_NOTE,
    technique="bounded exhaustive evaluation of an executable contract on the real code with h11 as independent parser (stand-in; not proved)",
)
