"""C45 -- Jelly enforces its security policy: bounded stand-in (contracts/parts/C45_bounded.py)."""
from contracts._parts import bounded, EXPLORATION_NOTE

CONTRACTS = []
BOUNDED = bounded("C45")
_SCOPE = ('real jelly.unjelly under 8 SecurityOptions policies built through the public allow*() calls: a grammar of s-expressions over module / class / function / instance / method / reference / persistent tags and about 70 names (os.system, subprocess.Popen, builtins.eval, aliases of forbidden modules inside allowed ones, malformed dotted names) in 15 wrappers and 25 malformed shapes, 3000 random nested expressions; canary modules and classes, import spies and a walk of the returned object graph decide whether anything outside the policy was resolved, imported or instantiated; round trip of all 1-2 node (thorough 3) object graphs and 20000 random 3-5 node graphs with shared and cyclic references')
NOTES = dict(explanation=_SCOPE, not_covered=["deductive contracts on the anchored functions (not built)"])
MANIFEST = dict(
    category="exploration",
    text="Bounded stand-in only, on the real code: " + _SCOPE + ".",
    note=EXPLORATION_NOTE,
    technique="bounded exhaustive evaluation of an executable contract on the real code (stand-in; not proved)",
)
