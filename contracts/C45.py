"""C45 -- Jelly enforces its security policy.

Deductive (sink guards): _Unjellier._unjelly_module / _unjelly_class / _unjelly_function are executed symbolically for
an arbitrary name, with the policy object (taster) as two uninterpreted predicates and with every resolver
(reflect.namedObject, reflect.namedAny, __import__) as a call-out that records what it was asked for.  Proved: no
resolver is ever called for a name whose module part the policy has not *already* accepted on that path (so nothing
outside the policy is imported, not even when the call is refused afterwards), a class is returned only if the policy
accepted that class, what `class` returns is a class and what `function` returns is a function.
Bounded (contracts/parts/C45_bounded.py): the real resolvers, policies and whole s-expressions.
"""
import types

import z3

from pyvc.api import *
from pyvc import core
from contracts._parts import bounded
from twisted.spread import jelly

SEQ = core.IntSeq
MODPART = z3.Function("c45_all_but_last_dotted_component", SEQ, SEQ)
LAST = z3.Function("c45_last_dotted_component", SEQ, SEQ)
MOD_OK = z3.Function("c45_policy_allows_module", SEQ, z3.BoolSort())
CLS_OK = z3.Function("c45_policy_allows_class_named", SEQ, z3.BoolSort())
TYPE_OK = z3.Function("c45_policy_allows_type", SEQ, z3.BoolSort())
ATOMS = sorted(n[len("_unjelly_"):] for n in dir(jelly._Unjellier) if n.startswith("_unjelly_"))


def _t(x):
    return core.seq_term(x, "str")


class DottedParts(list):
    """name.split('.'): only the two views the code under proof may take are modelled -- everything but the last
    component (as one piece) and the last component.  Any other access leaves the modelled fragment."""

    def __init__(self, whole):
        list.__init__(self)
        self.whole = whole

    def __getitem__(self, k):
        if isinstance(k, slice) and (k.start, k.stop, k.step) == (None, -1, None):
            return [core.SSeq(MODPART(_t(self.whole)), "str")]
        if k == -1 and not isinstance(k, slice):
            return core.SSeq(LAST(_t(self.whole)), "str")
        raise Unsupported("access %r to the components of a dotted name" % (k,))

    def __len__(self):
        raise Unsupported("number of components of a dotted name")

    def __iter__(self):
        raise Unsupported("iteration over the components of a dotted name")


def split_hook(I, recv, *args, **kw):
    if len(args) == 1 and args[0] == "." and not kw:
        return DottedParts(recv)
    return NotImplemented


class Taster:
    """the policy: two arbitrary predicates (sidecar objects run natively inside the symbolic execution)"""

    def isModuleAllowed(self, name):
        return is_module_allowed(None, self, name)

    def isClassAllowed(self, klass):
        return is_class_allowed(None, self, klass)

    def isTypeAllowed(self, name):
        c = ctx()
        ok = TYPE_OK(core.seq_term(name, "bytes"))
        c.emit("isTypeAllowed", None, (core.seq_term(name, "bytes"), ok))
        return core.mk_bool(ok)


class ResolverFailed(AttributeError):
    """reflect.namedObject's getattr found nothing (kept apart from an AttributeError of the code under proof)"""


def _allowed_so_far(c, name_term):
    """has the policy, earlier on this path, accepted exactly the module part of this name?"""
    checks = [e for e in c.trace if e.name == "isModuleAllowed"]
    return z3.Or([z3.And(e.args[0] == name_term, e.args[1]) for e in checks]) if checks else z3.BoolVal(False)


def is_module_allowed(I, taster, name):
    c = ctx()
    ok = MOD_OK(_t(name))
    c.emit("isModuleAllowed", None, (_t(name), ok))
    return core.mk_bool(ok)


def _name_of(c, obj):
    """the name a resolver was asked for when it returned this object (ghost)"""
    return c.ghost.get("c45_names", {}).get(id(obj))


def is_class_allowed(I, taster, klass):
    c = ctx()
    name = _name_of(c, klass)
    if name is None:
        raise Unsupported("isClassAllowed on an object no resolver returned")
    ok = CLS_OK(name)
    c.emit("isClassAllowed", None, (name, ok))
    return core.mk_bool(ok)


class Other:
    """something that is neither a class nor a function"""


def _resolved(c, name, event, module_part):
    """what a resolver may do: fail, or return a class, a function, a builtin or something else"""
    guarded = _allowed_so_far(c, module_part)
    c.emit(event, None, (_t(name), guarded))
    k = c.decide(z3.Bool(c.fresh_name(event + "_fails")))
    if k:
        raise (ImportError if c.decide(z3.Bool(c.fresh_name(event + "_importerror"))) else ResolverFailed)("no such thing")
    if c.decide(z3.Bool(c.fresh_name(event + "_is_class"))):
        obj = type("Resolved", (), {})
    elif c.decide(z3.Bool(c.fresh_name(event + "_is_function"))):
        obj = (lambda: None) if c.decide(z3.Bool(c.fresh_name(event + "_python"))) else len  # len: some builtin function
    else:
        obj = Other()
    c.ghost.setdefault("c45_names", {})[id(obj)] = _t(name)
    c.ghost.setdefault("c45_keep", []).append(obj)  # keep it alive: ids must stay distinct on this path
    return obj


def named_object(I, name):
    c = ctx()
    return _resolved(c, name, "namedObject", MODPART(_t(name)))


def named_any(I, name):
    c = ctx()
    return _resolved(c, name, "namedAny", MODPART(_t(name)))


def builtin_import(I, name, *a, **kw):
    c = ctx()
    guarded = _allowed_so_far(c, _t(name))
    c.emit("__import__", None, (_t(name), guarded))
    if c.decide(z3.Bool(c.fresh_name("import_fails"))):
        raise ImportError("no such module")
    return types.ModuleType("resolved")


class _Sink(Contract):
    prop = "C45"
    module = "twisted.spread.jelly"
    differential = False
    calls = {"str.split": split_hook, "Taster.isModuleAllowed": is_module_allowed,
             "Taster.isClassAllowed": is_class_allowed, "namedObject": named_object, "namedAny": named_any,
             "__import__": builtin_import, "qual": lambda I, o: "some.name"}
    inputs = dict(name=Bytes(alphabet=b"a.\xff", small_len=3))
    trusted = ["str.split('.') is used only through [:-1] (joined again) and [-1]: the module part of a dotted name is an "
               "uninterpreted function of the name, the same one reflect.namedObject uses (its own source does the same split)",
               "the policy object answers isModuleAllowed / isClassAllowed as functions of the name (it has no state that "
               "changes during one unjelly call)",
               "a resolver may fail with ImportError / AttributeError or return a class, a Python function, a builtin or "
               "something else"]

    def setup(self, i):
        u = jelly._Unjellier(Taster(), None, None)
        return dict(fn=getattr(jelly._Unjellier, self.function.split(".")[1]), args=[u, [i.name]])

    def bounded_inputs(self, tier):
        return iter(())

    raises = (jelly.InsecureJelly, ImportError, ResolverFailed, UnicodeDecodeError)

    def _guarded(S):
        sinks = [e for e in S.trace if e.name in ("namedObject", "namedAny", "__import__")]
        return core.mk_bool(z3.And([e.args[1] for e in sinks])) if sinks else True

    def _consulted(S):
        # non-vacuity: every path that gets past the ASCII decoding asks the policy
        if isinstance(S.exc, UnicodeDecodeError):
            return None
        return any(e.name == "isModuleAllowed" for e in S.trace)

    ensures = dict(nothing_resolved_before_the_policy_accepted_its_module=_guarded, policy_is_consulted=_consulted)


class UnjellyModule(_Sink):
    function = "_Unjellier._unjelly_module"
    ensures = dict(_Sink.ensures,
                   returns_a_module_only=lambda S: None if S.exc else isinstance(S.result, types.ModuleType))
    canaries = [("if not self.taster.isModuleAllowed(moduleName):", "if False:", "nothing_resolved_before_the_policy_accepted_its_module")]


class UnjellyClass(_Sink):
    function = "_Unjellier._unjelly_class"

    def _class_ok(S):
        if S.exc is not None:
            return None
        name = S.ghost.get("c45_names", {}).get(id(S.result))
        if type(S.result) is not type or name is None:
            return False
        return core.mk_bool(CLS_OK(name))

    ensures = dict(_Sink.ensures, returns_only_a_class_the_policy_accepted=_class_ok)
    canaries = [("if not self.taster.isModuleAllowed(modName):", "if False:", "nothing_resolved_before_the_policy_accepted_its_module"),
                ("if not self.taster.isClassAllowed(klaus):", "if False:", "returns_only_a_class_the_policy_accepted"),
                ("if objType is not type:", "if False:", "returns_only_a_class_the_policy_accepted"),
                ("modName = nativeString(\".\").join(clist[:-1])", "modName = nativeString(\".\").join(clist[:-2])", "!verify")]


class UnjellyFunction(_Sink):
    function = "_Unjellier._unjelly_function"
    ensures = dict(_Sink.ensures,
                   returns_only_a_function=lambda S: None if S.exc else isinstance(S.result, (types.FunctionType, types.BuiltinFunctionType)))
    canaries = [("if not self.taster.isModuleAllowed(modName):", "if False:", "nothing_resolved_before_the_policy_accepted_its_module"),
                ("if not isinstance(function, (types.FunctionType, types.BuiltinFunctionType)):", "if False:", "returns_only_a_function")]


def registry_get(I, key, *default):
    """unjellyableRegistry.get / unjellyableFactoryRegistry.get for a type name that nobody registered"""
    if not is_sym(key):
        raise Unsupported("dict.get with a concrete key inside unjelly")
    return default[0] if default else None


def getattr_hook(I, obj, name, *default):
    """getattr(self, '_unjelly_<type>', None) for a type name that is none of the built-in atoms"""
    if not is_sym(name):
        return I.getattr(obj, name) if not default else (I.getattr(obj, name) if hasattr(obj, name) else default[0])
    for a in ATOMS:
        if I.truth(veq(name, "_unjelly_" + a)):
            raise Unsupported("dispatch to the atom %s" % a)
    if not default:
        raise AttributeError(name)
    return default[0]


def generic_unjelly(I, *args):
    cls, state = args[-2:]  # (a bound method of a real object reaches a summary without its receiver)
    c = ctx()
    c.emit("instantiate", None, (cls, _name_of(c, cls)))
    return Other()


class UnjellyDottedType(_Sink):
    """the generic branch of unjelly(): [b'some.module.Class', state] for a type name that is neither registered nor an atom"""
    function = "_Unjellier.unjelly"
    calls = dict(_Sink.calls, **{"dict.get": registry_get, "getattr": getattr_hook})
    summaries = {"_Unjellier._genericUnjelly": generic_unjelly}
    trusted = _Sink.trusted + ["the type name is not in unjellyableRegistry / unjellyableFactoryRegistry (registration is the "
                               "application's own statement of trust) and is none of the built-in atoms (%s)" % ", ".join(ATOMS),
                               "_genericUnjelly(cls, state) instantiates cls (summarised as an event; the state is unjellied "
                               "recursively through the same function)"]

    def requires(self, i):
        r = True
        for a in ATOMS:
            r = band(r, bnot(veq(i.name, a.encode("ascii"))))
        return r

    def setup(self, i):
        u = jelly._Unjellier(Taster(), None, None)
        return dict(fn=jelly._Unjellier.unjelly, args=[u, [i.name, [b"dictionary"]]])

    def _instances(S):
        out = True
        for e in S.trace:
            if e.name == "instantiate":
                if e.args[1] is None:
                    return False
                out = band(out, core.mk_bool(CLS_OK(e.args[1])))
        return out

    def _consulted(S):
        if isinstance(S.exc, UnicodeDecodeError):
            return None
        names = [e.name for e in S.trace]
        return "isTypeAllowed" in names and (isinstance(S.exc, jelly.InsecureJelly) or "isModuleAllowed" in names)

    ensures = dict(nothing_resolved_before_the_policy_accepted_its_module=_Sink._guarded,
                   instantiates_only_what_the_policy_accepted_as_a_class=_instances, policy_is_consulted=_consulted)
    canaries = [("if not self.taster.isModuleAllowed(modName):", "if False:", "nothing_resolved_before_the_policy_accepted_its_module"),
                ("if not self.taster.isClassAllowed(clz):", "if False:", "instantiates_only_what_the_policy_accepted_as_a_class")]


CONTRACTS = [UnjellyModule, UnjellyClass, UnjellyFunction, UnjellyDottedType]
for _k in CONTRACTS:
    _k.replay_decides = False  # the security policy and the dotted-name split are uninterpreted: not part of the inputs a replay gets
BOUNDED = bounded("C45")
_SCOPE = ('real jelly.unjelly under 8 SecurityOptions policies built through the public allow*() calls: a grammar of s-expressions over module / class / function / instance / method / reference / persistent tags and about 70 names (os.system, subprocess.Popen, builtins.eval, aliases of forbidden modules inside allowed ones, malformed dotted names) in 15 wrappers and 25 malformed shapes, 3000 random nested expressions; canary modules and classes, import spies and a walk of the returned object graph decide whether anything outside the policy was resolved, imported or instantiated; round trip of all 1-2 node (thorough 3) object graphs and 20000 random 3-5 node graphs with shared and cyclic references')
NOTES = dict(explanation="the three name-resolving atoms proved to call no resolver before the policy accepted the module and to return "
                         "only what the policy / the atom allows; everything else bounded: " + _SCOPE,
             not_covered=["_Unjellier.unjelly's dispatch to the built-in atoms and to registered unjellyables (the generic dotted-type "
                          "branch is under contract for names that are neither), instance / method atoms, _genericUnjelly / "
                          "_newInstance, SecurityOptions itself, the round trip of object graphs: bounded tier only"])
MANIFEST = dict(
    category="proof",
    text="_Unjellier._unjelly_module, _unjelly_class and _unjelly_function are proved, for every name, an arbitrary policy "
         "(two uninterpreted predicates) and arbitrary resolver behaviour, never to call reflect.namedObject / namedAny / "
         "__import__ unless the policy has already accepted the module part of exactly that name on the same path; "
         "_unjelly_class returns only a class that the policy accepted, _unjelly_function only a function, _unjelly_module "
         "only a module; anything else raises.  The generic branch of _Unjellier.unjelly ([b'mod.Class', state] for a type "
         "name that is neither registered nor a built-in atom) is proved the same way: the type is refused unless "
         "isTypeAllowed accepts it, nothing is resolved before the module was accepted, and _genericUnjelly is reached only "
         "with what isClassAllowed accepted.  The dispatch to atoms and registered classes, instance / method atoms, the "
         "real policies and resolvers and the round trip are exercised in the bounded tier only: " + _SCOPE + ".",
    note="Trusted: pyvc, SMT solvers, the two-view model of str.split('.'), a stateless policy object.  Everything else: bounded, never counted as proved.",
    technique="contract-based deductive verification (symbolic execution with uninterpreted policy predicates and recorded resolver call-outs, SMT) + bounded exhaustive s-expressions",
)
