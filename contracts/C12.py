"""C12 -- System event triggers run once each, in phase and registration order.

Deductive, on the real _ThreePhaseEvent with up to two before-triggers, two during-triggers and one after-trigger of
*arbitrary behaviour* (a before-trigger returns nothing, a Deferred that has not fired, one that has already succeeded or
failed, or raises; the others return or raise), the pending Deferreds then fired in either order by callback or errback:

  fireEvent / _continueFiring   every trigger runs exactly once; before-triggers first, in registration order; no during- or
          after-trigger runs until every Deferred a before-trigger returned has fired -- whether it succeeds or fails; then
          the during-triggers in order, then the after-triggers; a trigger that raises stops nothing; afterwards the lists
          are empty and the event is back in its base state;
  addTrigger      appends exactly one registration to the named phase (KeyError for an unknown phase, nothing changed);
  removeTrigger   in the base state removes exactly the registration the handle names (ValueError if it is not there).
The number of triggers per phase is bounded (stated); their behaviour and the firing order are not.
Bounded (contracts/parts/C12_bounded.py): histories of add / remove / fire with up to 20 triggers, removal while firing.
"""
import z3

from pyvc.api import *
from pyvc import core
from contracts._parts import bounded
from twisted.internet import base, defer
from twisted.internet.defer import Deferred
from twisted.python.failure import Failure

M = "twisted.internet.base"


def ev(S, name):
    return [e for e in S.trace if e.name == name]


def mkd(c, called=False, result=None):
    return c.make(Deferred, called=called, _suppressAlreadyCalled=False, paused=0, _canceller=None, result=result, debug=False,
                  _debugInfo=None, callbacks=[], _runningCallbacks=False, _chainedTo=None)


class TriggerRaised(Exception):
    """what a misbehaving trigger raises"""


def trigger_call(I, trig, *args, **kw):
    """a trigger is called: recorded; its behaviour is whatever the scenario says for it"""
    c = ctx()
    name = trig._name
    c.emit("run", trig, args, kw, {"pending": sum(1 for d in c.ghost["returned"].values() if not d._fields["called"])})
    how = c.ghost["behaviour"][name]
    if how == "raise":
        raise TriggerRaised(name)
    if how in ("pending", "fired", "failed"):
        d = c.ghost["deferreds"][name]
        c.ghost["returned"][name] = d
        return d
    return None


class FireEvent(Contract):
    prop = "C12"
    module = M
    function = "_ThreePhaseEvent.fireEvent"
    also = ["_ThreePhaseEvent._continueFiring"]
    differential = False
    B = ("none", "pending", "fired", "failed", "raise")
    inputs = dict(nb=OneOf(0, 1, 2), nd=OneOf(0, 1, 2), na=OneOf(0, 1), b1=OneOf(*B), b2=OneOf(*B), d1=OneOf("none", "raise"),
                  d2=OneOf("none", "raise"), a1=OneOf("none", "raise"), order=OneOf("forward", "backward"), how1=OneOf("callback", "errback"),
                  how2=OneOf("callback", "errback"))
    calls = {"b1.__call__": trigger_call, "b2.__call__": trigger_call, "d1.__call__": trigger_call, "d2.__call__": trigger_call,
             "a1.__call__": trigger_call, "_FastFailCtxMgr.__exit__": lambda I, *a: (ctx().emit("logged", None, ()), True)[1],
             "Failure": "native"}
    trusted = ["at most two before-, two during- and one after-trigger (stated bound); the behaviour of each and the firing order are arbitrary",
               "_systemEventHandler (Logger.failureHandler) swallows and logs whatever the trigger raises: its __exit__ returns True "
               "unconditionally (four lines)",
               "triggers do not add or remove triggers while the event fires (that is exercised in the bounded tier)",
               "DeferredList / Deferred are executed from their real source (their own contracts: C01, C03, C04)"]

    def requires(self, i):
        # parameters of triggers that do not exist are irrelevant: fix them to keep the case analysis small
        r = True
        if i.nb < 2:
            r = band(r, i.b2 == "none", i.how2 == "callback")
        if i.nb < 1:
            r = band(r, i.b1 == "none", i.how1 == "callback", i.order == "forward")
        if i.nd < 2:
            r = band(r, i.d2 == "none")
        if i.nd < 1:
            r = band(r, i.d1 == "none")
        if i.na < 1:
            r = band(r, i.a1 == "none")
        if not (i.b1 == "pending" and i.b2 == "pending"):
            r = band(r, i.order == "forward")
        if i.b1 != "pending":
            r = band(r, i.how1 == "callback")
        if i.b2 != "pending":
            r = band(r, i.how2 == "callback")
        return r

    def setup(self, i):
        names = ["b1", "b2"][:i.nb] + ["d1", "d2"][:i.nd] + ["a1"][:i.na]
        trig = {n: self.opaque(n) for n in names}
        behaviour = dict(b1=i.b1, b2=i.b2, d1=i.d1, d2=i.d2, a1=i.a1)
        deferreds = {}
        for n in ("b1", "b2"):
            how = behaviour[n]
            if how == "pending":
                deferreds[n] = mkd(self)
            elif how == "fired":
                deferreds[n] = mkd(self, True, "done")
            elif how == "failed":
                deferreds[n] = mkd(self, True, Failure(TriggerRaised("failed before")))
        evt = self.make(base._ThreePhaseEvent, state="BASE",
                        before=[(trig[n], (), {}) for n in names if n[0] == "b"],
                        during=[(trig[n], (), {}) for n in names if n[0] == "d"],
                        after=[(trig[n], (), {}) for n in names if n[0] == "a"])

        def drive(call):
            call(evt, "fireEvent")
            c = ctx()
            c.emit("fireEvent-returned", None, ())
            pend = [n for n in ("b1", "b2") if behaviour[n] == "pending" and n in names]
            if i.order == "backward":
                pend.reverse()
            for n in pend:
                how = i.how1 if n == "b1" else i.how2
                d = deferreds[n]
                if how == "callback":
                    call(d, "callback", "later")
                else:
                    call(d, "errback", Failure(TriggerRaised("failed later")))
                c.emit("fired", None, (n,))
        return dict(drive=drive, objs=dict(e=evt), ghost=dict(behaviour=behaviour, deferreds=deferreds, returned={}, names=names))

    def bounded_inputs(self, tier):
        return iter(())

    raises = ()

    def _order(S):
        names = S.ghost["names"]
        runs = [e.target._name for e in ev(S, "run")]
        # exactly once each: before-triggers in order, then during, then after
        return band(runs == names, S.new.e.state == "BASE", S.new.e.before == [], S.new.e.during == [], S.new.e.after == [])

    def _barrier(S):
        # no during- or after-trigger runs while a Deferred returned by a before-trigger is still pending
        for e in ev(S, "run"):
            if e.target._name[0] in "da" and e.snap["pending"] != 0:
                return False
        return True

    ensures = dict(every_trigger_once_in_phase_and_registration_order=_order, later_phases_wait_for_every_before_deferred=_barrier)
    canaries = [("DeferredList(beforeResults).addCallback(self._continueFiring)", "DeferredList(beforeResults, fireOnOneErrback=True).addCallback(self._continueFiring)",
                 "every_trigger_once_in_phase_and_registration_order"),
                ("DeferredList(beforeResults).addCallback(self._continueFiring)", "self._continueFiring(None)", "later_phases_wait_for_every_before_deferred"),
                ("        for phase in self.during, self.after:", "        for phase in self.after, self.during:", "every_trigger_once_in_phase_and_registration_order",
                 "_ThreePhaseEvent._continueFiring")]


class AddTrigger(Contract):
    prop = "C12"
    module = M
    function = "_ThreePhaseEvent.addTrigger"
    differential = False
    calls = {"_ThreePhaseEventTriggerHandle": "native"}  # typing.NewType: the identity function
    inputs = dict(phase=OneOf("before", "during", "after", "later"), existing=OneOf(0, 1))

    def setup(self, i):
        old = self.opaque("old")
        lists = {p: ([(old, (), {})] if i.existing else []) for p in ("before", "during", "after")}
        evt = self.make(base._ThreePhaseEvent, state="BASE", **lists)
        f = self.opaque("f")
        return dict(self=evt, args=[i.phase, f, 1], kwargs=dict(k=2), objs=dict(e=evt), ghost=dict(f=f, old=old, n=i.existing))

    def bounded_inputs(self, tier):
        return iter(())

    raises = {KeyError: lambda S: S.i.phase == "later"}

    def _added(S):
        e, f, old, n = S.new.e, S.ghost["f"], S.ghost["old"], S.ghost["n"]
        before = [(old, (), {})] * n
        if S.exc is not None:
            return all(getattr(e, p) == before for p in ("before", "during", "after"))
        ok = S.result == (S.i.phase, f, (1,), {"k": 2})
        for p in ("before", "during", "after"):
            want = before + ([(f, (1,), {"k": 2})] if p == S.i.phase else [])
            ok = ok and getattr(e, p) == want
        return ok

    ensures = dict(one_registration_appended_to_the_named_phase=_added)
    canaries = [("getattr(self, phase).append((callable, args, kwargs))", "getattr(self, phase).insert(0, (callable, args, kwargs))",
                 "one_registration_appended_to_the_named_phase")]


class RemoveTriggerBase(Contract):
    prop = "C12"
    module = M
    function = "_ThreePhaseEvent.removeTrigger"
    also = ["_ThreePhaseEvent.removeTrigger_BASE"]
    differential = False
    inputs = dict(phase=OneOf("before", "during", "after"), which=OneOf(0, 1, 2), present=ForkBool())

    def setup(self, i):
        fs = [self.opaque("f0"), self.opaque("f1"), self.opaque("f2")]
        regs = [(f, (k,), {}) for k, f in enumerate(fs)]
        lists = {p: list(regs) for p in ("before", "during", "after")}
        if not i.present:
            del lists[i.phase][i.which]
        evt = self.make(base._ThreePhaseEvent, state="BASE", **lists)
        handle = (i.phase,) + regs[i.which]
        return dict(self=evt, args=[handle], objs=dict(e=evt), ghost=dict(regs=regs))

    def bounded_inputs(self, tier):
        return iter(())

    raises = {ValueError: lambda S: not S.i.present}

    def _removed(S):
        regs = S.ghost["regs"]
        for p in ("before", "during", "after"):
            want = list(regs)
            if p == S.i.phase:
                del want[S.i.which]
            if getattr(S.new.e, p) != want:
                return False
        return True

    ensures = dict(exactly_the_named_registration_is_removed=_removed)
    canaries = [("getattr(self, phase).remove((callable, args, kwargs))", "getattr(self, phase).pop()", "exactly_the_named_registration_is_removed",
                 "_ThreePhaseEvent.removeTrigger_BASE")]


def meddling_trigger(I, trig, *args, **kw):
    """a during-/after-trigger that, while the event fires, unregisters a trigger of the event (itself, one that has
    already run, one still to come) or registers another one -- as ReactorBase._stopThreadPool does with itself"""
    c = ctx()
    g = c.ghost
    name = trig._name
    c.emit("run", trig, args, kw)
    if name == g["who"] and not g["done"]:
        g["done"] = True
        evt = g["$objs"]["e"]
        what = g["what"]
        if what.startswith("remove:"):
            target = what.split(":")[1]
            phase = {"d": "during", "a": "after"}[target[0]]
            handle = (phase, g["trig"][target], (), {})
            try:
                I.call(I.getattr(evt, "removeTrigger"), [handle])
                g["removed"] = target
            except ValueError:
                g["refused"] = target
        elif what == "add:during":
            I.call(I.getattr(evt, "addTrigger"), ["during", g["trig"]["extra"]])
        elif what == "add:after":
            I.call(I.getattr(evt, "addTrigger"), ["after", g["trig"]["extra"]])
    return None


class ContinueFiringMeddling(Contract):
    """_continueFiring while triggers change the registrations: every trigger still registered when its turn comes runs
    exactly once, in phase and registration order; unregistering a trigger that has already run (or oneself) disturbs
    nobody (it is refused: the registration is gone); a trigger unregistered before its turn does not run; one registered
    for a phase that has not finished runs in that phase, after the others (seeded change C12-3)."""
    prop = "C12"
    module = M
    function = "_ThreePhaseEvent._continueFiring"
    also = ["_ThreePhaseEvent.removeTrigger", "_ThreePhaseEvent.removeTrigger_BASE", "_ThreePhaseEvent.addTrigger"]
    differential = False
    calls = {"d1.__call__": meddling_trigger, "d2.__call__": meddling_trigger, "d3.__call__": meddling_trigger,
             "a1.__call__": meddling_trigger, "a2.__call__": meddling_trigger, "extra.__call__": meddling_trigger,
             "_FastFailCtxMgr.__exit__": lambda I, *a: (ctx().emit("logged", None, ()), True)[1],
             "_ThreePhaseEventTriggerHandle": "native"}
    inputs = dict(who=OneOf("d1", "d2", "a1"),
                  what=OneOf("none", "remove:d1", "remove:d2", "remove:d3", "remove:a1", "remove:a2", "add:during", "add:after"))
    trusted = ["three during- and two after-triggers, one of which meddles once (stated bound)",
               "_systemEventHandler swallows and logs whatever a trigger raises"]

    def setup(self, i):
        names = ["d1", "d2", "d3", "a1", "a2"]
        trig = {n: self.opaque(n) for n in names + ["extra"]}
        evt = self.make(base._ThreePhaseEvent, state="BEFORE", finishedBefore=[], before=[],
                        during=[(trig[n], (), {}) for n in names if n[0] == "d"],
                        after=[(trig[n], (), {}) for n in names if n[0] == "a"])
        return dict(self=evt, args=[None], objs=dict(e=evt),
                    ghost=dict(who=i.who, what=i.what, trig=trig, done=False, removed=None, refused=None, names=names))

    def bounded_inputs(self, tier):
        return iter(())  # RemovalWhileFiring (bounded) does this on the real reactor event

    raises = ()

    def _remaining(S):
        names, who, what = list(S.ghost["names"]), S.i.who, S.i.what
        order = ["d1", "d2", "d3", "a1", "a2"]
        want = list(order)
        if what.startswith("remove:"):
            target = what.split(":")[1]
            if order.index(target) > order.index(who):
                want.remove(target)        # unregistered before its turn: must not run
                ok = S.ghost["removed"] == target
            else:
                ok = S.ghost["refused"] == target   # already run (or running): the registration is gone, ValueError
        elif what == "add:during":
            ok = True
            if who[0] == "d":
                want.insert(3, "extra")     # the during phase is still being served
            # registered for a phase that is over: stays registered for the next firing
        elif what == "add:after":
            ok = True
            want.append("extra")
        else:
            ok = True
        runs = [e.target._name for e in ev(S, "run")]
        left_during = [t[0]._name for t in S.new.e.during]
        left_after = [t[0]._name for t in S.new.e.after]
        want_left_during = ["extra"] if (what == "add:during" and who[0] == "a") else []
        return ok and runs == want and left_during == want_left_during and left_after == [] and S.new.e.state == "BASE"

    ensures = dict(every_remaining_trigger_once_in_order_whatever_the_triggers_do_to_the_registrations=_remaining)
    canaries = [("            while phase:\n                callable, args, kwargs = phase.pop(0)\n",
                 "            for callable, args, kwargs in phase:\n",
                 "every_remaining_trigger_once_in_order_whatever_the_triggers_do_to_the_registrations")]



CONTRACTS = [FireEvent, AddTrigger, RemoveTriggerBase, ContinueFiringMeddling]
BOUNDED = bounded("C12")
_SCOPE = ("histories of add / remove / fire / callback / errback played through the real _ThreePhaseEvent and through "
          "ReactorBase.addSystemEventTrigger / removeSystemEventTrigger / fireSystemEvent, compared (order and arguments of "
          "every trigger run) with a reference model written from the property statement: up to 5 registrations over the "
          "three phases with every removal schedule, raising triggers, before-triggers returning pending / fired / failed "
          "Deferreds fired in every order by callback or errback, removal at every point while firing, triggers removing "
          "each other, equal registrations removed by handle; thorough adds one registration and seeded random histories of "
          "6-20 triggers")
NOTES = dict(explanation="fireEvent / _continueFiring proved for up to 2+2+1 triggers of arbitrary behaviour and every firing order; add / remove "
                         "in the base state proved; longer histories and removal while firing bounded: " + _SCOPE,
             not_covered=["more triggers per phase (the loops are `while list: pop(0)`; not proved inductively), triggers that add or remove "
                          "triggers while the event fires, removeTrigger in the BEFORE state, ReactorBase's wrappers: bounded tier only"])
MANIFEST = dict(
    category="proof",
    text="The real _ThreePhaseEvent.fireEvent / _continueFiring are proved for up to two before-, two during- and one "
         "after-trigger of arbitrary behaviour (a before-trigger returns nothing, a pending, succeeded or failed Deferred, or "
         "raises; the others return or raise) with the pending Deferreds fired in either order by callback or errback: every "
         "trigger runs exactly once, before-triggers first in registration order, no later trigger runs while a "
         "before-trigger's Deferred is pending -- and they do run once all have fired, failed or not -- then during- and "
         "after-triggers in order; a raising trigger stops nothing; the lists end empty and the state BASE.  addTrigger "
         "appends exactly one registration to the named phase; removeTrigger in the base state removes exactly the named "
         "registration (ValueError if absent).  _continueFiring is also proved with three during- and two after-triggers "
         "one of which unregisters itself, an earlier or a later trigger, or registers a new one while the event fires: "
         "every trigger still registered when its turn comes runs exactly once, in order.  Longer histories and the reactor's wrappers are "
         "exercised in the bounded tier only: " + _SCOPE + ".",
    note="Trusted: pyvc, SMT solvers, the failure handler's __exit__, the bound on the number of triggers.  Everything else: bounded, never counted as proved.",
    technique="contract-based deductive verification (complete symbolic case analysis of trigger behaviours and firing orders on the real code, Deferred machinery executed from source) + bounded exhaustive histories",
)
