"""C12 -- System event triggers run once each, in phase and registration order: bounded stand-in (contracts/parts/C12_bounded.py)."""
from contracts._parts import bounded, EXPLORATION_NOTE

CONTRACTS = []
BOUNDED = bounded("C12")
_SCOPE = ("histories of add / remove / fire / callback / errback played through the real _ThreePhaseEvent and through "
          "ReactorBase.addSystemEventTrigger / removeSystemEventTrigger / fireSystemEvent, compared (order and arguments of "
          "every trigger run) with a reference model written from the property statement: up to 5 registrations over the "
          "three phases with every removal schedule, raising triggers, before-triggers returning pending / fired / failed "
          "Deferreds fired in every order by callback or errback, removal at every point while firing, triggers removing "
          "each other, equal registrations removed by handle; thorough adds one registration and seeded random histories of "
          "6-20 triggers")
NOTES = dict(explanation=_SCOPE, not_covered=["deductive contracts on _ThreePhaseEvent (DeferredList barrier and list "
                                              "mutation during iteration; not built)"])
MANIFEST = dict(
    category="exploration",
    text="Bounded stand-in only, on the real code: " + _SCOPE + ".",
    note=EXPLORATION_NOTE,
    technique="bounded exhaustive evaluation of an executable contract on the real code (stand-in; not proved)",
)
