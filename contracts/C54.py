"""C54 -- FTP server never touches paths outside its root: bounded stand-in (contracts/parts/C54_bounded.py)."""
from contracts._parts import bounded, EXPLORATION_NOTE

CONTRACTS = []
BOUNDED = bounded("C54")
_SCOPE = ('real FTPShell._path(toSegments(cwd, arg)) for every argument of up to 5 tokens (/ .. . a bob2 NUL backslash *) under 8 working-directory histories, and the real FTP protocol (FTPFactory / Portal / FTPRealm) driven with raw command bytes on a scratch tree with prefix-sharing siblings: 10 verbs x 134 arguments x prefix histories, RNFR x RNTO pairs, stateful prefixes, 1500 random sessions; oracles: an audit hook on every filesystem call, byte-identical outside tree, no outside content or names on the wire')
NOTES = dict(explanation=_SCOPE, not_covered=["deductive contracts on the anchored functions (not built)"])
MANIFEST = dict(
    category="exploration",
    text="Bounded stand-in only, on the real code: " + _SCOPE + ".",
    note=EXPLORATION_NOTE,
    technique="bounded exhaustive evaluation of an executable contract on the real code (stand-in; not proved)",
)
