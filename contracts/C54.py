"""C54 -- FTP server never touches paths outside its root.

Deductive: ftp.toSegments(cwd, path) for a path of up to three '/'-separated pieces of *arbitrary* content and a working
directory of up to two plain names: every segment of the result is a plain name -- not '', '.', '..', free of NUL and
'/' -- so the list it hands to FTPShell._path can only walk downwards; the result never has fewer segments than an
absolute path starts with (a '..' at the root raises InvalidPath instead of escaping), and an absolute path ignores
the working directory.  The number of pieces is bounded (stated), their bytes are not.
FTPAnonymousShell._path (inherited by FTPShell; the one place every shell operation turns segments into a path): the
result is what filesystemRoot.descendant returned for the very list it was given -- one call, no other construction.
FilePath.descendant, for a list of *any* length (inductive invariant) and arbitrary names: exactly one child() step
per segment, in order, child() used through its C26 contract (refuses, or returns a path that starts with its
parent's), so the result is under the receiver or InsecurePath propagates.  FTPShell.rename (the one operation with
two path arguments): os.rename is called at most once and only with the two paths _path returned, in order.
Bounded (contracts/parts/C54_bounded.py): the real shell and the real protocol on a scratch tree.
"""
from pyvc.api import *
from pyvc import core
from contracts._parts import bounded
from twisted.protocols import ftp


def plain(s):
    """a segment that can only name a direct child"""
    return band(bnot(veq(s, "")), bnot(veq(s, ".")), bnot(veq(s, "..")), bnot(core.seq_contains(s, "\0")),
                bnot(core.seq_contains(s, "/")))


def split_hook(I, recv, *args, **kw):
    g = ctx().ghost
    if len(args) == 1 and args[0] == "/" and not kw and recv is g["path"]:
        return list(g["pieces"])
    return NotImplemented


class ToSegments(Contract):
    prop = "C54"
    module = "twisted.protocols.ftp"
    function = "toSegments"
    differential = False
    calls = {"str.split": split_hook}
    inputs = dict(n=OneOf(1, 2, 3), m=OneOf(0, 1, 2), p1=Str(alphabet="a./\0", small_len=2), p2=Str(alphabet="a./\0", small_len=2),
                  p3=Str(alphabet="a./\0", small_len=2), c1=Str(alphabet="a", small_len=1), c2=Str(alphabet="a", small_len=1))
    @staticmethod
    def second_layer():
        # FTPShell._path hands the segments to FilePath.descendant, whose child() refuses by itself every segment that is
        # not a plain name ('..', anything with a separator) or resolves it harmlessly ('' and '.' are the directory
        # itself).  toSegments is the first of two independent guards: property C54 is broken only if both fail.
        from contracts import C26
        return C26.Child()

    trusted = ["str.split('/') is the inverse of '/'.join on pieces that contain no '/': the path is built from its pieces",
               "at most three pieces per argument and two segments of working directory (the loop over the pieces is unrolled; "
               "the content of every piece is arbitrary)"]

    def requires(self, i):
        pieces = [i.p1, i.p2, i.p3][:i.n]
        r = True
        for p in pieces:
            r = band(r, bnot(core.seq_contains(p, "/")))  # what split('/') returns contains no '/'
        for c in [i.c1, i.c2][:i.m]:
            r = band(r, plain(c))  # the working directory was itself produced by toSegments (invariant)
        return r

    def setup(self, i):
        pieces = [i.p1, i.p2, i.p3][:i.n]
        path = pieces[0]
        for p in pieces[1:]:
            path = path + "/" + p
        cwd = [i.c1, i.c2][:i.m]
        return dict(fn=ftp.toSegments, args=[cwd, path], ghost=dict(path=path, pieces=pieces, cwd=cwd))  # cwd: the very list that is passed

    def bounded_inputs(self, tier):
        return iter(())

    raises = (ftp.InvalidPath,)

    def _plain(S):
        if S.exc is not None:
            return None
        if not isinstance(S.result, list):
            return False
        ok = True
        for s in S.result:
            ok = band(ok, plain(s))
        return ok

    def _absolute(S):
        # an absolute argument (first piece empty) is resolved from the root: at most one segment per further piece
        if S.exc is not None:
            return None
        if len(S.ghost["pieces"]) < 2:
            return None  # a path without '/' is relative ('' is the working directory itself)
        absolute = veq(S.ghost["pieces"][0], "")
        return bor(bnot(absolute), len(S.result) <= len(S.ghost["pieces"]) - 1)

    def _cwd_untouched(S):
        return band(len(S.ghost["cwd"]) == S.i.m, *[c is o for c, o in zip(S.ghost["cwd"], [S.i.c1, S.i.c2][:S.i.m])])

    ensures = dict(every_segment_is_a_plain_name=_plain, absolute_path_ignores_the_working_directory=_absolute,
                   working_directory_list_not_modified=_cwd_untouched)
    canaries = [("elif \"\\0\" in s or \"/\" in s:", "elif \"/\" in s:", "every_segment_is_a_plain_name"),
                ("if s == \".\" or s == \"\":", "if s == \".\":", "every_segment_is_a_plain_name"),
                ("segs = cwd[:]", "segs = cwd", "working_directory_list_not_modified"),
                ("            if segs:\n                segs.pop()\n            else:\n                raise InvalidPath(cwd, path)",
                 "            if segs:\n                segs.pop()", None)]


# -- FilePath.descendant and FTPAnonymousShell._path: every segment goes through child() ---------------------------------


class GPath:
    """Model of a FilePath for the two contracts below.  `under`: its path starts with the root's path (what C26 proves
    of every path child() returns: it starts with the parent's path; 'starts with' is transitive).  child() is used
    through that contract: for any name whatsoever it either refuses (InsecurePath) or returns a path under its parent."""

    def __init__(self, under, via_child=0):
        self.under = under
        self.via_child = via_child  # how many child() steps produced this path from the root

    def child(self, name):
        from twisted.python import filepath
        c = ctx()
        c.ghost["children"] = c.ghost["children"] + 1
        c.ghost["names"].append(name)
        if c.decide(core.fresh_bool(c.fresh_name("c54_refused"))):
            raise filepath.InsecurePath("refused by child()")
        return GPath(self.under, self.via_child + 1)

    def descendant(self, segments):
        c = ctx()
        c.ghost["descendant_calls"].append(segments)
        if c.decide(core.fresh_bool(c.fresh_name("c54_refused"))):
            from twisted.python import filepath
            raise filepath.InsecurePath("refused by child()")
        tok = GPath(self.under, None)
        c.ghost["descendant_results"].append(tok)
        return tok

    # any other way of building a path from the root gives one about which nothing is known
    path = b"/ghost/root"

    def clonePath(self, path):
        return GPath(core.fresh_bool(ctx().fresh_name("c54_unknown_containment")), None)

    def preauthChild(self, path):
        return GPath(core.fresh_bool(ctx().fresh_name("c54_unknown_containment")), None)

    def _elsewhere(self, *a):
        p = GPath(core.fresh_bool(ctx().fresh_name("c54_unknown_containment")), None)
        p.path = ("derived-path", id(p))
        return p

    sibling = parent = _elsewhere


class Descendant(Contract):
    """FilePath.descendant(segments), for a list of *any* length (inductive invariant) and arbitrary names: the result
    was obtained from the receiver by exactly one child() step per segment, in order -- so it is under the receiver
    whenever child() keeps its own contract (C26) -- or the InsecurePath of the refusing child() propagates."""
    prop = "C54"
    module = "twisted.python.filepath"
    function = "AbstractFilePath.descendant"
    differential = False
    replay_decides = False  # child() is used through its contract (may refuse any name): a replay has no such input
    inputs = dict(segments=ValList())
    loops = {"AbstractFilePath.descendant#0": LoopSpec(
        inv=lambda v: band(v.path.under, v.children == v._i, v.path.via_child == v._i),
        types={"path": lambda nm: GPath(core.fresh_bool(nm + "!under"), core.fresh_int(nm + "!via", lo=0))},
        ghost=("children",))}
    trusted = ["FilePath.child used through its contract (C26.Child): refuses or returns a path that starts with its parent's"]

    def setup(self, i):
        from twisted.python import filepath
        return dict(fn=filepath.AbstractFilePath.descendant, args=[GPath(True, 0), i.segments],
                    ghost=dict(children=0, names=[], descendant_calls=[], descendant_results=[]))

    def bounded_inputs(self, tier):
        return iter(())  # the real FilePath.descendant is exercised by the bounded classes of C26 and C54

    @property
    def raises(self):
        from twisted.python import filepath
        return (filepath.InsecurePath,)

    ensures = dict(
        result_is_under_the_receiver=lambda S: None if S.exc else S.result.under,
        one_child_step_per_segment=lambda S: None if S.exc else band(S.ghost["children"] == L(S.i.segments),
                                                                     S.result.via_child == L(S.i.segments)))
    canaries = [("            path = path.child(name)", "            path = path.preauthChild(name)", "one_child_step_per_segment")]


class ShellPath(Contract):
    """FTPAnonymousShell._path(segments) (inherited by FTPShell): the path every operation of the shell works on is what
    filesystemRoot.descendant(segments) returned for the very list it was given -- one call, no other construction."""
    prop = "C54"
    module = "twisted.protocols.ftp"
    function = "FTPAnonymousShell._path"
    differential = False
    replay_decides = False
    inputs = dict(segments=ValList())
    trusted = ["FilePath.descendant used through its contract (Descendant above)"]

    def setup(self, i):
        shell = self.make(ftp.FTPAnonymousShell, filesystemRoot=GPath(True, 0))
        return dict(self=shell, args=[i.segments],
                    ghost=dict(children=0, names=[], descendant_calls=[], descendant_results=[], segs=i.segments))

    def bounded_inputs(self, tier):
        return iter(())

    @property
    def raises(self):
        from twisted.python import filepath
        return (filepath.InsecurePath,)

    def _through_descendant(S):
        calls = S.ghost["descendant_calls"]
        ok = band(len(calls) == 1, len(calls) == 1 and calls[0] is S.ghost["segs"])
        if S.exc is not None:
            return ok
        return band(ok, len(S.ghost["descendant_results"]) == 1 and S.result is S.ghost["descendant_results"][0])

    ensures = dict(path_obtained_from_descendant_of_the_root=_through_descendant,
                   result_is_under_the_root=lambda S: None if S.exc else S.result.under)
    canaries = [("        return self.filesystemRoot.descendant(path)",
                 "        return self.filesystemRoot.clonePath(path)", "path_obtained_from_descendant_of_the_root")]


def _path_summary(I, shell, segments):
    """FTPAnonymousShell._path as proved by ShellPath + Descendant: a path under the root for these segments, or InsecurePath"""
    from twisted.python import filepath
    c = ctx()
    if c.decide(core.fresh_bool(c.fresh_name("c54_refused"))):
        raise filepath.InsecurePath("refused by child()")
    tok = GPath(True, None)
    tok.path = ("path-of", len(c.ghost["resolved"]))
    c.ghost["resolved"].append((segments, tok))
    return tok


def _rename_model(I, src, dst):
    c = ctx()
    c.ghost["renames"].append((src, dst))
    if c.decide(core.fresh_bool(c.fresh_name("c54_oserror"))):
        raise OSError(2, "model")


def _opaque_result(kind):
    def f(I, *a, **kw):
        return (kind,)
    return f


class ShellRename(Contract):
    """FTPShell.rename(fromPath, toPath) -- the one shell operation with two path arguments: os.rename is called at most
    once and only with the paths that _path returned for fromPath and for toPath, in that order (no path derived from
    the other one, from a parent or from a raw name)."""
    prop = "C54"
    module = "twisted.protocols.ftp"
    function = "FTPShell.rename"
    differential = False
    replay_decides = False
    inputs = dict(a=ValList(), b=ValList())
    summaries = {"FTPAnonymousShell._path": _path_summary}
    calls = {"posix.rename": _rename_model, "succeed": _opaque_result("succeed"), "fail": _opaque_result("fail"),
             "errnoToFailure": _opaque_result("errno")}
    trusted = ["FTPAnonymousShell._path used through its contract (ShellPath / Descendant above)",
               "os.rename may raise OSError; defer.succeed / defer.fail / errnoToFailure only build the reply"]

    def setup(self, i):
        shell = self.make(ftp.FTPShell, filesystemRoot=GPath(True, 0))
        return dict(self=shell, args=[i.a, i.b], ghost=dict(resolved=[], renames=[], a=i.a, b=i.b, children=0, names=[],
                                                              descendant_calls=[], descendant_results=[]))

    def bounded_inputs(self, tier):
        return iter(())

    @property
    def raises(self):
        from twisted.python import filepath
        return (filepath.InsecurePath,)

    def _only_resolved_paths(S):
        res, ren = S.ghost["resolved"], S.ghost["renames"]
        if len(ren) > 1:
            return False
        if not ren:
            return True
        if len(res) != 2 or res[0][0] is not S.ghost["a"] or res[1][0] is not S.ghost["b"]:
            return False
        return ren[0][0] == res[0][1].path and ren[0][1] == res[1][1].path

    ensures = dict(renames_only_the_two_resolved_paths=_only_resolved_paths)
    canaries = [("        tp = self._path(toPath)\n        try:\n            os.rename(fp.path, tp.path)",
                 "        tp = self._path(toPath)\n        try:\n            os.rename(tp.path, fp.path)", "renames_only_the_two_resolved_paths"),
                ("        tp = self._path(toPath)\n        try:\n            os.rename(fp.path, tp.path)",
                 "        tp = self._path(fromPath[:-1] + toPath[-1:])\n        try:\n            os.rename(fp.path, tp.path)",
                 "renames_only_the_two_resolved_paths")]


def _touch(kind, result="bool"):
    def m(self, *a, **kw):
        c = ctx()
        c.ghost["touched"].append((kind, self))
        if result == "bool":
            # FilePath.isfile / isdir / exists answer either way and never raise (they catch OSError themselves)
            return bool(c.decide(core.fresh_bool(c.fresh_name("c54_answer"))))
        if c.decide(core.fresh_bool(c.fresh_name("c54_oserror"))):
            raise OSError(2, "model")
        return None
    return m


for _n, _r in (("makedirs", None), ("createDirectory", None), ("remove", None), ("isfile", "bool"), ("isdir", "bool"),
               ("exists", "bool")):
    setattr(GPath, _n, _touch(_n, _r))


def _raw_os(kind):
    def f(I, *a, **kw):
        c = ctx()
        c.ghost["raw"].append((kind, a))
        if c.decide(core.fresh_bool(c.fresh_name("c54_oserror"))):
            raise OSError(2, "model")
    return f


class _SinglePathOp(Contract):
    """FTPShell.makeDirectory / removeDirectory / removeFile: the path argument is resolved by exactly one _path call on
    the very list given, every FilePath operation is made on the object _path returned, and every raw os call gets that
    object's .path -- nothing else reaches the filesystem."""
    prop = "C54"
    module = "twisted.protocols.ftp"
    differential = False
    replay_decides = False
    inputs = dict(a=ValList())
    summaries = {"FTPAnonymousShell._path": _path_summary}
    calls = dict({"succeed": _opaque_result("succeed"), "fail": _opaque_result("fail"), "errnoToFailure": _opaque_result("errno")},
                 **{"posix." + k: _raw_os(k) for k in ("rmdir", "remove", "unlink", "mkdir", "rename", "open", "stat", "lstat")})
    trusted = ["FTPAnonymousShell._path used through its contract (ShellPath / Descendant above)",
               "FilePath.makedirs / remove / isfile / isdir act on the FilePath's own path (may raise OSError, answer either way)"]

    def setup(self, i):
        shell = self.make(ftp.FTPShell, filesystemRoot=GPath(True, 0))
        return dict(self=shell, args=[i.a], ghost=dict(resolved=[], touched=[], raw=[], a=i.a, children=0, names=[],
                                                        descendant_calls=[], descendant_results=[]))

    def bounded_inputs(self, tier):
        return iter(())

    @property
    def raises(self):
        from twisted.python import filepath
        return (filepath.InsecurePath,)

    def _only_the_resolved_path(S):
        res = S.ghost["resolved"]
        if len(res) > 1 or (res and res[0][0] is not S.ghost["a"]):
            return False
        if not res:
            return not S.ghost["touched"] and not S.ghost["raw"]
        tok = res[0][1]
        return (all(o is tok for _k, o in S.ghost["touched"])
                and all(len(a) == 1 and a[0] == tok.path for _k, a in S.ghost["raw"]))

    ensures = dict(only_the_resolved_path_is_touched=_only_the_resolved_path)


class ShellMakeDirectory(_SinglePathOp):
    function = "FTPShell.makeDirectory"
    canaries = [("            p.makedirs()", "            p.parent().makedirs()", "only_the_resolved_path_is_touched")]


class ShellRemoveDirectory(_SinglePathOp):
    function = "FTPShell.removeDirectory"
    canaries = [("            os.rmdir(p.path)", "            os.rmdir(self.filesystemRoot.path)", "only_the_resolved_path_is_touched")]


class ShellRemoveFile(_SinglePathOp):
    function = "FTPShell.removeFile"
    canaries = [("            p.remove()", "            p.sibling(path[-1]).remove()", "only_the_resolved_path_is_touched")]


CONTRACTS = [ToSegments, Descendant, ShellPath, ShellRename, ShellMakeDirectory, ShellRemoveDirectory, ShellRemoveFile]
BOUNDED = bounded("C54")
_SCOPE = ('real FTPShell._path(toSegments(cwd, arg)) for every argument of up to 5 tokens (/ .. . a bob2 NUL backslash *) under 8 working-directory histories, and the real FTP protocol (FTPFactory / Portal / FTPRealm) driven with raw command bytes on a scratch tree with prefix-sharing siblings: 10 verbs x 134 arguments x prefix histories, RNFR x RNTO pairs, stateful prefixes, 1500 random sessions; oracles: an audit hook on every filesystem call, byte-identical outside tree, no outside content or names on the wire')
NOTES = dict(explanation="toSegments proved to produce only plain names (pieces of arbitrary content, bounded count); the shell and the "
                         "protocol bounded: " + _SCOPE,
             not_covered=["more than three pieces per argument (the loop body is the same for every piece; not proved inductively)",
                          "FTPShell.list / stat / access / openForReading / openForWriting and the protocol's command handlers: bounded tier only",
                          "FilePath.child itself: C26 (used here through its contract)"])
MANIFEST = dict(
    category="proof",
    text="ftp.toSegments is proved, for arguments of up to three '/'-separated pieces of arbitrary content and a working "
         "directory of up to two plain names, to return only plain names (never '', '.', '..', nothing containing NUL or '/'), "
         "to raise InvalidPath rather than climb above the root, to resolve an absolute argument from the root, and to leave "
         "the working-directory list unmodified.  FTPAnonymousShell._path (inherited by FTPShell) is proved to return exactly "
         "what filesystemRoot.descendant returned for the list it was given, and FilePath.descendant is proved, for a list of "
         "any length (inductive invariant), to take exactly one child() step per segment with child() used through its C26 "
         "contract, so the path every shell operation works on is under the root or InsecurePath is raised.  FTPShell.rename is "
         "proved to call os.rename at most once and only with the two paths _path returned for its two arguments, and "
         "makeDirectory / removeDirectory / removeFile to touch only the one path _path returned for their argument.  The "
         "shell's operations, the protocol and longer arguments are exercised in the bounded tier only: " + _SCOPE + ".",
    note="Trusted: pyvc, SMT solvers, str.split as the inverse of join, the piece-count bound.  Everything else: bounded, never counted as proved.",
    technique="contract-based deductive verification (symbolic execution with the loop unrolled over a bounded number of arbitrary pieces, SMT strings) + bounded exhaustive sessions on a scratch tree",
)
