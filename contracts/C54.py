"""C54 -- FTP server never touches paths outside its root.

Deductive: ftp.toSegments(cwd, path) for a path of up to three '/'-separated pieces of *arbitrary* content and a working
directory of up to two plain names: every segment of the result is a plain name -- not '', '.', '..', free of NUL and
'/' -- so the list it hands to FTPShell._path can only walk downwards; the result never has fewer segments than an
absolute path starts with (a '..' at the root raises InvalidPath instead of escaping), and an absolute path ignores
the working directory.  The number of pieces is bounded (stated), their bytes are not.  What FilePath.descendant /
child then do with plain names is C26's contract.
Bounded (contracts/parts/C54_bounded.py): the real shell and the real protocol on a scratch tree.
"""
from pyvc.api import *
from pyvc import core
from contracts._parts import bounded
from twisted.protocols import ftp


def plain(s):
    """a segment that can only name a direct child"""
    return band(bnot(veq(s, "")), bnot(veq(s, ".")), bnot(veq(s, "..")), bnot(core.seq_contains(s, "\0")),
                bnot(core.seq_contains(s, "/")))


def split_hook(I, recv, *args, **kw):
    g = ctx().ghost
    if len(args) == 1 and args[0] == "/" and not kw and recv is g["path"]:
        return list(g["pieces"])
    return NotImplemented


class ToSegments(Contract):
    prop = "C54"
    module = "twisted.protocols.ftp"
    function = "toSegments"
    differential = False
    calls = {"str.split": split_hook}
    inputs = dict(n=OneOf(1, 2, 3), m=OneOf(0, 1, 2), p1=Str(alphabet="a./\0", small_len=2), p2=Str(alphabet="a./\0", small_len=2),
                  p3=Str(alphabet="a./\0", small_len=2), c1=Str(alphabet="a", small_len=1), c2=Str(alphabet="a", small_len=1))
    @staticmethod
    def second_layer():
        # FTPShell._path hands the segments to FilePath.descendant, whose child() refuses by itself every segment that is
        # not a plain name ('..', anything with a separator) or resolves it harmlessly ('' and '.' are the directory
        # itself).  toSegments is the first of two independent guards: property C54 is broken only if both fail.
        from contracts import C26
        return C26.Child()

    trusted = ["str.split('/') is the inverse of '/'.join on pieces that contain no '/': the path is built from its pieces",
               "at most three pieces per argument and two segments of working directory (the loop over the pieces is unrolled; "
               "the content of every piece is arbitrary)"]

    def requires(self, i):
        pieces = [i.p1, i.p2, i.p3][:i.n]
        r = True
        for p in pieces:
            r = band(r, bnot(core.seq_contains(p, "/")))  # what split('/') returns contains no '/'
        for c in [i.c1, i.c2][:i.m]:
            r = band(r, plain(c))  # the working directory was itself produced by toSegments (invariant)
        return r

    def setup(self, i):
        pieces = [i.p1, i.p2, i.p3][:i.n]
        path = pieces[0]
        for p in pieces[1:]:
            path = path + "/" + p
        cwd = [i.c1, i.c2][:i.m]
        return dict(fn=ftp.toSegments, args=[cwd, path], ghost=dict(path=path, pieces=pieces, cwd=cwd))  # cwd: the very list that is passed

    def bounded_inputs(self, tier):
        return iter(())

    raises = (ftp.InvalidPath,)

    def _plain(S):
        if S.exc is not None:
            return None
        if not isinstance(S.result, list):
            return False
        ok = True
        for s in S.result:
            ok = band(ok, plain(s))
        return ok

    def _absolute(S):
        # an absolute argument (first piece empty) is resolved from the root: at most one segment per further piece
        if S.exc is not None:
            return None
        if len(S.ghost["pieces"]) < 2:
            return None  # a path without '/' is relative ('' is the working directory itself)
        absolute = veq(S.ghost["pieces"][0], "")
        return bor(bnot(absolute), len(S.result) <= len(S.ghost["pieces"]) - 1)

    def _cwd_untouched(S):
        return band(len(S.ghost["cwd"]) == S.i.m, *[c is o for c, o in zip(S.ghost["cwd"], [S.i.c1, S.i.c2][:S.i.m])])

    ensures = dict(every_segment_is_a_plain_name=_plain, absolute_path_ignores_the_working_directory=_absolute,
                   working_directory_list_not_modified=_cwd_untouched)
    canaries = [("elif \"\\0\" in s or \"/\" in s:", "elif \"/\" in s:", "every_segment_is_a_plain_name"),
                ("if s == \".\" or s == \"\":", "if s == \".\":", "every_segment_is_a_plain_name"),
                ("segs = cwd[:]", "segs = cwd", "working_directory_list_not_modified"),
                ("            if segs:\n                segs.pop()\n            else:\n                raise InvalidPath(cwd, path)",
                 "            if segs:\n                segs.pop()", None)]


CONTRACTS = [ToSegments]
BOUNDED = bounded("C54")
_SCOPE = ('real FTPShell._path(toSegments(cwd, arg)) for every argument of up to 5 tokens (/ .. . a bob2 NUL backslash *) under 8 working-directory histories, and the real FTP protocol (FTPFactory / Portal / FTPRealm) driven with raw command bytes on a scratch tree with prefix-sharing siblings: 10 verbs x 134 arguments x prefix histories, RNFR x RNTO pairs, stateful prefixes, 1500 random sessions; oracles: an audit hook on every filesystem call, byte-identical outside tree, no outside content or names on the wire')
NOTES = dict(explanation="toSegments proved to produce only plain names (pieces of arbitrary content, bounded count); the shell and the "
                         "protocol bounded: " + _SCOPE,
             not_covered=["more than three pieces per argument (the loop body is the same for every piece; not proved inductively)",
                          "FTPShell's operations and the protocol's command handlers: bounded tier only",
                          "FilePath.descendant / child on plain names: C26"])
MANIFEST = dict(
    category="proof",
    text="ftp.toSegments is proved, for arguments of up to three '/'-separated pieces of arbitrary content and a working "
         "directory of up to two plain names, to return only plain names (never '', '.', '..', nothing containing NUL or '/'), "
         "to raise InvalidPath rather than climb above the root, to resolve an absolute argument from the root, and to leave "
         "the working-directory list unmodified.  With plain names FTPShell._path can only descend (FilePath.child: C26).  The "
         "shell's operations, the protocol and longer arguments are exercised in the bounded tier only: " + _SCOPE + ".",
    note="Trusted: pyvc, SMT solvers, str.split as the inverse of join, the piece-count bound.  Everything else: bounded, never counted as proved.",
    technique="contract-based deductive verification (symbolic execution with the loop unrolled over a bounded number of arbitrary pieces, SMT strings) + bounded exhaustive sessions on a scratch tree",
)
