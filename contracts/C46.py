"""C46 -- Quoted endpoint description arguments round-trip.

Deductive, character by character (every code point, symbolically): endpoints.quoteStringArgument puts a backslash in
front of each of the three characters the description tokenizer gives a meaning to (backslash, ':' and '=') and leaves
every other character alone; and endpoints._tokenize, run on the quoted form of any character behind four prefixes
(positional, keyword, after a value), reads it back as exactly that character with the prefix's tokens untouched.  The
parsers on top of the tokenizer and longer texts are exercised in the bounded tier.
Bounded (contracts/parts/C46_bounded.py): _parse, serverFromString / clientFromString with the quoted text in every slot.
"""
from pyvc.api import *
from pyvc import core
from contracts._parts import bounded
from twisted.internet import endpoints

SPECIAL = ("\\", ":", "=")


class QuoteChar(Contract):
    prop = "C46"
    module = "twisted.internet.endpoints"
    function = "quoteStringArgument"
    differential = False
    inputs = dict(ch=Str(maxlen=1, minlen=1, alphabet="a:=\\", small_len=1))
    trusted = ["str.replace with a one-character pattern acts on every character independently (the per-character table is the function)"]

    def setup(self, i):
        return dict(fn=endpoints.quoteStringArgument, args=[i.ch])

    def bounded_inputs(self, tier):
        return iter(())

    raises = ()

    def _table(S):
        truth = S.ghost["$interp"].truth
        for c in SPECIAL:
            if truth(veq(S.i.ch, c)):
                return veq(S.result, "\\" + c)
        return veq(S.result, S.i.ch)

    ensures = dict(the_three_operator_characters_are_escaped_nothing_else_changes=_table)
    canaries = [("    for c in backslash, colon, equals:", "    for c in backslash, colon:", "the_three_operator_characters_are_escaped_nothing_else_changes"),
                ("    for c in backslash, colon, equals:", "    for c in colon, equals, backslash:", "the_three_operator_characters_are_escaped_nothing_else_changes")]


def iterbytes_model(I, d):
    """iterbytes(x): the one-character slices of x in order; the length of the symbolic description is known to the contract"""
    if not is_sym(d):
        return [d[k:k + 1] for k in range(len(d))]
    n = ctx().ghost["n"]
    return [d[k:k + 1] for k in range(n)]


class TokenizeQuotedChar(Contract):
    """the tokenizer reads the quoted form of any character back as that character, in positional and in keyword position
    (seeded change C46-2 broke the keyword position)"""
    prop = "C46"
    module = "twisted.internet.endpoints"
    function = "_tokenize"
    also = ["quoteStringArgument"]
    differential = False
    # iter / next over the Python list of one-character slices run natively (the slices themselves are symbolic)
    calls = {"iterbytes": iterbytes_model, "iter": lambda I, x: iter(x), "next": lambda I, it, *d: next(it, *d)}
    inputs = dict(ch=Str(maxlen=1, minlen=1, alphabet="a:=\\", small_len=1), prefix=OneOf("", "a:", "a:k=", "a:k=v:"))
    trusted = QuoteChar.trusted + ["iterbytes(x) yields the one-character slices of x in order",
                                   "a generator is run to completion and its yields collected (the tokenizer has no side effects between yields)"]

    def setup(self, i):
        g = dict(n=0)

        def drive(call):
            q = call(endpoints.quoteStringArgument, None, i.ch)
            truth = ctx().ghost["$interp"].truth
            special = False
            for c in SPECIAL:
                if truth(veq(i.ch, c)):
                    special = True
            # (the length of the quoted form follows from the table proved by QuoteChar; an edit that changes it makes the
            # slices below disagree with the text and the clause fail)
            ctx().ghost["n"] = len(i.prefix) + (2 if special else 1)
            return call(endpoints._tokenize, None, i.prefix + q)
        return dict(drive=drive, ghost=g)

    def bounded_inputs(self, tier):
        return iter(())

    raises = ()

    def _tokens(S):
        S_, O_ = endpoints._STRING, endpoints._OP
        want = {"": [], "a:": [(S_, "a"), (O_, ":")], "a:k=": [(S_, "a"), (O_, ":"), (S_, "k"), (O_, "=")],
                "a:k=v:": [(S_, "a"), (O_, ":"), (S_, "k"), (O_, "="), (S_, "v"), (O_, ":")]}[S.i.prefix]
        got = list(S.result)
        if len(got) != len(want) + 1:
            return False
        ok = True
        for (k1, v1), (k2, v2) in zip(got[:-1], want):
            ok = band(ok, k1 is k2 or k1 == k2, veq(v1, v2))
        return band(ok, got[-1][0] == S_, veq(got[-1][1], S.i.ch))

    ensures = dict(quoted_character_read_back_as_itself=_tokens)
    canaries = [("            current += next(iterdesc)", "            current += n + next(iterdesc)", "quoted_character_read_back_as_itself")]


CONTRACTS = [QuoteChar, TokenizeQuotedChar]
BOUNDED = bounded("C46")
_SCOPE = ('endpoints._parse and serverFromString/clientFromString on a MemoryReactor with the quoted text in every positional / keyword slot: exhaustive texts up to 5 characters over {: = backslash a e-acute} plus seeded random longer texts')
NOTES = dict(explanation="quoteStringArgument and the tokenizer proved character by character; parsers and longer texts bounded: " + _SCOPE,
             not_covered=["_parse and the endpoint parsers on top of the tokenizer, descriptions with more than one quoted character, the composition over whole "
                          "strings: bounded tier only"])
MANIFEST = dict(
    category="proof",
    text="For every character, quoteStringArgument returns the character itself, or `backslash` + the character for the "
         "backslash, ':' and '=' -- the three characters the tokenizer interprets; str.replace with a one-character pattern is "
         "characterwise, and the backslash is handled first, so no escape is escaped again.  _tokenize, run on the quoted form "
         "of any character behind the prefixes '', 'a:', 'a:k=' and 'a:k=v:', yields the prefix's tokens followed by one string "
         "token that is exactly that character.  That _parse and the endpoint parsers read longer quoted texts back as the "
         "original argument in every positional and keyword slot is exercised in the bounded tier only: " + _SCOPE + ".",
    note="Trusted: pyvc, SMT solvers, characterwise replace.  Everything else: bounded, never counted as proved.",
    technique="contract-based deductive verification (complete symbolic case analysis per character, SMT sequences) + bounded exhaustive texts in every slot",
)
