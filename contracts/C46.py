"""C46 -- Quoted endpoint description arguments round-trip: bounded stand-in (contracts/parts/C46_bounded.py); deductive contracts may be added later."""
from contracts._parts import bounded, EXPLORATION_NOTE

CONTRACTS = []
BOUNDED = bounded("C46")
NOTES = dict(explanation='endpoints._parse and serverFromString/clientFromString on a MemoryReactor with the quoted text in every positional / keyword slot: exhaustive texts up to 5 characters over {: = backslash a e-acute} plus seeded random longer texts', not_covered=["deductive contracts on the anchored functions (not built)"])
MANIFEST = dict(
    category="exploration",
    text="Bounded stand-in only, on the real code: " + 'endpoints._parse and serverFromString/clientFromString on a MemoryReactor with the quoted text in every positional / keyword slot: exhaustive texts up to 5 characters over {: = backslash a e-acute} plus seeded random longer texts' + ".",
    note=EXPLORATION_NOTE,
    technique="bounded exhaustive evaluation of an executable contract on the real code (stand-in; not proved)",
)
