"""C35 -- SSH transport packet framing (twisted.conch.ssh.transport.SSHTransportBase.sendPacket / getPacket).

Framing proved under *assumed cipher contracts*: encrypt/decrypt are length preserving inverse functions
(modelled by the identity, which is one such pair: the framing code never looks at cipher text content), makeMAC is a
function of (sequence number, packet) and verify accepts exactly that MAC for that packet.  Proved: padding
arithmetic (4 <= padding <= blocksize + 3, total a multiple of the block size, length field = rest of the packet),
getPacket on the bytes sendPacket wrote returns exactly the payload and consumes exactly them, any proper prefix
asks for more data without losing state, and a wrong MAC disconnects without delivering the payload.
Bounded (contracts/parts/C35_bounded.py when present): real ciphers / MACs / compression matrix.
"""
import struct

from pyvc.api import *
from pyvc import core
from contracts._parts import bounded
from twisted.conch.ssh import transport

M = "twisted.conch.ssh.transport"


def enc_calls():
    def make_mac(I, enc, seq, packet):
        c = ctx()
        c.ghost["mac_for"] = (seq, packet)
        return c.ghost["mac"]

    def verify(I, enc, seq, packet, mac):
        c = ctx()
        want_seq, want_packet = c.ghost.get("mac_for", (None, None))
        return band(veq(mac, c.ghost["mac"]), veq(packet, want_packet) if want_packet is not None else False)

    def secure_random(I, *a, **kw):
        n = [x for x in a if isinstance(x, (int, core.SInt)) and not isinstance(x, bool)][-1]
        c = ctx()
        if c.concrete:
            return b"\x07" * n
        r = core.fresh_seq(c.fresh_name("padding"), "bytes")
        c.assume(core.as_bool_term(L(r) == n))
        return r

    return {"enc.encrypt": lambda I, e, x: x, "enc.decrypt": lambda I, e, x: x, "enc.makeMAC": make_mac,
            "enc.verify": verify, "RandomFactory.secureRandom": secure_random,
            "SSHTransportBase.sendDisconnect": lambda I, t, code, msg: ctx().emit("sendDisconnect", t, (code,))}


def mkt(c, bs, ms, **kw):
    enc = c.opaque("enc", encBlockSize=bs, decBlockSize=bs, verifyDigestSize=ms)
    f = dict(_keyExchangeState=transport.SSHTransportBase._KEY_EXCHANGE_NONE, outgoingCompression=None, incomingCompression=None,
             currentEncryptions=enc, transport=c.opaque("transport"), outgoingPacketSequence=3, incomingPacketSequence=3, buf=b"")
    f.update(kw)
    return c.make(transport.SSHTransportBase, **f)


class SendPacket(Contract):
    prop = "C35"
    module = M
    function = "SSHTransportBase.sendPacket"
    differential = False
    calls = enc_calls()
    inputs = dict(bs=OneOf(8, 16, 32), ms=OneOf(0, 20), mtype=Int(lo=0, hi=255, small=[1, 94]), payload=Bytes(alphabet=b"p\x00", small_len=3),
                  mac=Bytes(alphabet=b"m", small_len=0))
    trusted = ["cipher contract: encrypt/decrypt length-preserving inverses (identity stands in)",
               "MAC contract: makeMAC is a function of (sequence, packet); verify accepts exactly it"]

    def requires(self, i):
        return band(L(i.payload) < 2 ** 20, L(i.mac) == i.ms)

    def bounded_inputs(self, tier):
        for bs in (8, 16):
            for ms in (0, 20):
                for n in range(0, 20):
                    yield dict(bs=bs, ms=ms, mtype=94, payload=b"p" * n, mac=b"m" * ms)

    def setup(self, i):
        t = mkt(self, i.bs, i.ms)
        return dict(self=t, args=[i.mtype, i.payload], objs=dict(t=t), ghost=dict(mac=i.mac))

    raises = ()

    def _frame(S):
        w = [e for e in S.trace if e.name == "transport.write"]
        if len(w) != 1:
            return False
        return band(layout(w[0].args[0], S.i.bs, S.i.ms, S.i.mtype, S.i.payload, S.i.mac), S.new.t.outgoingPacketSequence == 4)

    ensures = dict(packet_layout_and_padding=_frame)
    canaries = [("if lenPad < 4:", "if lenPad < 3:", "packet_layout_and_padding"),
                ("totalSize + lenPad - 4", "totalSize + lenPad", "packet_layout_and_padding")]


def layout(out, bs, ms, mtype, payload, mac):
    """the packet format sendPacket is proved to produce (SendPacket.ensures); getPacket is verified against it"""
    body = L(payload) + 1
    n = L(out) - ms          # packet without MAC
    lenfield = ((core.at(out, 0) * 256 + core.at(out, 1)) * 256 + core.at(out, 2)) * 256 + core.at(out, 3)
    pad = core.at(out, 4)
    return band(n % bs == 0, lenfield == n - 4, pad >= 4, pad <= bs + 3, n == 5 + body + pad,
                core.at(out, 5) == mtype, veq(out[6: 6 + L(payload)], payload), core.pointwise_eq(out, payload, 6),
                veq(out[n:], mac))


def ref_frame(bs, ms, mtype, payload, mac):
    """reference framer for concrete runs (RFC 4253 section 6)"""
    pad = bs - ((5 + 1 + len(payload)) % bs)
    if pad < 4:
        pad += bs
    return struct.pack("!LB", 1 + 1 + len(payload) + pad, pad) + bytes([mtype]) + payload + b"\x07" * pad + mac


class RoundTrip(Contract):
    """getPacket on a packet of the proved sendPacket layout (followed by `rest`) returns the payload and keeps `rest`.
    Modular: the sender is represented by its contract (layout), not its body."""
    prop = "C35"
    module = M
    function = "SSHTransportBase.getPacket"
    differential = False
    calls = enc_calls()
    inputs = dict(bs=OneOf(8, 16), ms=OneOf(0, 20), payload=Bytes(alphabet=b"p\x00", small_len=3), rest=Bytes(alphabet=b"r", small_len=2),
                  mac=Bytes(alphabet=b"m", small_len=0), wire=Bytes(small_len=0), scenario=OneOf("whole", "prefix", "bad-mac"),
                  cut=Int(lo=0, small=[0, 3, 9]))
    timeout_quick = 40
    pc_slices = True  # slice bounds simplified under the path condition (buffer long enough on this path)

    def requires(self, i):
        return band(L(i.payload) < 2 ** 16, L(i.mac) == i.ms, layout(i.wire, i.bs, i.ms, 94, i.payload, i.mac),
                    True if i.scenario != "bad-mac" else bnot(veq(i.mac, b"X" * 20)))

    def bounded_inputs(self, tier):
        for bs in (8, 16):
            for ms in (0, 20):
                for n in (0, 1, 7, 11):
                    for sc in ("whole", "prefix", "bad-mac"):
                        for cut in (0, 3, 9, 17):
                            mac = b"m" * ms
                            yield dict(bs=bs, ms=ms, payload=b"p" * n, rest=b"rr", mac=mac, scenario=sc, cut=cut,
                                       wire=ref_frame(bs, ms, 94, b"p" * n, mac))

    def setup(self, i):
        rcv = mkt(self, i.bs, i.ms)
        wire = i.wire
        n = L(wire) - i.ms
        if i.scenario == "whole":
            buf = wire + i.rest
        elif i.scenario == "prefix":
            if not (i.cut < L(wire)):
                raise core.Infeasible()
            buf = wire[: i.cut]
        else:
            if i.ms == 0:
                raise core.Infeasible()
            buf = wire[:n] + b"X" * i.ms + i.rest
        rcv.buf = buf if is_sym(buf) else bytes(buf)
        # the MAC the sender computed for this packet (enc.makeMAC contract): verify accepts exactly it
        return dict(self=rcv, args=[], objs=dict(rcv=rcv), ghost=dict(mac=i.mac, mac_for=(3, wire[:n]), wire=wire))

    raises = ()

    def _rt(S):
        rcv, wire = S.new.rcv, S.ghost["wire"]
        disc = [e for e in S.trace if e.name == "sendDisconnect"]
        if S.i.scenario == "whole":
            return band(veq(S.result, b"\x5e" + S.i.payload), veq(rcv.buf, S.i.rest), len(disc) == 0,
                        rcv.incomingPacketSequence == 4)
        if S.i.scenario == "prefix":
            # more data needed: nothing returned, nothing consumed, no disconnect
            return band(S.result is None, veq(rcv.buf, wire[: S.i.cut]), len(disc) == 0, rcv.incomingPacketSequence == 3)
        return band(S.result is None, len(disc) == 1, disc[0].args[0] == transport.DISCONNECT_MAC_ERROR,
                    rcv.incomingPacketSequence == 3)

    ensures = dict(decodes_what_was_sent=_rt)
    canaries = [("payload = packet[5:-paddingLen]", "payload = packet[5:]", "decodes_what_was_sent"),
                ("if not self.currentEncryptions.verify(", "if False and not self.currentEncryptions.verify(", "decodes_what_was_sent")]


def _whole(pick):
    def clause(S):
        rcv = S.new.rcv
        disc = [e for e in S.trace if e.name == "sendDisconnect"]
        if S.exc is not None or S.result is None:
            return False
        return pick(S, rcv, disc)
    return clause


class RoundTripWhole(RoundTrip):
    inputs = dict(RoundTrip.inputs, scenario=Const("whole"), cut=Const(0))
    # the round-trip clause, one obligation per conjunct
    ensures = dict(
        decodes_what_was_sent_length=_whole(lambda S, rcv, disc: L(S.result) == 1 + L(S.i.payload)),
        decodes_what_was_sent_type=_whole(lambda S, rcv, disc: core.at(S.result, 0) == 94),
        decodes_what_was_sent_payload=_whole(lambda S, rcv, disc: core.pointwise_eq(S.result, S.i.payload, 1)),
        decodes_what_was_sent_consumed=_whole(lambda S, rcv, disc: veq(rcv.buf, S.i.rest)),
        decodes_what_was_sent_state=_whole(lambda S, rcv, disc: band(len(disc) == 0, rcv.incomingPacketSequence == 4)),
    )
    canaries = RoundTrip.canaries[:1]
    budget_quick = 400
    timeout_quick = 60

    def bounded_inputs(self, tier):
        return (x for x in RoundTrip.bounded_inputs(self, tier) if x["scenario"] == "whole" and x["cut"] == 0)


class RoundTripPrefix(RoundTrip):
    inputs = dict(RoundTrip.inputs, scenario=Const("prefix"), rest=Const(b""))
    canaries = []
    budget_quick = 400
    timeout_quick = 60

    def bounded_inputs(self, tier):
        return (dict(x, rest=b"") for x in RoundTrip.bounded_inputs(self, tier)
                if x["scenario"] == "prefix" and x["cut"] < len(x["wire"]))


class RoundTripBadMac(RoundTrip):
    inputs = dict(RoundTrip.inputs, scenario=Const("bad-mac"), cut=Const(0), ms=Const(20))
    canaries = RoundTrip.canaries[1:]
    budget_quick = 400
    timeout_quick = 60

    def bounded_inputs(self, tier):
        return (x for x in RoundTrip.bounded_inputs(self, tier) if x["scenario"] == "bad-mac" and x["ms"] == 20 and x["cut"] == 0)



# -- key re-exchange: what may go out while new keys are being negotiated (seeded change C35-3) ----------------------


def allowed_during_kex(m):
    """RFC 4253 section 7.1 (and RFC 8308 for EXT_INFO): between KEXINIT and NEWKEYS only transport generic messages
    1..19 except SERVICE_REQUEST (5), SERVICE_ACCEPT (6), EXT_INFO (7); negotiation messages 20..29 except KEXINIT
    (20); and key exchange method messages 30..49 may be sent."""
    return bor(band(m >= 1, m <= 19, m != 5, m != 6, m != 7), band(m >= 21, m <= 29), band(m >= 30, m <= 49))


class AllowedDuringKex(Contract):
    prop = "C35"
    module = M
    function = "SSHTransportBase._allowedKeyExchangeMessageType"
    differential = False
    inputs = dict(mtype=Int(lo=0, hi=255, small=[0, 1, 5, 7, 19, 20, 21, 29, 30, 49, 50, 94, 255]))

    def setup(self, i):
        t = mkt(self, 8, 0)
        return dict(self=t, args=[i.mtype], objs=dict(t=t))

    def bounded_inputs(self, tier):
        for m in range(0, 256):
            yield dict(mtype=m)

    raises = ()
    ensures = dict(exactly_the_rfc4253_7_1_messages=lambda S: veq(S.result, allowed_during_kex(S.i.mtype)))
    canaries = [("return 30 <= messageType <= 49", "return messageType >= 30", "exactly_the_rfc4253_7_1_messages")]


class SendPacketDuringKex(Contract):
    """while a key exchange is in progress a message that is not part of it is queued, in order, and nothing is written
    (it would be protected with the old keys after the peer has switched, or overtake NEWKEYS)"""
    prop = "C35"
    module = M
    function = "SSHTransportBase.sendPacket"
    differential = False
    calls = enc_calls()
    inputs = dict(state=OneOf("requested", "progressing"), queued=OneOf(0, 1),
                  mtype=Int(lo=0, hi=255, small=[1, 20, 21, 50, 94]), payload=Bytes(alphabet=b"p\x00", small_len=2),
                  mac=Bytes(alphabet=b"m", small_len=0))
    trusted = SendPacket.trusted

    def requires(self, i):
        return band(L(i.payload) < 2 ** 20, L(i.mac) == 0)

    def setup(self, i):
        T = transport.SSHTransportBase
        st = T._KEY_EXCHANGE_REQUESTED if i.state == "requested" else T._KEY_EXCHANGE_PROGRESSING
        t = mkt(self, 8, 0, _keyExchangeState=st, _blockedByKeyExchange=[(94, b"earlier")][: i.queued])
        return dict(self=t, args=[i.mtype, i.payload], objs=dict(t=t), ghost=dict(mac=i.mac))

    raises = ()

    def _queued(S):
        w = [e for e in S.trace if e.name == "transport.write"]
        q_old, q_new = list(S.old.t._blockedByKeyExchange), list(S.new.t._blockedByKeyExchange)
        ok = allowed_during_kex(S.i.mtype)
        if w:
            return band(ok, len(w) == 1, layout(w[0].args[0], 8, 0, S.i.mtype, S.i.payload, S.i.mac),
                        len(q_new) == len(q_old), S.new.t.outgoingPacketSequence == 4)
        if len(q_new) != len(q_old) + 1:
            return False
        return band(bnot(ok), q_new[:-1] == q_old, q_new[-1][0] == S.i.mtype, veq(q_new[-1][1], S.i.payload),
                    S.new.t.outgoingPacketSequence == 3)

    ensures = dict(not_part_of_the_exchange_is_queued_in_order_and_not_written=_queued)
    canaries = [("if not self._allowedKeyExchangeMessageType(messageType):", "if False:",
                 "not_part_of_the_exchange_is_queued_in_order_and_not_written")]


class NewKeysFlush(Contract):
    """NEWKEYS received: the new keys are in use and the exchange is over *before* the queued messages go out, each
    exactly once, in the order they were queued"""
    prop = "C35"
    module = M
    function = "SSHTransportBase._newKeys"
    differential = False
    calls = dict(enc_calls(), **{"SSHTransportBase.sendPacket": callout("sendPacket")})
    inputs = dict(n=OneOf(0, 1, 2, 3), m1=Int(lo=50, hi=255, small=[94]), m2=Int(lo=50, hi=255, small=[95]),
                  p1=Bytes(alphabet=b"p", small_len=1), p2=Bytes(alphabet=b"q", small_len=1))

    def setup(self, i):
        T = transport.SSHTransportBase
        nxt = self.opaque("nextenc", encBlockSize=8, decBlockSize=8, verifyDigestSize=0)
        msgs = [(i.m1, i.p1), (i.m2, i.p2), (i.m1, i.p2)][: i.n]
        t = mkt(self, 8, 0, _keyExchangeState=T._KEY_EXCHANGE_PROGRESSING, _blockedByKeyExchange=list(msgs), nextEncryptions=nxt,
                outgoingCompressionType=b"none", incomingCompressionType=b"none", _log=self.opaque("log"))
        return dict(self=t, args=[], objs=dict(t=t), ghost=dict(msgs=msgs, nxt=nxt))

    def bounded_inputs(self, tier):
        return iter(())  # sendPacket is a call-out here; the real flush is exercised by the bounded rekey histories

    raises = ()

    def _flush(S):
        sent = [e for e in S.trace if e.name == "sendPacket"]
        msgs = S.ghost["msgs"]
        T = transport.SSHTransportBase
        if len(sent) != len(msgs):
            return False
        return band(S.new.t._keyExchangeState == T._KEY_EXCHANGE_NONE, S.new.t._blockedByKeyExchange is None,
                    S.new.t.currentEncryptions is S.ghost["nxt"],
                    *[band(e.args[0] == m, veq(e.args[1], p), e.snap.t.currentEncryptions is S.ghost["nxt"],
                           e.snap.t._keyExchangeState == T._KEY_EXCHANGE_NONE) for e, (m, p) in zip(sent, msgs)])

    ensures = dict(queued_messages_flushed_in_order_under_the_new_keys=_flush)
    canaries = [("        for messageType, payload in messages:\n            self.sendPacket(messageType, payload)",
                 "        for messageType, payload in messages[::-1]:\n            self.sendPacket(messageType, payload)",
                 "queued_messages_flushed_in_order_under_the_new_keys"),
                ("        self._keyExchangeState = self._KEY_EXCHANGE_NONE\n        messages = self._blockedByKeyExchange\n        self._blockedByKeyExchange = None\n",
                 "        messages = self._blockedByKeyExchange\n        self._blockedByKeyExchange = None\n",
                 "queued_messages_flushed_in_order_under_the_new_keys")]


CONTRACTS = [SendPacket, RoundTripWhole, RoundTripPrefix, RoundTripBadMac, AllowedDuringKex, SendPacketDuringKex, NewKeysFlush]
BOUNDED = bounded("C35")
NOTES = dict(
    explanation="Packet layout, padding arithmetic and the send/receive round trip proved under assumed cipher and MAC "
                "contracts for block sizes 8/16/32.",
    not_covered=["the cipher x MAC x compression configuration matrix with the real primitives (cryptography library)",
                 "version-line handling, key exchange blocking queue", "block sizes other than 8, 16, 32"],
)
MANIFEST = dict(
    category="proof",
    text="SSHTransportBase.sendPacket is proved (symbolic payload and message type, block sizes 8/16/32, with/without "
         "a MAC) to emit length(4) padlen(1) type payload padding [MAC] with 4 <= padding <= blocksize+3, the whole a "
         "multiple of the block size and the length field counting the rest of the packet; getPacket is proved to "
         "return exactly the sent payload and consume exactly the packet, to ask for more data on any proper prefix "
         "without consuming or disconnecting, and to disconnect with MAC_ERROR without delivering when the MAC differs. "
         "The ciphers and MACs themselves are assumed through contracts (inverse, length preserving; MAC a function of "
         "sequence number and packet). Key re-exchange: _allowedKeyExchangeMessageType is proved equal to RFC 4253 7.1 "
         "(+ RFC 8308) for every message type; sendPacket during an exchange queues every other message in order, writes "
         "nothing and leaves the sequence number alone; _newKeys switches to the new keys and to state NONE before it "
         "flushes the queue, each message once, in order.",
    note="Trusted: pyvc, SMT solvers, struct axiom, ASSUMED contracts of currentEncryptions (identity stands in for a "
         "length-preserving bijection; MAC modelled functionally), secureRandom returns n bytes. The real cipher / MAC / "
         "compression matrix is not covered.",
    technique="contract-based deductive verification under assumed dependency contracts (AST symbolic execution, SMT VCs)",
)
