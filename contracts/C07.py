"""C07 -- DeferredQueue (twisted.internet.defer).

Data structure against an abstract view: pending (FIFO of objects) and waiting
(FIFO of unfired Deferreds); invariant: never both non-empty.  put/get/_cancelGet
are proved to have the FIFO effect on the view and to raise QueueOverflow /
QueueUnderflow exactly at the configured limits.  The call-out d.callback(obj)
runs arbitrary user code: the invariant is proved to hold at that point and the
state is havocked afterwards (re-entrant put/get).
"""
import z3

from pyvc.api import *
from pyvc import core
from twisted.internet import defer
from twisted.internet.defer import Deferred, DeferredQueue, QueueOverflow, QueueUnderflow

M = "twisted.internet.defer"


class Fired:
    """model of succeed(v): an already fired Deferred"""

    def __init__(self, value):
        self.value = value


def fired_value(d):
    if isinstance(d, Fired):
        return d.value
    if isinstance(d, Deferred) and d.called:
        return d.result
    return None


def new_deferred(I, canceller=None):
    c = ctx()
    contract = c.ghost["$contract"]
    q = c.ghost["$objs"]["q"]
    d = contract.fresh_ref("Deferred", None, avoid=[q.waiting])
    c.emit("Deferred()", d, (), {"canceller": canceller})
    return d


CALLS = {
    "Deferred.callback": callout("callback", havoc=[("q", "waiting"), ("q", "pending")]),
    "succeed": lambda I, v: Fired(v),
    "Deferred": new_deferred,
}


def mkq(c, i):
    waiting = c.reflist(i.waiting, lambda k: c.make(Deferred, called=False, callbacks=[], paused=0, _canceller=None,
                                                     debug=False, _chainedTo=None, _ident=k))
    pending = i.pending if isinstance(i.pending, core.SList) else list(i.pending)
    return c.make(DeferredQueue, waiting=waiting, pending=pending, size=i.size, backlog=i.backlog)


class QBase(Contract):
    replay_decides = False  # the granted callback is a havoc'ing call-out (re-entrant application code): not an input
    prop = "C07"
    module = M
    differential = False
    patch_classes = (Deferred,)
    calls = CALLS

    def invariant(self, o):
        return bnot(band(L(o.q.waiting) > 0, L(o.q.pending) > 0))


def overflow(q):
    return band(L(q.waiting) == 0, q.size is not None, L(q.pending) >= (q.size if q.size is not None else 0))


def underflow(q):
    return band(L(q.pending) == 0, q.backlog is not None, L(q.waiting) >= (q.backlog if q.backlog is not None else 0))


class Put(QBase):
    function = "DeferredQueue.put"
    inputs = dict(waiting=RefList("Deferred"), pending=ValList(), size=Opt(Int(lo=0, small=[0, 1, 2])),
                  backlog=Opt(Int(lo=0, small=[0, 1])), obj=Val(small=("o",)))

    def setup(self, i):
        q = mkq(self, i)
        return dict(self=q, args=[i.obj], objs=dict(q=q))

    raises = {QueueOverflow: lambda S: overflow(S.old.q)}

    def _to_waiter(S):
        if L(S.old.q.waiting) > 0:
            if len(S.trace) != 1:
                return False
            ev = S.trace[0]
            return band(ev.name == "callback", veq(ev.target, S.old.q.waiting[0]), len(ev.args) == 1,
                        veq(ev.args[0], S.i.obj),
                        # the waiter was removed before user code runs; nothing was queued
                        veq(ev.snap.q.waiting, S.old.q.waiting[1:]), veq(ev.snap.q.pending, S.old.q.pending))
        return None

    def _queued(S):
        if L(S.old.q.waiting) > 0 or S.exc is not None:
            return None
        return band(len(S.trace) == 0, veq(S.new.q.pending, S.old.q.pending + [S.i.obj]),
                    veq(S.new.q.waiting, S.old.q.waiting))

    ensures = dict(
        delivered_to_oldest_waiter=_to_waiter,
        queued_at_tail=_queued,
        refused_changes_nothing=lambda S: None if S.exc is None else band(
            len(S.trace) == 0, veq(S.new.q.pending, S.old.q.pending), veq(S.new.q.waiting, S.old.q.waiting)),
        limits_unchanged=lambda S: band(veq(S.new.q.size, S.old.q.size), veq(S.new.q.backlog, S.old.q.backlog)),
        # the waiter's callback may put() / get() again: nothing of the queue is written after it returns
        nothing_written_after_the_delivery=lambda S: unchanged_since_last_callout(S, "q", ("waiting", "pending")),
    )
    canaries = [("len(self.pending) < self.size", "len(self.pending) <= self.size", "QueueOverflow-exactly-when"),
                ("self.waiting.pop(0).callback(obj)", "self.waiting.pop().callback(obj)", "delivered_to_oldest_waiter")]


class Get(QBase):
    function = "DeferredQueue.get"
    inputs = dict(waiting=RefList("Deferred"), pending=ValList(), size=Opt(Int(lo=0, small=[0, 1])),
                  backlog=Opt(Int(lo=0, small=[0, 1, 2])))

    def setup(self, i):
        q = mkq(self, i)
        return dict(self=q, args=[], objs=dict(q=q))

    raises = {QueueUnderflow: lambda S: underflow(S.old.q)}

    def _from_pending(S):
        if L(S.old.q.pending) > 0:
            return band(veq(fired_value(S.result), S.old.q.pending[0]), veq(S.new.q.pending, S.old.q.pending[1:]),
                        veq(S.new.q.waiting, S.old.q.waiting), isinstance(S.result, (Fired, Deferred)))
        return None

    def _waits(S):
        if L(S.old.q.pending) > 0 or S.exc is not None:
            return None
        d = S.result
        ok = band(veq(S.new.q.waiting, S.old.q.waiting + [d]), veq(S.new.q.pending, S.old.q.pending))
        if isinstance(d, core.SRef):
            ev = [e for e in S.trace if e.name == "Deferred()"]
            canc = ev[0].kwargs.get("canceller") if ev else None
            return band(ok, len(ev) == 1, getattr(canc, "name", None) == "_cancelGet",
                        getattr(canc, "recv", None) is S.new.q)
        return band(ok, isinstance(d, Deferred), not d.called,
                    getattr(d._canceller, "__func__", None) is DeferredQueue._cancelGet,
                    d not in S.old.q.waiting)

    ensures = dict(
        oldest_pending_object=_from_pending,
        new_waiter_at_tail=_waits,
        refused_changes_nothing=lambda S: None if S.exc is None else band(
            veq(S.new.q.pending, S.old.q.pending), veq(S.new.q.waiting, S.old.q.waiting)),
    )
    canaries = [("len(self.waiting) < self.backlog", "len(self.waiting) <= self.backlog", "QueueUnderflow-exactly-when"),
                ("succeed(self.pending.pop(0))", "succeed(self.pending.pop())", "oldest_pending_object")]


class CancelGet(QBase):
    function = "DeferredQueue._cancelGet"
    inputs = dict(waiting=RefList("Deferred", small=((1,), (1, 2), (1, 2, 3))), pending=ValList(small=((),)),
                  size=Opt(Int(lo=0, small=[1])), backlog=Opt(Int(lo=0, small=[1])), k=Int(lo=0, small=[0, 1, 2]))

    def requires(self, i):
        return i.k < L(i.waiting)

    def setup(self, i):
        q = mkq(self, i)
        d = q.waiting[i.k]
        return dict(self=q, args=[d], objs=dict(q=q), ghost=dict(d=d))

    raises = ()

    def _removed(S):
        k = S.i.k
        w0, w1 = S.old.q.waiting, S.new.q.waiting
        return band(veq(w1, w0[:k] + w0[k + 1:]), veq(S.new.q.pending, S.old.q.pending), len(S.trace) == 0)

    def _gone(S):
        d, w1 = S.ghost["d"], S.new.q.waiting
        if isinstance(w1, core.SList):
            # "d occurs nowhere in w0[:k] ++ w0[k+1:]" follows from cancelled_waiter_removed and the pairwise
            # distinctness of waiting by a list lemma that none of the three solvers discharges (quantifier over
            # sequence positions); it is evaluated on the real class in the bounded tier only.
            return None
        return all(x is not d for x in w1)

    ensures = dict(cancelled_waiter_removed=_removed, never_granted_later=_gone)
    canaries = [("self.waiting.remove(d)", "self.waiting.pop(0)", "cancelled_waiter_removed")]


CONTRACTS = [Put, Get, CancelGet]
NOTES = dict(
    explanation="put/get/_cancelGet proved against the FIFO view with the invariant 'never pending and waiting at "
                "once' holding at the user call-out; exactly-when clauses for both limit exceptions.",
    not_covered=["the Deferred fired by put actually running its callbacks (C01/C03 contracts of Deferred.callback "
                 "are assumed: callback() fires exactly that Deferred)"],
    trusted=["Deferred.callback is a call-out to arbitrary re-entrant code; afterwards waiting/pending are havocked "
             "subject to the invariant", "succeed(v) returns a Deferred already fired with v",
             "a newly constructed Deferred is distinct from every existing one"],
)
MANIFEST = dict(
    category="proof",
    text="DeferredQueue.put, get and _cancelGet are symbolically executed from source over symbolic-length waiting / "
         "pending lists and proved to implement the FIFO abstract view: put hands the object to the oldest waiter "
         "(removed before the user call-out, invariant proved at the call-out) or appends it, get returns the oldest "
         "object or appends a new waiter whose canceller is _cancelGet, both raise QueueOverflow / QueueUnderflow "
         "exactly at the limits and then change nothing, a cancelled waiter is removed. History claims follow by "
         "induction over operations (object invariant + per-operation effect).",
    note="Trusted: pyvc, SMT solvers, the rely on Deferred.callback (fires that Deferred; may re-enter the queue), "
         "succeed() model, freshness of new objects. The same contracts run on the real class for small queues.",
    technique="contract-based deductive verification: object invariant + per-method contracts over an abstract view, SMT VCs from AST symbolic execution",
)
