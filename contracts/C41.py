"""C41 -- mail text codecs.

Deductive: smtp.xtext_encode / xtext_decode against the RFC 3461 xtext spec
functions (loop invariants on the real loops, inductive lemmas for the
round trip).  Bounded: the same round trip on the real functions for every
byte and boundary strings; imap4 modified UTF-7 encoder/decoder (they sit on
CPython's utf-7 codec, which has no contract within reach).
"""
import itertools

import z3

from pyvc.api import *
from pyvc import core, interp as interp_mod
from pyvc.core import joined
from pyvc.spec import SpecFn, Lemma
from twisted.mail import smtp, imap4

M = "twisted.mail.smtp"


def _hexdig(d):
    return z3.If(d < 10, 48 + d, 55 + d)


def _needs_escape(o):
    return z3.Or(o == 43, o == 61, o < 33, o > 126)


def _enc1_term(o):
    return z3.If(_needs_escape(o), z3.Concat(z3.Unit(z3.IntVal(43)), z3.Unit(_hexdig(o / 16)), z3.Unit(_hexdig(o % 16))),
                 z3.Unit(o))


def _enc1_py(o):
    return b"+%02X" % o if (o in (43, 61) or o < 33 or o > 126) else bytes([o])


# xenc(s): RFC 3461 xtext of s, defined from the left
xenc = SpecFn("xenc", ["bytes"], "bytes",
              lambda f, s: z3.If(z3.Length(s) <= 0, z3.Empty(core.IntSeq),
                                 z3.Concat(_enc1_term(s[0]), f(z3.SubSeq(s, 1, z3.Length(s) - 1)))),
              lambda s: b"".join(_enc1_py(o) for o in s),
              tests=[(b"",), (b"a",), (b"+",), (b"a=b ",), (b"\x00\xff~",)], bases=[(b"",)], ascii=True, depth=2)


def _hv(c):
    return z3.If(c <= 57, c - 48, z3.If(c <= 70, c - 55, c - 87))


def _ishex(c):
    return z3.Or(z3.And(c >= 48, c <= 57), z3.And(c >= 65, c <= 70), z3.And(c >= 97, c <= 102))


# xdec(s): decoding of well-formed xtext, defined from the left (result as code points)
xdec = SpecFn("xdec", ["bytes"], "bytes",
              lambda f, s: z3.If(z3.Length(s) <= 0, z3.Empty(core.IntSeq),
                                 z3.If(s[0] == 43,
                                       z3.Concat(z3.Unit(_hv(s[1]) * 16 + _hv(s[2])), f(z3.SubSeq(s, 3, z3.Length(s) - 3))),
                                       z3.Concat(z3.Unit(s[0]), f(z3.SubSeq(s, 1, z3.Length(s) - 1))))),
              lambda s: _xdec_py(s), tests=[(b"",), (b"a",), (b"+2B",), (b"a+3Db",)], bases=[(b"",)])
# wf(s): every '+' is followed by two hex digits
wf = SpecFn("wf", ["bytes"], "bool",
            lambda f, s: z3.If(z3.Length(s) <= 0, True,
                               z3.If(s[0] == 43,
                                     z3.And(z3.Length(s) >= 3, _ishex(s[1]), _ishex(s[2]),
                                            f(z3.SubSeq(s, 3, z3.Length(s) - 3))),
                                     f(z3.SubSeq(s, 1, z3.Length(s) - 1)))),
            lambda s: _wf_py(s), tests=[(b"",), (b"+2",), (b"+2B",), (b"a+ZZ",)], bases=[(b"",)])


def _xdec_py(s):
    out = bytearray()
    i = 0
    while i < len(s):
        if s[i] == 43:
            out.append(int(s[i + 1:i + 3], 16))
            i += 3
        else:
            out.append(s[i])
            i += 1
    return bytes(out)


def _wf_py(s):
    i = 0
    while i < len(s):
        if s[i] == 43:
            if len(s) - i < 3 or not all(chr(c) in "0123456789abcdefABCDEF" for c in s[i + 1:i + 3]):
                return False
            i += 3
        else:
            i += 1
    return True


def snoc(s, c):
    if is_sym(s) or is_sym(c):
        return core._seq_value(z3.Concat(core.seq_term(s), z3.Unit(core.num_term(c))), "bytes")
    return s + bytes([c])


def isbyte(c):
    return band(c >= 0, c <= 255)


class EncAppend(Lemma):
    """xenc(s ++ [c]) == xenc(s) ++ xenc([c])"""
    prop = "C41"
    params = dict(s=Bytes(), c=Int(lo=0, hi=255))

    def statement(self, s, c):
        one = snoc(b"", c)
        return xenc(snoc(s, c)) == xenc(s) + xenc(one)

    def measure(self, s, c):
        return L(s)

    def induction(self, s, c):
        return [(L(s) > 0, dict(s=s[1:], c=c))]

    def small_cases(self):
        return [dict(s=s, c=c) for s in (b"", b"a", b"+a") for c in (43, 65, 0)]


class RoundTrip(Lemma):
    """xdec(xenc(b)) == b and wf(xenc(b)) for byte strings b"""
    prop = "C41"
    params = dict(b=Bytes())

    def requires(self, b):
        return core.all_bytes(b, isbyte)

    def statement(self, b):
        return band(xdec(xenc(b)) == b, wf(xenc(b)))

    def measure(self, b):
        return L(b)

    def induction(self, b):
        return [(L(b) > 0, dict(b=b[1:]))]

    def small_cases(self):
        return [dict(b=x) for x in (b"", b"+", b"a=", b"\x00\xffz")]


class CharForm(Lemma):
    """every byte emitted for one input byte is printable ASCII other than '+'/'=' unless it starts an escape"""
    prop = "C41"
    params = dict(c=Int(lo=0, hi=255))

    def statement(self, c):
        e = xenc(snoc(b"", c))
        xchar = lambda x: band(x >= 33, x <= 126, x != 43, x != 61)
        hexu = lambda x: bor(band(x >= 48, x <= 57), band(x >= 65, x <= 70))
        return bor(band(L(e) == 1, xchar(core.at(e, 0)), core.at(e, 0) == c),
                   band(L(e) == 3, core.at(e, 0) == 43, hexu(core.at(e, 1)), hexu(core.at(e, 2))))

    def small_cases(self):
        return [dict(c=c) for c in (0, 32, 33, 43, 61, 126, 127, 255)]


LIBCALLS = {
    "iterbytes": lambda I, b: interp_mod.SeqChunks(b) if is_sym(b) else [b[k:k + 1] for k in range(len(b))],
}


class XtextEncode(Contract):
    prop = "C41"
    module = M
    function = "xtext_encode"
    inputs = dict(s=Bytes(alphabet=b"a+= \x7f\xff", small_len=3))
    calls = LIBCALLS
    loops = {"xtext_encode#0": LoopSpec(
        inv=lambda v: joined(v.r) == xenc(v.s[: v._i]),
        types={"r": lambda nm: core.SChunks(core.fresh_seq(nm, "bytes"))},
        hints=lambda v: [(EncAppend, dict(s=v.s[: v._i - 1], c=core.at(v.s, v._i - 1)))])}
    trusted = ["iterbytes(b) yields the one-byte slices of b in order",
               "networkString(text) == text.encode('ascii')"]

    def setup(self, i):
        return dict(fn=smtp.xtext_encode, args=[i.s])

    ensures = dict(
        is_xtext=lambda S: band(veq(S.result[0], xenc(S.i.s)), S.result[1] == L(S.i.s)),
    )
    canaries = [("o < 33 or o > 126", "o < 32 or o > 126", "preserved")]


class XtextDecode(Contract):
    prop = "C41"
    module = M
    function = "xtext_decode"
    inputs = dict(s=Bytes(alphabet=b"a+2B", small_len=4))
    loops = {"xtext_decode#0": LoopSpec(
        inv=lambda v: band(v.i >= 0, wf(v.s[v.i:]), veq(tobytes(joined(v.r, "str")) + xdec(v.s[v.i:]), xdec(v.s))),
        types={"r": lambda nm: core.SChunks(core.fresh_seq(nm, "str"), "str")},
        # slicing identities the solvers do not find inside the big VC; each is proved on its own first
        have=lambda v: [
            veq(v.s[v.i:][1:], v.s[v.i + 1:]),
            implies(v.i + 3 <= L(v.s), veq(v.s[v.i:][3:], v.s[v.i + 3:])),
            core.at(v.s[v.i:], 0) == core.at(v.s, v.i),
            implies(v.i + 3 <= L(v.s), band(core.at(v.s[v.i:], 1) == core.at(v.s, v.i + 1),
                                             core.at(v.s[v.i:], 2) == core.at(v.s, v.i + 2))),
            band(core.at(v.s, v.i) >= 0, core.at(v.s, v.i) < 128),
        ])}
    timeout_quick = 40

    def requires(self, i):
        # the inputs the property quantifies over: encoder output, i.e. well-formed ASCII xtext
        return band(wf(i.s), core.all_bytes(i.s, lambda c: band(c >= 0, c < 128)))

    def setup(self, i):
        return dict(fn=smtp.xtext_decode, args=[i.s])

    ensures = dict(
        decodes=lambda S: band(veq(tobytes(S.result[0]), xdec(S.i.s)), S.result[1] == L(S.i.s)),
    )
    canaries = [("i += 3", "i += 2", "preserved")]


def tobytes(text):
    """code points of a str as a byte-kind sequence (identity on ordinals)"""
    if isinstance(text, core.SSeq):
        return core.SSeq(text.term, "bytes")
    return text.encode("latin-1")


# -- bounded ------------------------------------------------------------------------


class XtextRoundTrip(Bounded):
    prop = "C41"
    title = "xtext_decode(xtext_encode(b)) == b, output is RFC 3461 xtext"
    scope = "every single byte; every pair and triple over {a + = space DEL 0x00 0xff 2 B}; exhaustive"
    functions = ["xtext_encode", "xtext_decode"]

    def cases(self, tier, rng):
        for o in range(256):
            yield bytes([o])
        alpha = b"a+= \x7f\x00\xff2B"
        for n in (2, 3) if tier == "quick" else (2, 3, 4):
            for t in itertools.product(alpha, repeat=n):
                yield bytes(t)
        yield b""

    def check(self, b):
        try:
            enc, n = smtp.xtext_encode(b)
        except Exception as e:
            return "encode raised %r" % (e,)
        if n != len(b):
            return "consumed %r" % n
        if not isinstance(enc, bytes):
            return "encoded value is %r" % type(enc)
        import re
        if not re.fullmatch(rb"(?:[!-*,-<>-~]|\+[0-9A-F]{2})*", enc):
            return "not xtext: %r" % enc
        try:
            dec, m = smtp.xtext_decode(enc)
        except Exception as e:
            return "decode of %r raised %r" % (enc, e)
        if [ord(ch) for ch in dec] != list(b):
            return "decoded %r from %r, expected the bytes %r" % (dec, enc, b)
        return None


class ImapUtf7(Bounded):
    prop = "C41"
    title = "imap4 modified UTF-7 round trip and RFC 3501 form"
    scope = ("strings up to 4 characters over {a & - + , / e-acute U+1F600 DEL NUL space ~ U+FFFF}; exhaustive; "
             "seeded random longer strings over all non-surrogate code points")
    functions = ["imap4.encoder", "imap4.decoder", "imap4.modified_base64", "imap4.modified_unbase64"]

    def cases(self, tier, rng):
        alpha = ["a", "&", "-", "+", ",", "/", "é", "\U0001F600", "\x7f", "\x00", " ", "~", "￿"]
        for n in range(0, 4 if tier == "quick" else 5):
            for t in itertools.product(alpha, repeat=n):
                yield "".join(t)
        # long shifted runs: base64 helpers that wrap lines do so after 57 input bytes (29 BMP / 15 astral characters);
        # every run length around the multiples of that boundary, alone and embedded (seeded change C41-2)
        for ch in ("é", "￿", "\U0001F600", "\x00"):
            for n in list(range(12, 34)) + [56, 57, 58, 59, 85, 86, 87, 114, 115, 116, 200]:
                yield ch * n
                yield "a" + ch * n + "&b"
        for _ in range(300 if tier == "quick" else 5000):
            n = rng.randrange(1, 12)
            out = []
            for _ in range(n):
                r = rng.random()
                if r < 0.3:
                    cp = rng.choice([0x26, 0x2B, 0x2D, 0x2C, 0x2F, 0x3D, 0x0A, 0x0D, 0x7F])
                elif r < 0.6:
                    cp = rng.randrange(0x20, 0x7F)
                elif r < 0.8:
                    cp = rng.randrange(0x80, 0xD800)
                else:
                    cp = rng.choice([rng.randrange(0xE000, 0x10000), rng.randrange(0x10000, 0x110000)])
                out.append(chr(cp))
            yield "".join(out)

    def check(self, s):
        import re
        try:
            enc, n = imap4.encoder(s)
        except Exception as e:
            return "encoder raised %r" % (e,)
        if not all(0x20 <= b <= 0x7E for b in enc):
            return "non printable-ASCII output %r" % (enc,)
        # RFC 3501 5.1.3: '&' only as "&-" or as the start of a base64 shift closed by '-'
        if not re.fullmatch(rb"(?:[\x20-\x25\x27-\x7e]|&-|&[A-Za-z0-9+,]+-)*", bytes(enc)):
            return "not modified UTF-7 form: %r" % (bytes(enc),)
        try:
            dec, m = imap4.decoder(bytes(enc))
        except Exception as e:
            return "decoder raised %r on %r" % (e, bytes(enc))
        if dec != s:
            return "decoded %r != %r (wire %r)" % (dec, s, bytes(enc))
        return None


CONTRACTS = [XtextEncode, XtextDecode]
LEMMAS = [EncAppend, RoundTrip, CharForm]
SPECFNS = [xenc, xdec, wf]
BOUNDED = [XtextRoundTrip, ImapUtf7]
NOTES = dict(
    explanation="xtext_encode/xtext_decode proved against recursive RFC 3461 spec functions (loop invariants), "
                "round trip by induction; IMAP modified UTF-7 is bounded only.",
    not_covered=["imap4 encoder/decoder deductively (CPython utf-7 codec has no contract)",
                 "xtext_decode on malformed input (outside the property: only encoder output must decode)"],
)
MANIFEST = dict(
    category="proof",
    text="smtp.xtext_encode is proved (inductive invariant over its real loop) to emit exactly the RFC 3461 xtext of "
         "its input; xtext_decode is proved to compute the spec decoding of any well-formed xtext; the lemmas "
         "xdec(xenc(b)) == b, well-formedness of xenc(b) and the per-byte form (printable ASCII, '+'/'=' only via +HH) "
         "are proved by induction, so decode(encode(b)) == b for every byte string. The IMAP4 modified UTF-7 codec "
         "rests on CPython's utf-7 codec and is checked by the bounded tier only (exhaustive short strings over a "
         "boundary alphabet plus seeded random strings).",
    note="Trusted: pyvc, SMT solvers, iterbytes/networkString/chr/ord/int(,16)/format(,'02X') models, induction "
         "principle. utf-7 part: bounded exploration only.",
    technique="contract-based deductive verification (loop invariants + inductive lemmas as SMT VCs) + bounded exhaustive round trip for the utf-7 codec",
)
