"""C27 -- Redirect following resolves targets correctly and confines credentials.

Deductive: RedirectAgent._handleRedirect and _handleResponse (both agents) are loop free.  With URI resolution and URI
parsing as uninterpreted functions (so for *every* Location value and every URI) _handleRedirect is proved to: refuse once
the redirect count has reached the limit and when there is no Location (ResponseFailed, nothing requested); otherwise
issue exactly one request, to resolve(URI of the request that received the redirect, Location) -- the original URI only
for the first hop --, with the caller's headers untouched when scheme, host and port of the target equal those of the
original URI and otherwise with every sensitive header removed and every other header kept; and to continue the chain
with the count increased by one and the new request URI.  _handleResponse is checked exhaustively over status codes and
methods for both agents: 307/308 (and 301/302 for the strict agent) keep the method and are followed only for GET / HEAD,
303 (and 301/302 for the browser-like agent) switch to GET, everything else is returned.
Bounded (contracts/parts/C27_bounded.py): the real urljoin / URI parser over grammars of Locations and chains.
"""
import z3

from pyvc.api import *
from pyvc import core
from contracts._parts import bounded
from twisted.web import client, error
from twisted.web.client import ResponseFailed
from twisted.web.http_headers import Headers

SEQ = core.IntSeq
RESOLVE = z3.Function("c27_resolve", SEQ, SEQ, SEQ)
SCHEME = z3.Function("c27_scheme", SEQ, SEQ)
HOST = z3.Function("c27_host", SEQ, SEQ)
PORT = z3.Function("c27_port", SEQ, z3.IntSort())
SENSITIVE = (b"Authorization", b"Cookie", b"Proxy-Authorization")


def t(x):
    return core.seq_term(x, "bytes")


def urljoin_model(I, base, loc):
    return core.SSeq(RESOLVE(t(base), t(loc)), "bytes")


def uri_model(I, raw, *a, **kw):
    c = ctx()
    return c.ghost["$contract"].make(client.URI, scheme=core.SSeq(SCHEME(t(raw)), "bytes"), host=core.SSeq(HOST(t(raw)), "bytes"),
                                     port=core.mk_num(PORT(t(raw))))


def raw_headers(I, hdrs, name, default=None):
    g = ctx().ghost
    return [g["loc"]] if g["has_location"] else default


def agent_request(I, agent, *a, **kw):
    c = ctx()
    c.emit("agent.request", agent, a, kw)
    return c.ghost["deferred"]


def add_callback(I, d, *a, **kw):
    ctx().emit("deferred.addCallback", d, a, kw)
    return d


CALLS = {"agent.request": agent_request, "deferred.addCallback": add_callback, "_urljoin": urljoin_model, "URI.fromBytes": uri_model, "fromBytes": uri_model,
         "response_headers.getRawHeaders": raw_headers,
         "Failure": lambda I, *a, **kw: __import__("twisted.python.failure", fromlist=["Failure"]).Failure(a[0]) if a else None}


def same_origin(a, b):
    return band(veq(core.SSeq(SCHEME(t(a)), "bytes"), core.SSeq(SCHEME(t(b)), "bytes")),
                veq(core.SSeq(HOST(t(a)), "bytes"), core.SSeq(HOST(t(b)), "bytes")),
                core.mk_bool(PORT(t(a)) == PORT(t(b))))


class HandleRedirect(Contract):
    prop = "C27"
    module = "twisted.web.client"
    function = "RedirectAgent._handleRedirect"
    differential = False
    calls = CALLS
    inputs = dict(count=Int(lo=0, small=[0, 1, 2]), limit=Int(lo=0, small=[1, 2]), has_location=ForkBool(),
                  loc=Bytes(alphabet=b"/a", small_len=1), uri=Bytes(alphabet=b"u", small_len=1),
                  later_hop=ForkBool(), req_uri=Bytes(alphabet=b"r", small_len=1), with_headers=ForkBool())
    trusted = ["URI resolution (urljoin) and URI.fromBytes as uninterpreted functions of their arguments",
               "the inner agent, the response and the Deferred chain as call-outs"]

    def setup(self, i):
        agent = self.make(client.RedirectAgent, _agent=self.opaque("agent"), _redirectLimit=i.limit,
                          _sensitiveHeaderNames=set(SENSITIVE))
        response = self.opaque("response", code=302, headers=self.opaque("response_headers"))
        headers = Headers({b"Authorization": [b"secret"], b"Cookie": [b"c=1"], b"X-Keep": [b"v"]}) if i.with_headers else None
        args = [response, b"GET", i.uri, headers, i.count] + ([i.req_uri] if i.later_hop else [])
        return dict(self=agent, args=args, ghost=dict(loc=i.loc, has_location=i.has_location, headers=headers,
                                                       deferred=self.opaque("deferred")))

    def bounded_inputs(self, tier):
        return iter(())

    raises = {ResponseFailed: lambda S: bor(S.i.count >= S.i.limit, bnot(S.i.has_location))}

    def _parts(S):
        reqs = [e for e in S.trace if e.name == "agent.request"]
        base = S.i.req_uri if S.i.later_hop else S.i.uri
        want = core.SSeq(RESOLVE(t(base), t(S.i.loc)), "bytes")
        return reqs, want

    def _target(S):
        reqs, want = HandleRedirect._parts(S)
        if S.exc is not None:
            return len(reqs) == 0
        return band(len(reqs) == 1, True if len(reqs) != 1 else band(reqs[0].args[0] == b"GET", veq(reqs[0].args[1], want)))

    def _credentials(S):
        reqs, want = HandleRedirect._parts(S)
        if S.exc is not None or len(reqs) != 1:
            return None
        sent, original = reqs[0].args[2], S.ghost["headers"]
        if original is None:
            return sent is None
        if same_origin(S.i.uri, want):
            return sent is original
        if sent is None:
            return False
        # the filtered copy is built inside the interpreter (an object record) or natively (a real Headers)
        raw = sent._fields["_rawHeaders"].keys() if isinstance(sent, core.SObj) else [k for k, _ in sent.getAllRawHeaders()]
        names = {k.lower() for k in raw}
        return not (names & {n.lower() for n in SENSITIVE}) and b"x-keep" in names

    def _continuation(S):
        reqs, want = HandleRedirect._parts(S)
        if S.exc is not None:
            return None
        # the chain continues with count + 1 and the URI just requested as the next base
        cont = [e for e in S.trace if e.name == "deferred.addCallback" and len(e.args) >= 6]
        if len(cont) != 1:
            return False
        a = cont[0].args
        return band(a[1] == b"GET", veq(a[2], S.i.uri), a[4] == S.i.count + 1, veq(a[5], want))

    ensures = dict(one_request_to_the_resolved_target=_target, credentials_confined_to_the_original_origin=_credentials,
                   chain_continues_from_the_new_request_uri=_continuation)
    canaries = [("location = self._resolveLocation(requestURI, locationHeaders[0])", "location = self._resolveLocation(uri, locationHeaders[0])",
                 "one_request_to_the_resolved_target"),
                ("if not sameOrigin:", "if False:", "credentials_confined_to_the_original_origin"),
                ("if redirectCount >= self._redirectLimit:", "if redirectCount > self._redirectLimit:", "ResponseFailed-exactly-when")]


def handle_redirect_summary(I, agent, response, method, uri, headers, count, request_uri=None):
    ctx().emit("handleRedirect", agent, (method, uri, headers, count, request_uri))
    return "followed"


class HandleResponse(Contract):
    """status code x method table of both agents (finite, complete)"""
    prop = "C27"
    module = "twisted.web.client"
    function = "RedirectAgent._handleResponse"
    differential = False
    summaries = {"RedirectAgent._handleRedirect": handle_redirect_summary}
    calls = {"Failure": CALLS["Failure"]}
    inputs = dict(browser=ForkBool(), code=OneOf(200, 301, 302, 303, 304, 307, 308, 404), method=OneOf(b"GET", b"HEAD", b"POST", b"PUT"))

    def setup(self, i):
        cls = client.BrowserLikeRedirectAgent if i.browser else client.RedirectAgent
        agent = self.make(cls, _agent=self.opaque("agent"), _redirectLimit=20, _sensitiveHeaderNames=set(SENSITIVE))
        response = self.opaque("response", code=i.code)
        return dict(self=agent, args=[response, i.method, b"http://a/", None, 0, b"http://a/x"], ghost=dict(response=response))

    def bounded_inputs(self, tier):
        return iter(())

    def _rule(i):
        """what the agents document: (action, method used)"""
        see_other = (303,) if not i.browser else (301, 302, 303)
        keep = (301, 302, 307, 308) if not i.browser else (307, 308)
        if i.code in see_other:
            return "follow", b"GET"
        if i.code in keep:
            return ("follow", i.method) if i.method in (b"GET", b"HEAD") else ("refuse", None)
        return "return", None

    raises = {ResponseFailed: lambda S: HandleResponse._rule(S.i)[0] == "refuse"}

    def _table(S):
        action, method = HandleResponse._rule(S.i)
        hr = [e for e in S.trace if e.name == "handleRedirect"]
        if action == "refuse":
            return len(hr) == 0
        if action == "return":
            return band(len(hr) == 0, S.result is S.ghost["response"])
        return band(len(hr) == 1, hr[0].args[0] == method, hr[0].args[4] == b"http://a/x", S.result == "followed")

    ensures = dict(method_rule_per_status_code=_table)
    canaries = [("return self._handleRedirect(\n                response, b\"GET\", uri, headers, redirectCount, requestURI\n            )",
                 "return self._handleRedirect(response, b\"GET\", uri, headers, redirectCount)", "method_rule_per_status_code")]


CONTRACTS = [HandleRedirect, HandleResponse]
for _k in CONTRACTS:
    _k.replay_decides = False  # URI resolution / parsing are uninterpreted functions: the solver's counterexample includes their interpretation
BOUNDED = bounded("C27")
_SCOPE = ("real RedirectAgent / BrowserLikeRedirectAgent over a fake inner agent: one-hop resolution over a grammar of Location values (RFC 3986 5.4 shapes x schemes x authorities x queries x fragments) on 8 base URIs, chains of length 0..3 (thorough 4) over 12 Locations plus random chains up to 8, every status sequence up to length 4 x 5 methods x 5 limits, credential headers (all spellings, configured names) over chains across 13 origins; oracle: an RFC 3986 5.2 resolver written from the RFC, RFC 6454 origins, the agents' documented method rules")
NOTES = dict(explanation="_handleRedirect / _handleResponse proved over uninterpreted URI resolution and parsing; real resolution and chains bounded: " + _SCOPE,
             not_covered=["urljoin / URI.fromBytes themselves (library; the known findings live there): bounded tier only",
                          "header-name spellings and configured sensitive names (concrete header set here; bounded tier covers spellings)"])
MANIFEST = dict(
    category="proof",
    text="RedirectAgent._handleRedirect is proved, for every Location, URI and redirect count (URI resolution and parsing "
         "uninterpreted), to raise ResponseFailed exactly when the count has reached the limit or no Location is given and to "
         "request nothing then; otherwise to issue exactly one request to resolve(URI of the request that received the "
         "redirect, Location), with the caller's headers untouched for a same-origin target and with Authorization / Cookie / "
         "Proxy-Authorization removed and other headers kept for any other origin, and to continue with count + 1 and the new "
         "request URI.  _handleResponse's status x method table is checked completely for both agents (307/308 keep the "
         "method and need GET / HEAD, 303 -- and 301/302 for the browser-like agent -- switch to GET, other codes are "
         "returned).  Real URI resolution, header spellings and whole chains are exercised in the bounded tier only: " + _SCOPE + ".",
    note="Trusted: pyvc, SMT solvers, urljoin and URI.fromBytes uninterpreted, inner agent / response / Deferred as call-outs. "
         "Everything else: bounded, never counted as proved.",
    technique="contract-based deductive verification (symbolic execution with uninterpreted URI functions and call-out traces) + bounded exhaustive chains",
)
