"""C27 -- Redirect following resolves targets correctly and confines credentials: bounded stand-in (contracts/parts/C27_bounded.py)."""
from contracts._parts import bounded, EXPLORATION_NOTE

CONTRACTS = []
BOUNDED = bounded("C27")
_SCOPE = ("real RedirectAgent / BrowserLikeRedirectAgent over a fake inner agent: one-hop resolution over a grammar of Location values (RFC 3986 5.4 shapes x schemes x authorities x queries x fragments) on 8 base URIs, chains of length 0..3 (thorough 4) over 12 Locations plus random chains up to 8, every status sequence up to length 4 x 5 methods x 5 limits, credential headers (all spellings, configured names) over chains across 13 origins; oracle: an RFC 3986 5.2 resolver written from the RFC, RFC 6454 origins, the agents' documented method rules")
NOTES = dict(explanation=_SCOPE, not_covered=["deductive contracts on the anchored functions (not built)"])
MANIFEST = dict(
    category="exploration",
    text="Bounded stand-in only, on the real code: " + _SCOPE + ".",
    note=EXPLORATION_NOTE,
    technique="bounded exhaustive evaluation of an executable contract on the real code (stand-in; not proved)",
)
