"""C39 -- Telnet option negotiation converges without loops: bounded stand-in (contracts/parts/C39_bounded.py); deductive contracts may be added later."""
from contracts._parts import bounded, EXPLORATION_NOTE

CONTRACTS = []
BOUNDED = bounded("C39")
NOTES = dict(explanation='two real Telnet endpoints joined by explorer-controlled FIFO pipes: breadth-first exploration of every interleaving of requests and deliveries (all policy pairs for 1-2 options, up to 4-6 requests) with replay on fresh endpoints; oracle: every Deferred fires exactly once, both sides agree at quiescence, no delivery-only cycle', not_covered=["deductive contracts on the anchored functions (not built)"])
MANIFEST = dict(
    category="exploration",
    text="Bounded stand-in only, on the real code: " + 'two real Telnet endpoints joined by explorer-controlled FIFO pipes: breadth-first exploration of every interleaving of requests and deliveries (all policy pairs for 1-2 options, up to 4-6 requests) with replay on fresh endpoints; oracle: every Deferred fires exactly once, both sides agree at quiescence, no delivery-only cycle' + ".",
    note=EXPLORATION_NOTE,
    technique="bounded exhaustive evaluation of an executable contract on the real code (stand-in; not proved)",
)
