"""C39 -- Telnet option negotiation converges without loops.

Deductive (complete case analysis of the real handlers, for an arbitrary option byte): telnet_WILL / telnet_WONT /
telnet_DO / telnet_DONT in each of the four states of the perspective they concern (enabled or not, negotiation in
progress or not), and the four requests will / wont / do / dont in each of the eight states they look at, against the
RFC 1143 rules the property rests on:

  * a received command that asks for what is already in force is not answered (so two endpoints cannot keep each other
    busy), any other is answered with at most one command;
  * a pending request's Deferred is fired exactly once, by exactly the answer to it, and the slot is cleared *before*
    it fires (a request made from the callback finds a consistent table); handlers outside a negotiation fire nothing;
  * a request is refused (AlreadyNegotiating / AlreadyEnabled / AlreadyDisabled, nothing sent, nothing changed) or
    sends exactly one command, marks the negotiation and returns a new unfired Deferred stored in the slot;
  * the state after each handler is the one both peers can agree on (WILL accepted -> enabled, WONT -> disabled, ...).
Bounded (contracts/parts/C39_bounded.py): two real endpoints, every interleaving, convergence and agreement.
"""
from pyvc.api import *
from pyvc import core
from pyvc.core import SRef
from contracts._parts import bounded
from twisted.conch import telnet
from twisted.internet import defer

M = "twisted.conch.telnet"
IAC, WILL, WONT, DO, DONT = telnet.IAC, telnet.WILL, telnet.WONT, telnet.DO, telnet.DONT
PENDING = 7  # reference number of the Deferred of the request in progress


def slot_snapshot():
    st = ctx().ghost["state"]
    return {"us": (st.us.state, st.us.negotiating, st.us.onResult), "him": (st.him.state, st.him.negotiating, st.him.onResult)}


def deferred_event(name):
    def handler(I, ref, *args, **kw):
        ctx().emit("Deferred." + name, ref, args, kw, slot_snapshot())
    return handler


def app_hook(name, answers):
    def handler(I, *args):
        c = ctx()
        c.emit(name, None, args[-1:], None, slot_snapshot())
        if answers:
            if c.ghost["own_request"]:
                return True  # the property's premise: a policy accepts the options it itself requested
            return c.decide(z3.Bool(c.fresh_name(name + "_accepts")))
        return None
    return handler


import z3  # noqa: E402

CALLS = {"Deferred.callback": deferred_event("callback"), "Deferred.errback": deferred_event("errback")}
SUMMARIES = {"Telnet.getOptionState": lambda I, *a: ctx().ghost["state"],
             "Telnet._write": lambda I, *a: ctx().emit("write", None, a[-1:]),
             "Telnet.enableRemote": app_hook("enableRemote", True), "Telnet.enableLocal": app_hook("enableLocal", True),
             "Telnet.disableRemote": app_hook("disableRemote", False), "Telnet.disableLocal": app_hook("disableLocal", False)}


def ev(S, name):
    return [e for e in S.trace if e.name == name]


def sent(S):
    return [e.args[0] for e in ev(S, "write")]


class _Negotiation(Contract):
    prop = "C39"
    module = M
    differential = False
    calls = CALLS
    summaries = SUMMARIES
    inputs = dict(opt=Bytes(maxlen=1, minlen=1, small_len=1), enabled=ForkBool(), negotiating=ForkBool(),
                  other_enabled=ForkBool(), other_negotiating=ForkBool())
    trusted = ["getOptionState returns the option's state record (dict.setdefault); _write hands the bytes to the transport",
               "enableLocal / enableRemote / disableLocal / disableRemote are application hooks: recorded call-outs, the "
               "enable hooks may answer either way",
               "a negotiation in progress has its Deferred in onResult (set by the request functions proved here)",
               "the pending Deferred is an abstract reference: callback / errback are recorded call-outs with a snapshot "
               "of the option's state at that moment (what a Deferred then does is C01 / C03)"]
    SIDE = "him"   # the perspective the received command is about
    OTHER = "us"

    def setup(self, i):
        t = self.make(telnet.Telnet, **vars(telnet.Telnet()))
        st = telnet.Telnet._OptionState()
        for side, en, neg in ((self.SIDE, i.enabled, i.negotiating), (self.OTHER, i.other_enabled, i.other_negotiating)):
            p = getattr(st, side)
            p.state = "yes" if en else "no"
            p.negotiating = bool(neg)
            p.onResult = SRef(z3.IntVal(PENDING if side == self.SIDE else PENDING + 1), "Deferred") if neg else None
        fn = getattr(telnet.Telnet, self.function.split(".")[1])
        return dict(fn=fn, args=[t, i.opt], objs=dict(t=t), ghost=dict(state=st, own_request=bool(i.negotiating)))

    def bounded_inputs(self, tier):
        return iter(())


def fired(S, side_pending=PENDING):
    """(events on the pending Deferred of the side concerned, events on any other Deferred)"""
    evs = [e for e in S.trace if e.name.startswith("Deferred.")]
    mine = [e for e in evs if isinstance(e.target, SRef) and z3.is_int_value(e.target.term) and e.target.term.as_long() == side_pending]
    return mine, [e for e in evs if e not in mine]


class _Received(_Negotiation):
    """one received WILL / WONT / DO / DONT"""
    COMMAND = None      # what was received
    ASKS_ENABLED = None  # the state the command asks for / reports
    ACCEPT = None       # the command sent to accept (None: this command is itself an answer or a refusal)
    REFUSE = None
    HOOK_ON = None
    HOOK_OFF = None
    raises = ()

    def requires(self, i):
        # "we asked the peer to disable and it answers by announcing the option": the peer breaks RFC 854; the code
        # asserts that this cannot happen and the property speaks of two Telnet endpoints, so the case is excluded
        return bnot(band(i.enabled, i.negotiating)) if self.ASKS_ENABLED else True

    def _table(S):
        i, st = S.i, S.ghost["state"]
        me = getattr(st, S.SIDE)
        other = getattr(st, S.OTHER)
        out, mine, others = sent(S), *fired(S)
        if others or (other.state, other.negotiating) != ("yes" if i.other_enabled else "no", bool(i.other_negotiating)):
            return False  # the other perspective of the option is none of this command's business
        opt = i.opt
        asks = S.ASKS
        if S.exc is not None:
            return None
        if not i.negotiating:
            if mine:
                return False
            if bool(i.enabled) == asks:
                # asks for what is already in force: not answered, nothing changes (this is what stops loops)
                return band(len(out) == 0, me.state == ("yes" if i.enabled else "no"), me.negotiating is False,
                            not ev(S, S.HOOK_ON) and not ev(S, S.HOOK_OFF))
            if asks:
                # the peer proposes to enable: the application decides; exactly one answer
                hook = ev(S, S.HOOK_ON)
                if len(hook) != 1 or len(out) != 1:
                    return False
                accepted = me.state == "yes"
                return band(veq(out[0], IAC + (S.ACCEPT if accepted else S.REFUSE) + opt), me.negotiating is False,
                            me.state in ("yes", "no"))
            # the peer disables: we follow, tell the application, acknowledge once
            return band(me.state == "no", len(ev(S, S.HOOK_OFF)) == 1, len(out) == 1, veq(out[0], IAC + S.REFUSE + opt),
                        me.negotiating is False)
        # an answer to our own request: exactly the pending Deferred fires, once, after the slot was cleared; nothing is sent
        if len(mine) != 1 or out:
            return False
        at = mine[0].snap[S.SIDE]
        cleared = band(at[1] is False, at[2] is None, at[0] == ("yes" if asks else "no") if mine[0].name == "Deferred.callback" else True)
        if asks:
            # (enabled, negotiating) + positive answer cannot happen (AssertionError above); here: not enabled
            return band(mine[0].name == "Deferred.callback", mine[0].args == (True,), me.state == "yes", me.negotiating is False,
                        me.onResult is None, cleared, len(ev(S, S.HOOK_ON)) == 1)
        if i.enabled:
            # we asked to disable, the peer agrees
            return band(mine[0].name == "Deferred.callback", mine[0].args == (True,), me.state == "no", me.negotiating is False,
                        me.onResult is None, cleared, len(ev(S, S.HOOK_OFF)) == 1)
        # we asked to enable, the peer refuses
        return band(mine[0].name == "Deferred.errback", isinstance(mine[0].args[0], telnet.OptionRefused), me.state == "no",
                    me.negotiating is False, me.onResult is None, cleared, not ev(S, S.HOOK_ON))

    ensures = dict(rfc1143_table=_table)

    def state_extras(self, S):
        S.ASKS, S.SIDE, S.OTHER = self.ASKS_ENABLED, self.SIDE, self.OTHER
        S.ACCEPT, S.REFUSE, S.HOOK_ON, S.HOOK_OFF = self.ACCEPT, self.REFUSE, self.HOOK_ON, self.HOOK_OFF


def _bind(cls):
    """clauses are plain functions of S; give them the per-class constants through a wrapper"""
    def wrap(f):
        def g(S):
            cls.state_extras(cls, S)
            return f(S)
        return g
    cls.ensures = {k: wrap(v) for k, v in _Received.ensures.items()}
    return cls


@_bind
class ReceivedWill(_Received):
    function = "Telnet.telnet_WILL"
    SIDE, OTHER, ASKS_ENABLED, ACCEPT, REFUSE, HOOK_ON, HOOK_OFF = "him", "us", True, DO, DONT, "enableRemote", "disableRemote"
    canaries = [("        d = state.him.onResult\n        state.him.onResult = None\n        d.callback(True)\n        assert self.enableRemote(",
                 "        d = state.him.onResult\n        d.callback(True)\n        state.him.onResult = None\n        assert self.enableRemote(", "rfc1143_table",
                 "Telnet.will_no_true"),
                ("            self._dont(option)", "            pass", "rfc1143_table", "Telnet.will_no_false"),
                ("        pass", "        self._do(option)", "rfc1143_table", "Telnet.will_yes_false")]


@_bind
class ReceivedWont(_Received):
    function = "Telnet.telnet_WONT"
    SIDE, OTHER, ASKS_ENABLED, ACCEPT, REFUSE, HOOK_ON, HOOK_OFF = "him", "us", False, None, DONT, "enableRemote", "disableRemote"
    # seeded change C39-2: the Deferred fires before the slot is cleared
    canaries = [("        state.him.onResult = None\n        d.callback(True)\n        self.disableRemote(option)",
                 "        d.callback(True)\n        state.him.onResult = None\n        self.disableRemote(option)", "rfc1143_table", "Telnet.wont_yes_true"),
                ("        d.errback(OptionRefused(option))", "        d.callback(False)", "rfc1143_table", "Telnet.wont_no_true")]


@_bind
class ReceivedDo(_Received):
    function = "Telnet.telnet_DO"
    SIDE, OTHER, ASKS_ENABLED, ACCEPT, REFUSE, HOOK_ON, HOOK_OFF = "us", "him", True, WILL, WONT, "enableLocal", "disableLocal"


@_bind
class ReceivedDont(_Received):
    function = "Telnet.telnet_DONT"
    SIDE, OTHER, ASKS_ENABLED, ACCEPT, REFUSE, HOOK_ON, HOOK_OFF = "us", "him", False, None, WONT, "enableLocal", "disableLocal"


class _Request(_Negotiation):
    """will / wont / do / dont issued by the application"""
    COMMAND = None
    WANTS_ENABLED = None
    raises = ()

    def _request(S):
        i, st = S.i, S.ghost["state"]
        me, other = getattr(st, S.SIDE), getattr(st, S.OTHER)
        out, (mine, others) = sent(S), fired(S)
        r = S.result
        is_d = isinstance(r, defer.Deferred) or (isinstance(r, core.SObj) and r._cls is defer.Deferred)
        if not is_d or mine or others:
            return False
        called = r._fields.get("called", False) if isinstance(r, core.SObj) else r.called
        unchanged = band((me.state, me.negotiating) == ("yes" if i.enabled else "no", bool(i.negotiating)),
                         (other.state, other.negotiating) == ("yes" if i.other_enabled else "no", bool(i.other_negotiating)))
        if i.negotiating or i.other_negotiating or bool(i.enabled) == S.WANTS:
            # refused at once: nothing sent, nothing changed, the Deferred has failed with the documented error
            res = r._fields.get("result") if isinstance(r, core.SObj) else r.result
            want = telnet.AlreadyNegotiating if (i.negotiating or i.other_negotiating) else (telnet.AlreadyEnabled if S.WANTS else telnet.AlreadyDisabled)
            return band(len(out) == 0, called is True, isinstance(getattr(res, "value", None), want), unchanged,
                        me.onResult is (None if not i.negotiating else me.onResult))
        return band(len(out) == 1, veq(out[0], IAC + S.COMMAND + i.opt), called is False, me.negotiating is True,
                    me.onResult is r, me.state == ("yes" if i.enabled else "no"),
                    (other.state, other.negotiating) == ("yes" if i.other_enabled else "no", bool(i.other_negotiating)))

    ensures = dict(refused_or_one_command_and_a_new_pending_deferred=_request)


def _bind_request(cls):
    def wrap(f):
        def g(S):
            S.SIDE, S.OTHER, S.COMMAND, S.WANTS = cls.SIDE, cls.OTHER, cls.COMMAND, cls.WANTS_ENABLED
            return f(S)
        return g
    cls.ensures = {k: wrap(v) for k, v in _Request.ensures.items()}
    return cls


@_bind_request
class RequestWill(_Request):
    function = "Telnet.will"
    SIDE, OTHER, COMMAND, WANTS_ENABLED = "us", "him", WILL, True
    calls = dict(Failure="native")
    canaries = [("if s.us.negotiating or s.him.negotiating:\n            return defer.fail(AlreadyNegotiating(option))\n        elif s.us.state == \"yes\":",
                 "if s.us.negotiating:\n            return defer.fail(AlreadyNegotiating(option))\n        elif s.us.state == \"yes\":",
                 "refused_or_one_command_and_a_new_pending_deferred")]


@_bind_request
class RequestWont(_Request):
    function = "Telnet.wont"
    SIDE, OTHER, COMMAND, WANTS_ENABLED = "us", "him", WONT, False
    calls = dict(Failure="native")


@_bind_request
class RequestDo(_Request):
    function = "Telnet.do"
    SIDE, OTHER, COMMAND, WANTS_ENABLED = "him", "us", DO, True
    calls = dict(Failure="native")


@_bind_request
class RequestDont(_Request):
    function = "Telnet.dont"
    SIDE, OTHER, COMMAND, WANTS_ENABLED = "him", "us", DONT, False
    calls = dict(Failure="native")


CONTRACTS = [ReceivedWill, ReceivedWont, ReceivedDo, ReceivedDont, RequestWill, RequestWont, RequestDo, RequestDont]
BOUNDED = bounded("C39")
_SCOPE = ('two real Telnet endpoints joined by explorer-controlled FIFO pipes: breadth-first exploration of every interleaving of requests and deliveries (all policy pairs for 1-2 options, up to 4-6 requests) with replay on fresh endpoints, requests issued from inside Deferred callbacks, long random runs delivered in byte pieces; oracle: every Deferred fires exactly once, both sides agree at quiescence, no delivery-only cycle')
NOTES = dict(explanation="every negotiation handler (the sixteen will_* / wont_* / do_* / dont_* methods, executed inline through the "
                         "real willMap / wontMap / doMap / dontMap dispatch of telnet_WILL / WONT / DO / DONT, each re-read from the "
                         "working tree) and request function proved against the RFC 1143 rules by complete case analysis; "
                         "convergence of two endpoints bounded: " + _SCOPE,
             not_covered=["the global argument (no message loop, agreement at quiescence) as a machine-checked lemma over the handler "
                          "contracts: it is explored, not proved (bounded tier)",
                          "Telnet.dataReceived's command parser (C38), subnegotiation"])
MANIFEST = dict(
    category="proof",
    text="The real negotiation code is proved by complete case analysis, for an arbitrary option byte: telnet_WILL / WONT / DO / "
         "DONT in each state of the perspective concerned never answer a command that asks for what is already in force and "
         "answer any other with exactly one command (DO/DONT, WILL/WONT as the application hook decides); an answer to our own "
         "request fires exactly the pending Deferred, exactly once (True, or OptionRefused), after the slot was cleared and the "
         "state updated, sends nothing, and touches neither the option's other perspective nor any other Deferred; will / wont / "
         "do / dont either fail at once (AlreadyNegotiating when either perspective negotiates, AlreadyEnabled / "
         "AlreadyDisabled) with nothing sent or changed, or send exactly one command, mark the negotiation and return a new "
         "unfired Deferred stored in the slot.  That two such endpoints converge and agree is explored, not proved: " + _SCOPE + ".",
    note="Trusted: pyvc, SMT solvers, application hooks and the pending Deferred as recorded call-outs, getOptionState as dict.setdefault.  Everything else: bounded, never counted as proved.",
    technique="contract-based deductive verification (complete symbolic case analysis of the handlers, call-out traces with state snapshots) + bounded exhaustive interleavings of two real endpoints",
)
