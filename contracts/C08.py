"""C08 -- Reactor timed calls run once, on time, in time order.

Deductive: ReactorBase._moveCallLaterSooner (the sift-up that reset() / a negative delay() rely on) restores the heap
order of _pendingTimedCalls for a heap of any size: if the heap order holds everywhere except that the entry at one
position became smaller, then after the call it holds everywhere, the length is unchanged and the moved key is in the
heap.  The heap is an array of keys (a DelayedCall is represented by its scheduled time, which is all `<=` looks at).
Bounded (contracts/parts/C08_bounded.py): whole histories on the real ReactorBase.
"""
import z3

from pyvc.api import *
from pyvc import core
from contracts._parts import bounded
from twisted.internet import base

IDX = z3.Int("c08_i")


def parent(i):
    return (i - 1) / 2  # z3 integer division: floor for non-negative operands


class HeapArr:
    """_pendingTimedCalls as _moveCallLaterSooner uses it: index(x), h[i], h[i] = v on a list of keys of fixed length"""

    def __init__(self, arr, n, key_pos):
        self.arr, self.n, self.key_pos = arr, n, key_pos

    def index(self, key):
        if self.key_pos is None:
            raise ValueError("not in list")
        return self.key_pos

    def _check(self, i):
        t = core.num_term(i)
        if not ctx().decide(z3.And(t >= 0, t < core.num_term(self.n))):
            raise IndexError("list index out of range")
        return t

    def __getitem__(self, i):
        return core.mk_num(z3.Select(self.arr, self._check(i)))

    def __setitem__(self, i, v):
        self.arr = z3.Store(self.arr, self._check(i), core.num_term(v))


def order_except(arr, n, hole, hole_value):
    """heap order between every entry other than `hole` and its parent, `hole` holding hole_value"""
    a = z3.Store(arr, hole, hole_value)
    return z3.ForAll([IDX], z3.Implies(z3.And(IDX >= 1, IDX < n, IDX != hole), z3.Select(a, parent(IDX)) <= z3.Select(a, IDX)))


def grandparent_le_children(arr, n, hole):
    """the parent of the hole is <= the hole's children (true of a heap one of whose keys was decreased)"""
    return z3.ForAll([IDX], z3.Implies(z3.And(IDX >= 1, IDX < n, parent(IDX) == hole, hole >= 1),
                                       z3.Select(arr, parent(hole)) <= z3.Select(arr, IDX)))


def heap_order(arr, n):
    return z3.ForAll([IDX], z3.Implies(z3.And(IDX >= 1, IDX < n), z3.Select(arr, parent(IDX)) <= z3.Select(arr, IDX)))


class MoveCallLaterSooner(Contract):
    prop = "C08"
    module = "twisted.internet.base"
    function = "ReactorBase._moveCallLaterSooner"
    differential = False
    inputs = dict(n=Int(lo=0, small=[0, 1, 3]), p=Int(lo=0, small=[0, 1, 2]), present=ForkBool(), key=Int(small=[0, 5]))
    trusted = ["a DelayedCall is represented by the key `<=` compares (its scheduled time); list.index returns the "
               "position of the call in the heap (identity), ValueError when it is not there"]
    timeout_quick = 60

    def requires(self, i):
        arr = z3.Array("c08_heap", z3.IntSort(), z3.IntSort())
        n, p = core.num_term(i.n), core.num_term(i.p)
        if not i.present:
            return True
        return core.mk_bool(z3.And(p < n, z3.Select(arr, p) == core.num_term(i.key),
                                   order_except(arr, n, p, z3.Select(arr, p)), grandparent_le_children(arr, n, p)))

    def setup(self, i):
        arr = z3.Array("c08_heap", z3.IntSort(), z3.IntSort())
        heap = HeapArr(arr, i.n, i.p if i.present else None)
        r = self.make(base.ReactorBase, _pendingTimedCalls=heap)
        return dict(self=r, args=[i.key], ghost=dict(heap=heap, arr0=arr))

    loops = {"ReactorBase._moveCallLaterSooner#0": LoopSpec(
        inv=lambda v: core.mk_bool(z3.And(
            core.num_term(v.pos) >= 0, core.num_term(v.pos) < core.num_term(v.heap.n),
            order_except(v.heap.arr, core.num_term(v.heap.n), core.num_term(v.pos), core.num_term(v.elt)),
            grandparent_le_children(v.heap.arr, core.num_term(v.heap.n), core.num_term(v.pos)),
            # the hole's children are >= the key being moved up
            z3.ForAll([IDX], z3.Implies(z3.And(IDX >= 1, IDX < core.num_term(v.heap.n), parent(IDX) == core.num_term(v.pos)),
                                        core.num_term(v.elt) <= z3.Select(v.heap.arr, IDX))))),
        # `heap` is an alias of self._pendingTimedCalls: the object stays, its contents are havocked
        frozen=("heap",), modifies=("heap.arr",), types={"heap.arr": lambda nm: z3.Array(nm, z3.IntSort(), z3.IntSort())},
        decreases=lambda v: v.pos)}

    raises = ()

    def _post(S):
        h = S.ghost["heap"]
        n = core.num_term(h.n)
        if not S.i.present:
            return veq_arr(h.arr, S.ghost["arr0"])
        return core.mk_bool(z3.And(heap_order(h.arr, n), z3.Exists([IDX], z3.And(IDX >= 0, IDX < n, z3.Select(h.arr, IDX) == core.num_term(S.i.key)))))

    ensures = dict(heap_order_restored=_post)
    canaries = [("parent = (pos - 1) // 2", "parent = pos // 2", "!verify"),  # seeded change C08-1: `preserved` no longer discharges
                ("if heap[parent] <= elt:", "if heap[parent] < elt:", None),  # harmless: equal keys may stay or move
                ("heap[pos] = heap[parent]", "heap[parent] = heap[pos]", "preserved")]

    def bounded_inputs(self, tier):
        return iter(())  # the real heap of DelayedCalls is exercised by the bounded part


def veq_arr(a, b):
    return core.mk_bool(z3.ForAll([IDX], z3.Select(a, IDX) == z3.Select(b, IDX)))


# The heap order also depends on what DelayedCall.reset / delay do to the key they are filed under: the key may only
# decrease, and the reactor is told (resetter -> _moveCallLaterSooner) exactly then; postponements go to delayed_time.
# Those contracts live with C09; here they are discharged again under C08, because a change that breaks them breaks the
# heap (seeded change C08-3: `newTime < self.getTime()` raises a key in place).
from contracts import C09 as _c09  # noqa: E402


class ResetKeepsHeapKey(_c09.Reset):
    prop = "C08"
    ensures = dict(key_never_increases_resetter_iff_decreased=_c09._key_protocol)
    canaries = [("if newTime < self.time:", "if newTime < self.getTime():", "key_never_increases_resetter_iff_decreased")]


class DelayKeepsHeapKey(_c09.Delay):
    prop = "C08"
    ensures = dict(key_never_increases_resetter_iff_decreased=_c09._key_protocol)
    canaries = []


CONTRACTS = [MoveCallLaterSooner, ResetKeepsHeapKey, DelayKeepsHeapKey]
BOUNDED = bounded("C08")
_SCOPE = ('real ReactorBase (attribute clock, no I/O): every history of up to 4 operations over a 26-operation alphabet (callLater with nested scripts, cancel / reset / delay incl. negative, advance + runUntilCurrent, timeout()), every ordered pair of modifications of 4 queued calls, seeded random histories of 20-260 operations incl. >50 cancellations (heap compaction); oracle: an independent timer model checked at every observation point (runs exactly once iff not cancelled, never early, first iteration at or after its time, not in the scheduling iteration, no earlier pending call, getDelayedCalls = pending set, timeout() bound)')
NOTES = dict(explanation="_moveCallLaterSooner proved to restore the heap order for a heap of any size; histories are bounded: " + _SCOPE,
             not_covered=["runUntilCurrent / callLater / timeout / getDelayedCalls as deductive contracts (heapq calls and "
                          "call-outs; bounded tier only)", "that the sift-up permutes the heap (only: length kept, moved key present)"])
MANIFEST = dict(
    category="proof",
    text="ReactorBase._moveCallLaterSooner is proved for a heap of any size: given heap order everywhere except at the "
         "position whose key decreased (and the decreased-key facts a valid heap gives), the loop (invariant: order holds "
         "except at the hole, the hole's parent is <= the hole's children, the moved key is <= the hole's children; "
         "variant: the position) ends with the heap order holding everywhere, the length unchanged and the key in the "
         "heap; a call that is not in the heap changes nothing.  Whole histories (exactly once, on time, in time order, "
         "getDelayedCalls, timeout) are exercised in the bounded tier only: " + _SCOPE + ".",
    note="Trusted: pyvc, SMT solvers, the key abstraction of DelayedCall, list.index by identity.  Everything else: "
         "bounded, never counted as proved.",
    technique="contract-based deductive verification (quantified heap invariant over an array model of the list, SMT) + bounded exhaustive histories",
)
