"""C08 -- Reactor timed calls run once, on time, in time order: bounded stand-in (contracts/parts/C08_bounded.py)."""
from contracts._parts import bounded, EXPLORATION_NOTE

CONTRACTS = []
BOUNDED = bounded("C08")
_SCOPE = ('real ReactorBase (attribute clock, no I/O): every history of up to 4 operations over a 26-operation alphabet (callLater with nested scripts, cancel / reset / delay incl. negative, advance + runUntilCurrent, timeout()), every ordered pair of modifications of 4 queued calls, seeded random histories of 20-260 operations incl. >50 cancellations (heap compaction); oracle: an independent timer model checked at every observation point (runs exactly once iff not cancelled, never early, first iteration at or after its time, not in the scheduling iteration, no earlier pending call, getDelayedCalls = pending set, timeout() bound)')
NOTES = dict(explanation=_SCOPE, not_covered=["deductive contracts on the anchored functions (not built)"])
MANIFEST = dict(
    category="exploration",
    text="Bounded stand-in only, on the real code: " + _SCOPE + ".",
    note=EXPLORATION_NOTE,
    technique="bounded exhaustive evaluation of an executable contract on the real code (stand-in; not proved)",
)
