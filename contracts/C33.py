"""C33 -- Decoding arbitrary bytes as DNS is total and terminates (twisted.names.dns).

Deductive: Name.decode (+ readPrecisely) on an arbitrary buffer and start offset: the `while 1` loop terminates (lexicographic
variant: number of offsets not yet visited, then bytes left before the end of the buffer) and the only exceptions that can
leave it are EOFError and ValueError.  The stream is a contract-level model of io.BytesIO (read / seek / tell over a
symbolic buffer); the visited set is a symbolic finite set with ghost cardinality.
Bounded (contracts/parts/C33_bounded.py): whole messages through Message.fromStr and the UDP / TCP protocols.
"""
import z3

from pyvc.api import *
from pyvc import core
from contracts._parts import bounded
from twisted.names import dns


class SymIO:
    """io.BytesIO as Name.decode uses it: read(n >= 0) returns the at most n bytes at the position and advances past them
    (nothing, position unchanged, at or beyond the end); seek(off >= 0) sets the position (beyond the end is allowed);
    tell() returns it."""

    def __init__(self, buf, pos):
        self.buf = buf
        self.pos = pos

    def read(self, n):
        r = self.buf[self.pos: self.pos + n]
        self.pos = self.pos + L(r)
        return r

    def seek(self, off):
        if off < 0:
            raise ValueError("negative seek value")
        self.pos = off
        return off

    def tell(self):
        return self.pos


def new_set(I, *a):
    if a:
        return NotImplemented
    return set() if ctx().concrete else core.SSet()


class NameDecode(Contract):
    prop = "C33"
    module = "twisted.names.dns"
    function = "Name.decode"
    also = ["readPrecisely"]
    differential = False  # io.BytesIO is replaced by the contract-level stream model
    calls = {"set": new_set}
    inputs = dict(buf=Bytes(alphabet=b"\x00\x01\xc0\x02", small_len=4), pos=Int(lo=0, small=[0, 1, 2]))
    loops = {"Name.decode#0": LoopSpec(
        inv=lambda v: band(v.strio.pos >= 0, v.off >= 0, v.visited.within(0, 16384)),
        modifies=("strio.pos",), types={"visited": core.SSet.fresh},
        # (offsets a pointer may still jump to, bytes left): a pointer adds a new offset to `visited`; a label moves
        # the position forward by at least the length byte; the zero byte returns
        decreases=lambda v: (16384 - v.visited.card, L(v.strio.buf) - v.strio.pos))}
    trusted = ["io.BytesIO read/seek/tell semantics (contracts.C33.SymIO)",
               "a set of integers inside [0, 16384) has at most 16384 members (core.SSet.within)"]

    def setup(self, i):
        name = self.make(dns.Name, name=b"")
        strio = SymIO(i.buf, i.pos)
        return dict(self=name, args=[strio], objs=dict(name=name), ghost=dict(strio=strio))

    raises = (EOFError, ValueError)
    ensures = dict(position_stays_valid=lambda S: None if S.exc else S.ghost["strio"].pos >= 0)
    canaries = [("if new_off in visited:", "if False:", "decreases"),
                ("new_off = (l & 63) << 8 | ord(readPrecisely(strio, 1))", "new_off = (l & 63) << 8", None),
                ("l = ord(readPrecisely(strio, 1))", "l = ord(strio.read(1))", "raises/unexpected:TypeError")]


def lean_pigeonhole(tier, seed):
    """thorough tier: have Lean (Mathlib) re-check the finite-set fact SSet.within assumes (lemmas/Pigeonhole.lean)."""
    import os, subprocess, time, shutil
    if tier != "thorough" or not shutil.which("lean"):
        return {}
    path = os.path.join(os.path.dirname(os.path.dirname(os.path.abspath(__file__))), "lemmas", "Pigeonhole.lean")
    t = time.time()
    try:
        p = subprocess.run(["lean", path], capture_output=True, text=True, timeout=1500)
        ok = p.returncode == 0 and "error" not in (p.stdout + p.stderr) and "sorry" not in (p.stdout + p.stderr)
        out = (p.stdout + p.stderr)[:500]
    except subprocess.TimeoutExpired:
        ok, out = None, "lean timed out"
    rec = {"name": "C33/lemmas/Pigeonhole.lean:sset_card_le", "kind": "lemma", "backend": "lean-4.33-mathlib",
           "verdict": "unsat" if ok else "unknown", "seconds": round(time.time() - t, 1)}
    r = {"obligations": [rec]}
    if not ok:
        rec["info"] = out
        r["undecided"] = [rec]
    return r


CONTRACTS = [NameDecode]
EXTRA = [lean_pigeonhole]
BOUNDED = bounded("C33")
_SCOPE = ("Name.decode at every offset of every buffer up to 5 bytes over a boundary alphabet, pointer rings and chains up "
          "to 64 hops (thorough: 16383), against an independent RFC 1035 name walker; Message.fromStr / "
          "DNSDatagramProtocol.datagramReceived / DNSProtocol.dataReceived on every header prefix, section-count "
          "combination, short tails, single mutations (truncation, rdlength, counts, boundary bytes, pointer overwrite / "
          "insertion) of valid one-record messages of every known record type, a coverage-guided mutation loop, and TCP "
          "frames in every 2-way split; oracle: finishes inside a deadline (setitimer), result is a message, EOFError or "
          "ValueError, the three entry points agree")
NOTES = dict(explanation="Name.decode termination and exception totality proved for every buffer and offset; the record "
                         "decoders and Message.decode are covered by the bounded tier: " + _SCOPE,
             not_covered=["Message.decode / parseRecords / per-record decoders as deductive contracts (struct.unpack on "
                          "readPrecisely results for ~40 record classes): bounded tier only",
                          "wall-clock decode time (the variant bounds iterations by 16384 * (len + 1), not seconds)"])
MANIFEST = dict(
    category="proof",
    text="Name.decode (with readPrecisely) is proved, for every buffer and every start offset, to terminate -- "
         "lexicographic variant (16384 - |visited|, bytes left): a compression pointer must add a new offset below 16384 "
         "to the visited set or raise ValueError, a label advances the stream by at least one byte, a zero byte returns -- "
         "and to raise nothing but EOFError or ValueError.  Whole messages (Message.fromStr, DNSDatagramProtocol, "
         "DNSProtocol) are exercised in the bounded tier: " + _SCOPE + ".",
    note="Trusted: pyvc, SMT solvers, the io.BytesIO stream model (SymIO), finite-set cardinality bound (pigeonhole), "
         "bitwise-or over-approximation (max(a,b) <= a|b <= a+b, equality for disjoint bits). Record decoders: bounded only.",
    technique="contract-based deductive verification (loop invariant + lexicographic variant over AST-generated VCs, SMT) + bounded exhaustive decoding",
)
