"""C23 -- HTTP client completes every request exactly once: bounded stand-in (contracts/parts/C23_bounded.py); deductive contracts may be added later."""
from contracts._parts import bounded, EXPLORATION_NOTE

CONTRACTS = []
BOUNDED = bounded("C23")
NOTES = dict(explanation='the real HTTP11ClientProtocol on a fake transport: ~420 hand-built and 200 h11-serialized responses truncated at every byte, delivered whole / bytewise / 2-way split, deliverBody called at four different times; oracle: generator tags and h11 as client', not_covered=["deductive contracts on the anchored functions (not built)"])
MANIFEST = dict(
    category="exploration",
    text="Bounded stand-in only, on the real code: " + 'the real HTTP11ClientProtocol on a fake transport: ~420 hand-built and 200 h11-serialized responses truncated at every byte, delivered whole / bytewise / 2-way split, deliverBody called at four different times; oracle: generator tags and h11 as client' + ".",
    note=EXPLORATION_NOTE,
    technique="bounded exhaustive evaluation of an executable contract on the real code (stand-in; not proved)",
)
