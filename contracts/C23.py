"""C23 -- HTTP client completes every request exactly once with the exact body.

Deductive, on the body side of the property: the Response object that stands between the parser and the application's
body protocol.  Its abstract state is (chunks buffered, chunks delivered, how often the protocol's connectionLost was
called); the contracts below cover every operation in every state of the real state machine:

  _bodyDataReceived   INITIAL: the chunk is appended to the buffer, nothing else; CONNECTED: exactly this chunk goes to the
                      protocol, once; afterwards: refused (RuntimeError);
  _bodyDataFinished   INITIAL: the reason (ResponseDone when none is given) is parked, state DEFERRED_CLOSE; CONNECTED: the
                      protocol's connectionLost is called exactly once with it, state FINISHED; afterwards: refused;
  deliverBody         INITIAL: makeConnection, then every buffered chunk exactly once in order (inductive over any number
                      of chunks), buffer dropped, state CONNECTED *before* the transport is resumed (bytes handed over from
                      inside resumeProducing then go straight to the protocol: seeded change C23-2); DEFERRED_CLOSE: the
                      same, then connectionLost(parked reason) exactly once, state FINISHED; CONNECTED / FINISHED: refused.
So the bytes the protocol gets are the bytes _bodyDataReceived got, in order, and connectionLost is called once, with
the reason the parser gave.  Which reason the parser gives (ResponseDone / PotentialDataLoss / failure) and when the
request Deferred fires is the bounded tier's business.
Bounded (contracts/parts/C23_bounded.py): the real protocol and parser, every truncation point, segmentations.
"""
import z3

from pyvc.api import *
from pyvc import core
from contracts._parts import bounded
from twisted.python.failure import Failure
from twisted.web import _newclient
from twisted.web._newclient import Response, ResponseDone
from twisted.web.http_headers import Headers

M = "twisted.web._newclient"
STATES = ("INITIAL", "CONNECTED", "DEFERRED_CLOSE", "FINISHED")


def ev(S, name):
    return [e for e in S.trace if e.name == name]


def snap():
    r = ctx().ghost["$objs"]["r"]
    return {"state": r._fields.get("_state"), "buffer": r._fields.get("_bodyBuffer"), "protocol": r._fields.get("_bodyProtocol")}


def chunk_delivered(I, proto, data):
    """protocol.dataReceived during deliverBody: counted; must be the next buffered chunk"""
    c = ctx()
    g = c.ghost
    k = g["delivered"]
    c.oblige("%s/callout/next-buffered-chunk-in-order" % g["$contract"].name, veq(data, g["buffer"][k]), "callout")
    g["delivered"] = k + 1
    c.emit("protocol.dataReceived", proto, (data,), None, snap())


def event(name):
    def h(I, obj, *args, **kw):
        ctx().emit(name, obj, args, kw, snap())
    return h


CALLS = {"protocol.makeConnection": event("protocol.makeConnection"), "protocol.connectionLost": event("protocol.connectionLost"),
         "transport.resumeProducing": event("transport.resumeProducing"), "Failure._withoutTraceback": "native"}


class _Response(Contract):
    prop = "C23"
    module = M
    differential = False
    trusted = ["the body protocol and the transport are recorded call-outs with a snapshot of the Response's state at the "
               "moment of the call",
               "_bodyBuffer is a list of opaque chunks (only their order and identity matter)"]

    def response(self, state, buffer=None, protocol=None, reason=None):
        tr = self.opaque("transport")
        real = Response((b"HTTP", 1, 1), 200, b"OK", Headers(), None)
        return self.make(Response, **dict(vars(real), _transport=tr, _state=state, _bodyBuffer=buffer, _bodyProtocol=protocol,
                                          _reason=reason))

    def bounded_inputs(self, tier):
        return iter(())


class DeliverInitial(_Response):
    function = "Response._deliverBody_INITIAL"
    calls = dict(CALLS, **{"protocol.dataReceived": chunk_delivered})
    inputs = dict(buffer=ValList())
    loops = {"Response._deliverBody_INITIAL#0": LoopSpec(inv=lambda v: v.delivered == v._i, ghost=("delivered",))}

    def setup(self, i):
        r = self.response("INITIAL", buffer=i.buffer)
        p = self.opaque("protocol")
        return dict(self=r, args=[p], objs=dict(r=r), ghost=dict(delivered=0, buffer=i.buffer, protocol=p))

    raises = ()

    def _all(S):
        mk, rs = ev(S, "protocol.makeConnection"), ev(S, "transport.resumeProducing")
        if len(mk) != 1 or len(rs) != 1 or ev(S, "protocol.connectionLost"):
            return False
        return band(S.trace[0] is mk[0], mk[0].args[0] is S.new.r._transport, S.ghost["delivered"] == L(S.i.buffer),
                    S.new.r._state == "CONNECTED", S.new.r._bodyBuffer is None, S.new.r._bodyProtocol is S.ghost["protocol"],
                    S.trace[-1] is rs[0])

    def _resume(S):
        # bytes that the transport hands over from inside resumeProducing must find the Response already connected
        rs = ev(S, "transport.resumeProducing")
        if len(rs) != 1:
            return False
        at = rs[0].snap
        return band(at["state"] == "CONNECTED", at["buffer"] is None, at["protocol"] is S.ghost["protocol"])

    ensures = dict(every_buffered_chunk_once_in_order_then_connected=_all, connected_before_the_transport_is_resumed=_resume)
    canaries = [("        self._state = \"CONNECTED\"\n", "        self._transport.resumeProducing()\n", "connected_before_the_transport_is_resumed"),
                ("for data in self._bodyBuffer:", "for data in self._bodyBuffer[1:]:", "every_buffered_chunk_once_in_order_then_connected")]


class DeliverDeferredClose(_Response):
    function = "Response._deliverBody_DEFERRED_CLOSE"
    calls = dict(CALLS, **{"protocol.dataReceived": chunk_delivered})
    inputs = dict(buffer=ValList())
    loops = {"Response._deliverBody_DEFERRED_CLOSE#0": LoopSpec(inv=lambda v: v.delivered == v._i, ghost=("delivered",))}

    def setup(self, i):
        reason = Failure(ResponseDone("parked"))
        r = self.response("DEFERRED_CLOSE", buffer=i.buffer, reason=reason)
        p = self.opaque("protocol")
        return dict(self=r, args=[p], objs=dict(r=r), ghost=dict(delivered=0, buffer=i.buffer, protocol=p, reason=reason))

    raises = ()

    def _all(S):
        mk, lost = ev(S, "protocol.makeConnection"), ev(S, "protocol.connectionLost")
        if len(mk) != 1 or len(lost) != 1 or ev(S, "transport.resumeProducing"):
            return False
        return band(S.trace[0] is mk[0], S.ghost["delivered"] == L(S.i.buffer), S.trace[-1] is lost[0],
                    lost[0].args[0] is S.ghost["reason"], S.new.r._state == "FINISHED", S.new.r._bodyBuffer is None)

    ensures = dict(every_buffered_chunk_once_in_order_then_lost_once_with_the_parked_reason=_all)
    canaries = [("protocol.connectionLost(self._reason)", "pass", "every_buffered_chunk_once_in_order_then_lost_once_with_the_parked_reason")]


class DeliverBodyRefused(_Response):
    """deliverBody while a protocol is connected or after the body was delivered"""
    function = "Response.deliverBody"
    calls = CALLS
    inputs = dict(state=OneOf("CONNECTED", "FINISHED"))

    def setup(self, i):
        old = self.opaque("protocol") if i.state == "CONNECTED" else None
        r = self.response(i.state, protocol=old)
        return dict(fn=Response.deliverBody, args=[r, self.opaque("protocol2")], objs=dict(r=r), ghost=dict(old=old))

    raises = {RuntimeError: lambda S: True}
    ensures = dict(nothing_happens=lambda S: band(len(S.trace) == 0, S.new.r._state == S.i.state, S.new.r._bodyProtocol is S.ghost["old"]))


class BodyDataReceived(_Response):
    function = "Response._bodyDataReceived"
    calls = dict(CALLS, **{"protocol.dataReceived": event("protocol.dataReceived")})
    inputs = dict(state=OneOf(*STATES), buffer=ValList(), data=Val())

    def setup(self, i):
        p = self.opaque("protocol") if i.state == "CONNECTED" else None
        buf = i.buffer if i.state in ("INITIAL", "DEFERRED_CLOSE") else None
        r = self.response(i.state, buffer=buf, protocol=p)
        return dict(fn=Response._bodyDataReceived, args=[r, i.data], objs=dict(r=r), ghost=dict(protocol=p, seq0=i.buffer.seq))

    raises = {RuntimeError: lambda S: S.i.state in ("DEFERRED_CLOSE", "FINISHED")}

    def _step(S):
        if S.exc is not None:
            return band(len(S.trace) == 0, S.new.r._state == S.i.state)
        got = ev(S, "protocol.dataReceived")
        if S.i.state == "INITIAL":
            b = S.new.r._bodyBuffer
            # the buffer is the old buffer with exactly this chunk added at the end
            appended = core.mk_bool(b.seq == z3.Concat(S.ghost["seq0"], z3.Unit(b.unwrap(S.i.data))))
            return band(len(S.trace) == 0, S.new.r._state == "INITIAL", appended)
        return band(len(got) == 1, len(S.trace) == 1, got[0].target is S.ghost["protocol"], veq(got[0].args[0], S.i.data),
                    S.new.r._state == "CONNECTED")

    ensures = dict(buffered_at_the_end_or_delivered_once=_step)
    canaries = [("self._bodyBuffer.append(data)", "self._bodyBuffer.insert(0, data)", "!verify", "Response._bodyDataReceived_INITIAL"),
                ("self._bodyProtocol.dataReceived(data)", "self._bodyProtocol.dataReceived(data[:-1])", "!verify", "Response._bodyDataReceived_CONNECTED")]


class BodyDataFinished(_Response):
    function = "Response._bodyDataFinished"
    calls = dict(CALLS)
    inputs = dict(state=OneOf(*STATES), given=ForkBool())

    def setup(self, i):
        p = self.opaque("protocol") if i.state == "CONNECTED" else None
        reason = Failure(RuntimeError("truncated")) if i.given else None
        r = self.response(i.state, buffer=[] if i.state in ("INITIAL", "DEFERRED_CLOSE") else None, protocol=p)
        return dict(fn=Response._bodyDataFinished, args=[r] + ([reason] if i.given else []), objs=dict(r=r),
                    ghost=dict(protocol=p, reason=reason))

    raises = (RuntimeError, TypeError)

    def _step(S):
        late = S.i.state in ("DEFERRED_CLOSE", "FINISHED")
        if S.exc is not None or late:
            return band(S.exc is not None, late, len(S.trace) == 0, S.new.r._state == S.i.state)

        def right(reason):
            if S.i.given:
                return reason is S.ghost["reason"]
            return isinstance(reason, Failure) and isinstance(reason.value, ResponseDone)
        lost = ev(S, "protocol.connectionLost")
        if S.i.state == "INITIAL":
            return band(len(S.trace) == 0, S.new.r._state == "DEFERRED_CLOSE", right(S.new.r._reason))
        return band(len(lost) == 1, len(S.trace) == 1, lost[0].target is S.ghost["protocol"], right(lost[0].args[0]),
                    S.new.r._state == "FINISHED", S.new.r._bodyProtocol is None)

    ensures = dict(parked_or_reported_exactly_once_with_the_right_reason=_step)
    canaries = [("        self._bodyProtocol.connectionLost(reason)\n        self._bodyProtocol = None",
                 "        self._bodyProtocol = None", "parked_or_reported_exactly_once_with_the_right_reason", "Response._bodyDataFinished_CONNECTED")]



# -- the protocol side: handing the connection back while the application is being told the body is over -----------


def parser_connection_lost(I, parser, reason):
    """parser.connectionLost(reason) ends the body: it calls the application's body protocol, which may issue the next
    request on this very protocol (a keep-alive pool does).  Recorded with the protocol's state at that moment; the fork
    `reenter` then installs what a nested request() installs."""
    c = ctx()
    g = c.ghost
    p = g["$objs"]["p"]
    c.emit("parser.connectionLost", parser, (reason,), {}, NSView({"p": snapshot_of(p)}))
    if g["reenter"]:
        new = dict(_currentRequest=g["next_request"], _finishedRequest=g["next_finished"], _responseDeferred=g["next_response"],
                   _parser=g["next_parser"], _transportProxy=g["next_proxy"])
        for k, v in new.items():
            if c.concrete:
                setattr(p, k, v)
            else:
                p._fields[k] = v
    c.ghost.setdefault("$after_callout", []).append(("parser.connectionLost", NSView({"p": snapshot_of(p)})))


class DisconnectParser(Contract):
    """HTTP11ClientProtocol._disconnectParser: everything that belongs to the finished request is dropped and the
    parser is cut off from the transport *before* the parser -- and through it the application -- is told; nothing of the
    protocol is written afterwards (the application may have started the next request: seeded change C23-3)."""
    prop = "C23"
    module = M
    function = "HTTP11ClientProtocol._disconnectParser"
    differential = False
    replay_decides = False  # the re-entrant request is not an input
    calls = {"parser.connectionLost": parser_connection_lost,
             "proxy.stopProxying": lambda I, o: ctx().emit("stopProxying", o, (), {}, NSView({"p": snapshot_of(ctx().ghost["$objs"]["p"])}))}
    inputs = dict(has_parser=ForkBool(), reenter=ForkBool())

    def setup(self, i):
        p = self.make(_newclient.HTTP11ClientProtocol, _state="QUIESCENT",
                      _parser=self.opaque("parser") if i.has_parser else None,
                      _currentRequest=self.opaque("request") if i.has_parser else None,
                      _finishedRequest=self.opaque("finished") if i.has_parser else None,
                      _responseDeferred=self.opaque("responsed") if i.has_parser else None,
                      _transportProxy=self.opaque("proxy") if i.has_parser else None,
                      transport=self.opaque("transport"))
        g = dict(reenter=i.reenter, next_request=self.opaque("request2"), next_finished=self.opaque("finished2"),
                 next_response=self.opaque("responsed2"), next_parser=self.opaque("parser2"), next_proxy=self.opaque("proxy2"))
        return dict(self=p, args=[self.opaque("reason")], objs=dict(p=p), ghost=g)

    def bounded_inputs(self, tier):
        return iter(())  # the real protocol is re-entered in the bounded class ReentrantNextRequest

    raises = ()

    def _order(S):
        told = ev(S, "parser.connectionLost")
        cut = ev(S, "stopProxying")
        if not S.i.has_parser:
            return len(S.trace) == 0
        if len(told) != 1 or len(cut) != 1:
            return False
        at = told[0].snap.p
        return band(S.trace.index(cut[0]) < S.trace.index(told[0]), at._parser is None, at._currentRequest is None,
                    at._finishedRequest is None, at._responseDeferred is None, at._transportProxy is None)

    ensures = dict(request_state_dropped_and_parser_cut_off_before_it_is_told=_order,
                   nothing_written_after_the_parser_was_told=lambda S: unchanged_since_last_callout(
                       S, "p", ("_parser", "_currentRequest", "_finishedRequest", "_responseDeferred", "_transportProxy", "_state")))
    canaries = [("            self._currentRequest = None\n            self._finishedRequest = None\n            self._responseDeferred = None\n",
                 "", "request_state_dropped_and_parser_cut_off_before_it_is_told"),
                ("            parser.connectionLost(reason)", "            parser.connectionLost(reason)\n            self._currentRequest = None",
                 "nothing_written_after_the_parser_was_told")]


CONTRACTS = [DeliverInitial, DeliverDeferredClose, DeliverBodyRefused, BodyDataReceived, BodyDataFinished, DisconnectParser]
BOUNDED = bounded("C23")
_SCOPE = ('the real HTTP11ClientProtocol on a fake transport: ~420 hand-built and 200 h11-serialized responses truncated at every byte, delivered whole / bytewise / 2-way split, deliverBody called at five different times (one with a transport that hands held-back bytes over from inside resumeProducing), HTTP11ClientProtocol.abort() after every byte; oracle: generator tags and h11 as client')
NOTES = dict(explanation="the Response state machine (body side) proved operation by operation; the parser, the protocol state machine and "
                         "the request Deferred bounded: " + _SCOPE,
             not_covered=["HTTPClientParser (status line, headers, choice of the body decoder, which reason is given at connection loss), "
                          "HTTP11ClientProtocol's own state machine and the request Deferred: bounded tier only",
                          "the transfer decoders: C22 (chunked), bounded (identity)"])
MANIFEST = dict(
    category="proof",
    text="The Response object between the parser and the application's body protocol is proved operation by operation, in "
         "every state of its real state machine: body data is appended to the buffer (INITIAL) or handed to the protocol "
         "exactly once (CONNECTED) and refused afterwards; the end of the body is parked (INITIAL) or reported through "
         "connectionLost exactly once with the parser's reason, ResponseDone when none is given (CONNECTED), and refused "
         "afterwards; deliverBody calls makeConnection, hands over every buffered chunk exactly once in order (inductive over "
         "any number of chunks), and then either switches to CONNECTED before it resumes the transport or, if the end was "
         "parked, calls connectionLost exactly once with the parked reason; a second deliverBody is refused with nothing "
         "done.  HTTP11ClientProtocol._disconnectParser is proved to have dropped every field of the finished request and "
         "cut the parser off the transport before the parser (and through it the application) is told, and to write "
         "nothing afterwards -- the application may start the next request from there.  The parser, the rest of the "
         "protocol's state machine and the request Deferred are exercised in the bounded tier only: "
         + _SCOPE + ".",
    note="Trusted: pyvc, SMT solvers, protocol / transport as recorded call-outs.  Everything else: bounded, never counted as proved.",
    technique="contract-based deductive verification (complete case analysis of a state machine, inductive loops, call-out traces with state snapshots) + bounded exhaustive truncations of real responses",
)
