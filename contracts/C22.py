"""C22 -- chunked transfer coding (twisted.web._abnf, http.toChunk, http._ChunkedTransferDecoder).

Deductive: _ishexdigits (loop invariant) and _hexint (hex value exactly for non-empty hex-digit strings, ValueError
otherwise: no sign, prefix, blank or underscore gets through); toChunk (hex(len) CRLF data CRLF; the last-chunk
only for empty data); the decoder's BODY and CRLF state methods (exactly min(len(buffer), length) bytes delivered,
counter decremented, only CRLF accepted after a chunk) and noMoreData (_DataLoss iff not FINISHED).
Bounded (contracts/parts/C22_bounded.py): encoder/decoder round trip under every chunking and split, malformed
streams.
"""
import z3

from pyvc.api import *
from pyvc import core, models
from contracts._parts import bounded
from twisted.web import _abnf, http

HEX = b"0123456789abcdefABCDEF"


def is_hex(c):
    return core.mk_bool(z3.Or(*[core.num_term(c) == x for x in HEX])) if is_sym(c) else (c in HEX)


def all_hex(b):
    return core.all_bytes(b, is_hex)


class IsHexDigits(Contract):
    prop = "C22"
    module = "twisted.web._abnf"
    function = "_ishexdigits"
    inputs = dict(b=Bytes(alphabet=b"0aF x+", small_len=3))
    loops = {"_ishexdigits#0": LoopSpec(inv=lambda v: all_hex(v.b[: v._i]))}

    def setup(self, i):
        return dict(fn=_abnf._ishexdigits, args=[i.b])

    ensures = dict(hex_iff_nonempty_and_all_hex=lambda S: veq(S.result, band(L(S.i.b) > 0, all_hex(S.i.b))))


class HexInt(Contract):
    prop = "C22"
    module = "twisted.web._abnf"
    function = "_hexint"
    summaries = {"_ishexdigits": lambda I, b: band(L(b) > 0, all_hex(b))}
    inputs = dict(b=Bytes(alphabet=b"1aF x+_", small_len=3, maxlen=8))
    trusted = ["int(s, 16) on a non-empty string of hex digits is its base-16 value"]

    def setup(self, i):
        return dict(fn=_abnf._hexint, args=[i.b])

    raises = {ValueError: lambda S: bnot(band(L(S.i.b) > 0, all_hex(S.i.b)))}

    def _value(S):
        if S.exc is not None:
            return None
        if not is_sym(S.i.b):
            return S.result == int(S.i.b, 16)
        t = S.i.b.term
        n = z3.Length(t)
        hv = lambda c: z3.If(c <= 57, c - 48, z3.If(c <= 70, c - 55, c - 87))
        v = z3.IntVal(0)
        for q in range(8):
            v = z3.If(n > q, v * 16 + hv(t[q]), v)
        return S.result == core.mk_num(v)

    ensures = dict(base16_value=_value)
    canaries = [("if not _ishexdigits(b):", "if False:", "!verify")]  # the mutant leaves the modelled fragment (int() of non-hex)


class ToChunk(Contract):
    prop = "C22"
    module = "twisted.web.http"
    function = "toChunk"
    inputs = dict(data=Bytes(alphabet=b"a\r\n0", small_len=3))

    def setup(self, i):
        return dict(fn=http.toChunk, args=[i.data])

    def _form(S):
        r = S.result
        n = L(S.i.data)
        size = core.SSeq(models.hexenc()(core.num_term(n)), "bytes", True) if is_sym(n) else (b"%x" % n)
        return band(len(r) == 4, veq(r[0], size), r[1] == b"\r\n", veq(r[2], S.i.data), r[3] == b"\r\n",
                    # the chunk-size "0" (last-chunk) appears exactly for empty data
                    implies(n == 0, veq(r[0], b"0")))

    ensures = dict(size_line_data_crlf=_form)
    canaries = [("{len(data):x}", "{len(data):d}", "size_line_data_crlf")]


def mkdec(c, **kw):
    f = dict(state="BODY", _buffer=b"", length=0, _start=0, dataCallback=c.opaque("data"), finishCallback=c.opaque("finish"),
             _trailerHeaders=[], _maxTrailerHeadersSize=2 ** 16, _receivedTrailerHeadersSize=0)
    f.update(kw)
    return c.make(http._ChunkedTransferDecoder, **f)


class BodyState(Contract):
    prop = "C22"
    module = "twisted.web.http"
    function = "_ChunkedTransferDecoder._dataReceived_BODY"
    differential = False
    inputs = dict(buf=Bytes(alphabet=b"ab\r", small_len=3), length=Int(lo=1, small=[1, 2, 5]))

    def requires(self, i):
        return L(i.buf) >= 1

    def setup(self, i):
        d = mkdec(self, _buffer=i.buf if is_sym(i.buf) else bytearray(i.buf), length=i.length)
        return dict(self=d, args=[], objs=dict(d=d))

    def _body(S):
        ev = [e for e in S.trace if e.name == "data.__call__"]
        if len(ev) != 1 or len(S.trace) != 1:
            return False
        chunk = ev[0].args[0]
        n = vmin(L(S.i.buf), S.i.length)
        d = S.new.d
        whole = L(S.i.buf) >= S.i.length
        return band(veq(chunk, S.i.buf[:n]), veq(bytes(d._buffer) if isinstance(d._buffer, bytearray) else d._buffer, S.i.buf[n:]),
                    S.result is True,
                    ite(whole, True, False) if False else True,
                    (d.state == "CRLF") if (whole is True or (whole is not False and bool(whole))) else
                    band(d.state == "BODY", d.length == S.i.length - n))

    ensures = dict(delivers_exactly_the_chunk_bytes_available=_body)
    canaries = [("self.length -= len(chunk)", "self.length -= len(chunk) + 1", "delivers_exactly_the_chunk_bytes_available")]


class CrlfState(Contract):
    prop = "C22"
    module = "twisted.web.http"
    function = "_ChunkedTransferDecoder._dataReceived_CRLF"
    differential = False
    inputs = dict(buf=Bytes(alphabet=b"\r\nx", small_len=3))

    def setup(self, i):
        d = mkdec(self, state="CRLF", _buffer=i.buf if is_sym(i.buf) else bytearray(i.buf))
        return dict(self=d, args=[], objs=dict(d=d))

    raises = {http._MalformedChunkedDataError: lambda S: band(L(S.i.buf) >= 2, bnot(veq(S.i.buf[:2], b"\r\n")))}

    def _crlf(S):
        if S.exc is not None:
            return None
        d = S.new.d
        buf = bytes(d._buffer) if isinstance(d._buffer, bytearray) else d._buffer
        if L(S.i.buf) < 2:
            return band(S.result is False, d.state == "CRLF", veq(buf, S.i.buf))
        return band(S.result is True, d.state == "CHUNK_LENGTH", veq(buf, S.i.buf[2:]))

    ensures = dict(only_crlf_accepted_after_a_chunk=_crlf, nothing_delivered=lambda S: len(S.trace) == 0)
    canaries = [('if not self._buffer.startswith(b"\\r\\n"):', "if False:", "_MalformedChunkedDataError-exactly-when")]


class NoMoreData(Contract):
    prop = "C22"
    module = "twisted.web.http"
    function = "_ChunkedTransferDecoder.noMoreData"
    inputs = dict(state=OneOf("CHUNK_LENGTH", "CRLF", "BODY", "TRAILER", "FINISHED"))

    def setup(self, i):
        d = mkdec(self, state=i.state)
        return dict(self=d, args=[], objs=dict(d=d))

    raises = {http._DataLoss: lambda S: S.i.state != "FINISHED"}
    ensures = dict(no_callbacks=lambda S: len(S.trace) == 0)


CRLF = b"\r\n"


def first_crlf(buf):
    """index of the first CR LF in buf, -1 if none"""
    return bytes(buf).find(CRLF) if not is_sym(buf) else core.seq_find(buf, CRLF, 0)


def no_crlf_before(buf, k):
    """representation invariant of _start: no CR LF begins at an index below k"""
    e = first_crlf(buf)
    return bor(e < 0, e >= k)


def hexint_summary(I, b):
    """_hexint as proved by HexInt: the value for a non-empty hex-digit string (zero exactly for all-'0'), ValueError otherwise"""
    c = ctx()
    if not band(L(b) > 0, all_hex(b)):
        raise ValueError("not hex digits")
    v = core.fresh_int(c.fresh_name("hexval"), lo=0)
    c.assume(core.as_bool_term(veq(v == 0, core.all_bytes(b, lambda x: x == 48))))
    c.ghost["hexint"] = (b, v)
    return v


def translate_model(I, recv, table, delete=b""):
    """bytes.translate(None, delete): only whether the result is empty is observed -- empty iff every byte is deleted"""
    if table is not None:
        return NotImplemented
    c = ctx()
    r = core.fresh_seq(c.fresh_name("translated"), "bytes")
    allowed = core.all_bytes(recv, lambda x: core.mk_bool(z3.Or(*[core.num_term(x) == y for y in bytes(delete)])))
    c.assume(core.as_bool_term(veq(L(r) == 0, allowed)))
    c.assume(core.as_bool_term(L(r) <= L(recv)))
    return r


class ChunkLengthState(Contract):
    """The chunk-size line is recognised wherever earlier deliveries were cut (seeded changes C22-1, C18-1)."""
    prop = "C22"
    module = "twisted.web.http"
    function = "_ChunkedTransferDecoder._dataReceived_CHUNK_LENGTH"
    differential = False
    summaries = {"_hexint": hexint_summary}
    calls = {"bytes.translate": translate_model}
    # path-feasibility queries over these string constraints that come back `unknown` are genuinely undecided by z3
    # (not load): retrying them with a larger budget only costs time; such a path is kept, which is sound
    feas_retry = False
    feas_timeout = 1.0
    inproc_budget = 0.5  # z3 in-process leaves these string obligations open; the command-line portfolio (cvc5) decides them
    inputs = dict(buf=Bytes(alphabet=b"1a;\r\n", small_len=3), start=Int(lo=0, small=[0, 1, 2]))
    trusted = ["bytes.find / bytes.translate library axioms", "_hexint through its proved contract (HexInt)"]
    timeout_quick = 60
    pc_slices = True

    def requires(self, i):
        # what dataReceived guarantees (non-empty buffer) and the representation invariant of _start
        return band(L(i.buf) >= 1, i.start <= L(i.buf), no_crlf_before(i.buf, i.start))

    def setup(self, i):
        d = mkdec(self, state="CHUNK_LENGTH", _buffer=i.buf if is_sym(i.buf) else bytearray(i.buf), _start=i.start)
        return dict(self=d, args=[], objs=dict(d=d), ghost=dict(hexint=None))

    def bounded_inputs(self, tier):
        return iter(())  # _hexint / translate are summaries here; the real decoder runs in the bounded part

    raises = (http._MalformedChunkedDataError,)

    def _common(S):
        d, buf = S.new.d, S.i.buf
        newbuf = bytes(d._buffer) if isinstance(d._buffer, bytearray) else d._buffer
        return d, buf, newbuf, first_crlf(buf)

    def _incomplete(S):
        if S.exc is not None:
            return None
        d, buf, newbuf, e = ChunkLengthState._common(S)
        if not (e < 0):
            return None
        # no complete line yet: keep everything, remember where a straddling CR LF could begin
        return band(S.result is False, veq(newbuf, buf), d.state == "CHUNK_LENGTH", d._start >= 0, d._start <= L(buf) - 1)

    def _parsed(S):
        if S.exc is not None:
            return None
        d, buf, newbuf, e = ChunkLengthState._common(S)
        if e < 0:
            return None
        b, v = S.ghost["hexint"]
        semi = core.seq_find(buf[:e], b";", 0) if is_sym(buf) else bytes(buf[:e]).find(b";")
        raw_end = e if semi < 0 else semi
        return band(S.result is True, veq(b, buf[:raw_end]), veq(d.length, v), d.state == ("TRAILER" if v == 0 else "BODY"))

    def _consumed(S):
        if S.exc is not None:
            return None
        d, buf, newbuf, e = ChunkLengthState._common(S)
        if e < 0:
            return None
        return veq(newbuf, buf[e + 2:])

    def _start_inv(S):
        if S.exc is not None:
            return None
        d, buf, newbuf, e = ChunkLengthState._common(S)
        if e < 0:
            return None
        # the invariant of _start is re-established for whatever follows
        return band(d._start >= 0, d._start <= L(newbuf), no_crlf_before(newbuf, d._start))

    # one obligation per conjunct (each is a small solver query)
    ensures = dict(incomplete_line_kept=_incomplete, size_line_parsed=_parsed, size_line_consumed=_consumed,
                   start_invariant_kept=_start_inv)
    timeout_thorough = 180
    timeout_quick = 120
    canaries = [("self._start = len(self._buffer) - 1", "self._start = len(self._buffer)", "incomplete_line_kept"),
                ("del self._buffer[0 : eolIndex + 2]", "del self._buffer[0 : eolIndex + 1]", "size_line_consumed")]


class ChunkLengthIncomplete(ChunkLengthState):
    """the same contract restricted to buffers without a complete size line (the two halves run in parallel workers)"""

    def requires(self, i):
        return band(ChunkLengthState.requires(self, i), first_crlf(i.buf) < 0)

    ensures = dict(incomplete_line_kept=ChunkLengthState._incomplete)
    canaries = [("self._start = len(self._buffer) - 1", "self._start = len(self._buffer)", "incomplete_line_kept")]


class ChunkLengthComplete(ChunkLengthState):
    """... and to buffers that hold a complete size line"""

    def requires(self, i):
        return band(ChunkLengthState.requires(self, i), first_crlf(i.buf) >= 0)

    ensures = dict(size_line_parsed=ChunkLengthState._parsed, size_line_consumed=ChunkLengthState._consumed,
                   start_invariant_kept=ChunkLengthState._start_inv)
    canaries = [("del self._buffer[0 : eolIndex + 2]", "del self._buffer[0 : eolIndex + 1]", "size_line_consumed")]


CONTRACTS = [IsHexDigits, HexInt, ToChunk, BodyState, CrlfState, NoMoreData, ChunkLengthIncomplete, ChunkLengthComplete]
BOUNDED = bounded("C22")
NOTES = dict(
    explanation="Hex chunk-size parsing, chunk formatting and the BODY/CRLF decoder states proved; chunk-size line, "
                "extensions and trailer states and the composed round trip are bounded.",
    not_covered=["_dataReceived_CHUNK_LENGTH / _TRAILER deductively (find with bounds, translate): bounded tier only",
                 "hexenc(n) == '0' only for n == 0 (needs induction over digits; covered by the bounded round trip)"],
)
MANIFEST = dict(
    category="proof",
    text="_abnf._ishexdigits/_hexint are proved to accept exactly non-empty hex-digit strings and return their base-16 "
         "value (ValueError for anything else, e.g. '0x10', '+1', ' 1'); http.toChunk is proved to produce "
         "hex(len) CRLF data CRLF; the decoder's BODY state is proved to deliver exactly min(len(buffer), length) "
         "bytes, keep the rest and decrement the remaining length, the CRLF state to accept only CRLF, and "
         "noMoreData to raise _DataLoss exactly unless FINISHED. The chunk-size line / extension / trailer states and "
         "the round trip decode(encode(chunks)) under every chunking and split are checked by the bounded tier.",
    note="Trusted: pyvc, SMT solvers, int(,16) and %x models. Bounded tier: the scope in contracts/parts/C22_bounded.py.",
    technique="contract-based deductive verification (spec functions for hex digits, state-method contracts, SMT VCs) + bounded exhaustive round trip",
)
