"""C40 -- SMTP message bodies are transparent: bounded stand-in (contracts/parts/C40_bounded.py); deductive contracts may be added later."""
from contracts._parts import bounded, EXPLORATION_NOTE

CONTRACTS = []
BOUNDED = bounded("C40")
NOTES = dict(explanation='real SMTPClient + FileSender to real ESMTP: every LF-terminated body over {. a LF} up to 6 bytes in every composition into read chunks, line-token bodies, every 2-way payload split, RFC 5321 reference sender/receiver', not_covered=["deductive contracts on the anchored functions (not built)"])
MANIFEST = dict(
    category="exploration",
    text="Bounded stand-in only, on the real code: " + 'real SMTPClient + FileSender to real ESMTP: every LF-terminated body over {. a LF} up to 6 bytes in every composition into read chunks, line-token bodies, every 2-way payload split, RFC 5321 reference sender/receiver' + ".",
    note=EXPLORATION_NOTE,
    technique="bounded exhaustive evaluation of an executable contract on the real code (stand-in; not proved)",
)
