"""C40 -- SMTP transfers message bodies transparently.

Deductive, on the receiving side: smtp.SMTP.dataLineReceived for an arbitrary line (any bytes a LineOnlyReceiver can
deliver) in every state of the DATA phase: the transfer ends exactly when the line is a single '.'; every other line is
handed to every message exactly once, with one leading '.' removed and nothing else changed; the documented header
handling (an empty line first when the body does not start with a header) is the only thing ever added; no line changes
the protocol mode, so nothing in a body can be taken for an SMTP command; once a message has refused a line nothing more
is delivered.  LineOnlyReceiver's own segmentation independence is C16.  The client's dot-stuffing is exercised in the
bounded tier (and has a recorded finding: it is stateless across read chunks).
Bounded (contracts/parts/C40_bounded.py): the real client, FileSender and server end to end.
"""
import z3

from pyvc.api import *
from pyvc import core
from contracts._parts import bounded
from twisted.mail import smtp

M = "twisted.mail.smtp"


def ev(S, name):
    return [e for e in S.trace if e.name == name]


def line_received(I, msg, line):
    c = ctx()
    c.emit("lineReceived", msg, (line,))
    if c.ghost["refuses"] and c.decide(z3.Bool(c.fresh_name("message_refuses_the_line"))):
        raise smtp.SMTPServerError(550, b"no")


def rec(name):
    def h(I, obj, *a, **kw):
        ctx().emit(name, obj, a, kw)
        return core.SObj(None, name + "_result", {}, opaque=True)
    return h


def deferred_list(I, ds, **kw):
    ctx().emit("DeferredList", None, (list(ds),), kw)
    return core.SObj(None, "dl", {}, opaque=True)


class DataLine(Contract):
    prop = "C40"
    module = M
    function = "SMTP.dataLineReceived"
    differential = False
    calls = {"m1.lineReceived": line_received, "m2.lineReceived": line_received, "m1.connectionLost": rec("connectionLost"),
             "m2.connectionLost": rec("connectionLost"), "m1.eomReceived": rec("eomReceived"), "m2.eomReceived": rec("eomReceived"),
             "DeferredList": deferred_list, "dl.addCallback": rec("dl.addCallback")}
    summaries = {"SMTP.sendCode": lambda I, *a: ctx().emit("sendCode", None, a[-2:]),
                 "SMTP._messageHandled": lambda I, *a: ctx().emit("messageHandled", None, a[-1:])}
    inputs = dict(line=Bytes(alphabet=b".a:", small_len=2), inheader=ForkBool(), inbody=ForkBool(), failed=ForkBool(),
                  nmsg=OneOf(0, 1, 2), refuses=ForkBool())
    trusted = ["one or two messages (recipients) per transaction; each is an opaque IMessage whose lineReceived may raise "
               "SMTPServerError, recorded call-outs",
               "sendCode / _messageHandled / DeferredList are summarised as events (the reply codes are not part of this property)"]

    def requires(self, i):
        # the two header-tracking flags are never both set; a message can only refuse a line if there is one
        return band(bnot(band(i.inheader, i.inbody)), bor(bnot(i.refuses), i.nmsg > 0))

    def setup(self, i):
        msgs = [self.opaque("m1"), self.opaque("m2")][:i.nmsg]
        failed = smtp.SMTPServerError(451, b"earlier") if i.failed else None
        real = smtp.SMTP()
        s = self.make(smtp.SMTP, **dict(vars(real), mode=smtp.DATA, datafailed=failed, _SMTP__messages=list(msgs),
                                        _SMTP__inheader=1 if i.inheader else 0, _SMTP__inbody=1 if i.inbody else 0))
        return dict(self=s, args=[i.line], objs=dict(s=s), ghost=dict(msgs=msgs, refuses=bool(i.refuses), failed=failed))

    def bounded_inputs(self, tier):
        return iter(())

    raises = ()

    def _ends(S):
        """the transfer ends exactly at a line that is a single dot"""
        ended = S.new.s.mode != smtp.DATA
        return veq(S.i.line, b".") if ended else bnot(veq(S.i.line, b"."))

    def _lines(S):
        i = S.i
        got = ev(S, "lineReceived")
        msgs = S.ghost["msgs"]
        if S.new.s.mode != smtp.DATA:
            return len(got) == 0  # the terminating dot is not part of the body
        if i.failed:
            return band(len(got) == 0, S.new.s.datafailed is S.ghost["failed"])
        payload_is_tail = core.seq_startswith(i.line, b".")
        want_payload = i.line[1:] if S.ghost["$interp"].truth(payload_is_tail) else i.line
        # what each message must have been given, in order
        per = {id(m): [e.args[0] for e in got if e.target is m] for m in msgs}
        refused = S.new.s.datafailed is not None
        if refused:
            # a message refused: from then on nothing is delivered to anybody (and every message is told the connection is lost)
            return band(S.ghost["refuses"], len(ev(S, "connectionLost")) == len(msgs))
        ok = True
        for m in msgs:
            seq = per[id(m)]
            if len(seq) == 1:
                ok = band(ok, veq(seq[0], want_payload))
            elif len(seq) == 2:
                # documented header handling: one empty line before a body that does not start with a header
                ok = band(ok, veq(seq[0], b""), veq(seq[1], want_payload), bnot(i.inheader), bnot(i.inbody),
                          bnot(core.seq_contains(want_payload, b":")), L(want_payload) > 0)
            else:
                return False
        return band(ok, len(ev(S, "connectionLost")) == 0)

    def _blank_rule(S):
        """the extra empty line is added exactly when the body starts with a line that is neither empty nor header-like"""
        if S.new.s.mode != smtp.DATA or S.i.failed or S.new.s.datafailed is not None or not S.ghost["msgs"]:
            return None
        i = S.i
        got = [e for e in ev(S, "lineReceived") if e.target is S.ghost["msgs"][0]]
        payload = i.line[1:] if S.ghost["$interp"].truth(core.seq_startswith(i.line, b".")) else i.line
        starts_body = band(bnot(i.inheader), bnot(i.inbody), bnot(core.seq_contains(payload, b":")), L(payload) > 0)
        return starts_body if len(got) == 2 else bnot(starts_body)

    ensures = dict(ends_exactly_at_the_single_dot=_ends, every_message_gets_the_line_with_one_leading_dot_removed=_lines,
                   only_the_documented_blank_line_is_added=_blank_rule)
    canaries = [("            line = line[1:]\n", "            line = line[1:].lstrip(b\".\")\n", "!verify"),
                ("            if line == b\".\":", "            if line in (b\".\", b\"..\"):", "ends_exactly_at_the_single_dot"),
                ("        if line[:1] == b\".\":", "        if line[:1] == b\".\" and self._SMTP__inbody:", "every_message_gets_the_line_with_one_leading_dot_removed")]


CONTRACTS = [DataLine]
BOUNDED = bounded("C40")
_SCOPE = ('real SMTPClient + FileSender to real ESMTP: every LF-terminated body over {. a LF} up to 6 bytes in every composition into read chunks, line-token bodies, every 2-way payload split, RFC 5321 reference sender/receiver')
NOTES = dict(explanation="the server's DATA line handler proved for every line and state; client, FileSender and the end-to-end transfer bounded: " + _SCOPE,
             not_covered=["SMTPClient.transformChunk / FileSender (the client's dot-stuffing across read chunks: bounded tier, recorded finding)",
                          "LineOnlyReceiver segmentation (C16), the reply to the end of the message"])
MANIFEST = dict(
    category="proof",
    text="smtp.SMTP.dataLineReceived is proved, for every line and every state of the DATA phase (header seen or not, an "
         "earlier refusal or not, zero to two recipients whose lineReceived may raise): the mode changes -- the transfer ends "
         "-- exactly when the line is a single '.', which is not delivered; every other line reaches every message exactly "
         "once with one leading '.' removed and is otherwise unchanged; the only line ever added is the documented empty line "
         "before a body that does not start with a header; after a refusal nothing more is delivered.  The client's "
         "dot-stuffing and the end-to-end transfer are exercised in the bounded tier only: " + _SCOPE + ".",
    note="Trusted: pyvc, SMT solvers, messages as recorded call-outs, at most two recipients.  Everything else: bounded, never counted as proved.",
    technique="contract-based deductive verification (symbolic execution over an arbitrary line, call-out traces, SMT strings) + bounded exhaustive end-to-end transfers",
)
