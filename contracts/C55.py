"""C55 -- Log formatting never raises.

Deductive (exception totality): _formatEvent and _formatTraceback of twisted.logger._format are executed symbolically with
every call into formatting machinery or user objects (flatFormat, formatWithCall, bytes.decode, failure.getTraceback) as a
hostile call-out that may return text, return something that is not text, or raise *any* exception -- represented by
one Exception subclass and one BaseException subclass that is not an Exception, which is complete because the code
only discriminates exceptions through `except BaseException`.  Proved: both functions return text on every path and
let no exception escape, given that formatUnformattableEvent and safe_str are total (their own guards; bounded tier).
Bounded (contracts/parts/C55_bounded.py): the real formatting machinery on hostile objects and format strings.
"""
import z3

from pyvc.api import *
from pyvc import core
from contracts._parts import bounded
from twisted.logger import _format


class AnyException(Exception):
    """stands for every exception that is an Exception"""


class AnyBaseException(BaseException):
    """stands for every exception that is not an Exception (asyncio.CancelledError, GeneratorExit, ...)"""


def _fork(name):
    c = ctx()
    return c.decide(z3.Bool(c.fresh_name(name)))


def hostile(event, non_text=b"not text"):
    """a call-out that returns text, returns non-text, or raises anything"""
    def handler(I, *a, **kw):
        c = ctx()
        c.emit(event, None, ())
        if _fork(event + "_raises"):
            raise (AnyException("hostile") if _fork(event + "_is_exception") else AnyBaseException("hostile"))
        if _fork(event + "_returns_text"):
            return core.fresh_seq(c.fresh_name(event + "_text"), "str")
        return non_text
    return handler


def total_text(event):
    """summary of a function with its own catch-all: always returns text"""
    def handler(I, *a, **kw):
        c = ctx()
        c.emit(event, None, ())
        return core.fresh_seq(c.fresh_name(event + "_text"), "str")
    return handler


def is_text(v):
    return isinstance(v, str) or (isinstance(v, core.SSeq) and v.kind == "str")


class FormatEvent(Contract):
    prop = "C55"
    module = "twisted.logger._format"
    function = "_formatEvent"
    differential = False
    # flatFormat / formatWithCall are where user objects' __str__ / __repr__ / __format__ / calls run
    calls = {"flatFormat": hostile("flatFormat", non_text=7), "formatWithCall": hostile("formatWithCall", non_text=7),
             "bytes.decode": lambda I, recv, *a, **kw: hostile("decode")(I)}
    summaries = {"formatUnformattableEvent": total_text("formatUnformattableEvent")}
    inputs = dict(flattened=ForkBool(), kind=OneOf("absent", "none", "str", "bytes", "other"),
                  fmt_s=Str(alphabet="{a}", small_len=2), fmt_b=Bytes(alphabet=b"{a}\xff", small_len=2))
    trusted = ["formatUnformattableEvent is total and returns text (its own try/except BaseException; bounded tier)",
               "two representative exception classes stand for all (the code only uses `except BaseException`)"]

    def setup(self, i):
        event = {}
        if i.flattened:
            event["log_flattened"] = {}
        if i.kind != "absent":
            event["log_format"] = {"none": None, "str": i.fmt_s, "bytes": i.fmt_b, "other": 7}[i.kind]
        return dict(fn=_format._formatEvent, args=[event])

    def bounded_inputs(self, tier):
        return iter(())

    raises = ()

    def _text(S):
        # flatFormat / formatWithCall returning non-text is passed through by design only if they do: they are str-typed
        # in the real code; a non-text return is reported by the bounded tier.  Here: whatever is returned on a path that
        # went through the catch-all is text, and nothing escapes.
        names = [e.name for e in S.trace]
        if "formatUnformattableEvent" in names:
            return is_text(S.result)
        return True

    ensures = dict(no_exception_escapes_and_fallback_is_text=_text,
                   absent_format_is_empty_text=lambda S: None if (S.i.flattened or S.i.kind not in ("absent", "none")) else S.result == "")
    canaries = [("except BaseException as e:", "except Exception as e:", "raises/unexpected"),
                ("return formatUnformattableEvent(event, e)", "raise", "raises/unexpected")]


class FormatTraceback(Contract):
    prop = "C55"
    module = "twisted.logger._format"
    function = "_formatTraceback"
    differential = False
    calls = {"failure.getTraceback": lambda I, f, *a, **kw: hostile("getTraceback")(I)}
    summaries = {"safe_str": total_text("safe_str")}
    inputs = dict()
    trusted = ["reflect.safe_str is total and returns text (its own catch-alls; bounded tier)"]

    def setup(self, i):
        return dict(fn=_format._formatTraceback, args=[self.opaque("failure")])

    def bounded_inputs(self, tier):
        return iter(())

    raises = ()
    ensures = dict(always_text=lambda S: is_text(S.result))
    canaries = [("except BaseException as e:", "except Exception as e:", "raises/unexpected"),
                ("if not isinstance(traceback, str):", "if False:", "always_text")]


CONTRACTS = [FormatEvent, FormatTraceback]
for _k in CONTRACTS:
    _k.replay_decides = False  # the hostile call-outs (flatFormat, formatWithCall, decode, str of a value) raise by a choice that is not an input
BOUNDED = bounded("C55")
_SCOPE = ("formatEvent / eventAsText / formatEventAsClassicLogText / formatUnformattableEvent and the legacy "
          "textFromEventDict / _safeFormat on a grammar of format strings (every string over {}a.[]()!:r0 up to length 4, "
          "14 roots x 41 lookup/call paths x 7 conversions x 21 specs x 14 contexts) with 33 kinds of hostile values "
          "(str/repr/format raising Exception or BaseException, returning non-text, unprintable exceptions), odd "
          "log_time / log_system / log_level / log_namespace / log_failure values and their 2-way combinations; "
          "oracle: the call returns and the result is str (None where documented)")
NOTES = dict(explanation="_formatEvent / _formatTraceback proved exception-total under hostile call-outs; the real formatting "
                         "machinery is bounded: " + _SCOPE,
             not_covered=["formatWithCall / flatFormat / formatUnformattableEvent / safe_str themselves (str.format "
                          "mini-language with arbitrary __format__ call-outs): bounded tier only",
                          "eventAsText's timestamp / system assembly and the legacy formatter: bounded tier only"])
MANIFEST = dict(
    category="proof",
    text="_formatEvent and _formatTraceback are proved exception-total: with flatFormat, formatWithCall, bytes.decode and "
         "failure.getTraceback modelled as hostile call-outs (return text, return non-text, or raise any exception -- an "
         "Exception or a non-Exception BaseException), no exception escapes on any path, the catch-all falls back to "
         "formatUnformattableEvent / safe_str, _formatTraceback always returns text and a missing format gives ''.  The "
         "formatting machinery itself (format strings, hostile __str__ / __repr__ / __format__), eventAsText's timestamp and "
         "system fields and the legacy formatter are exercised in the bounded tier only: " + _SCOPE + ".",
    note="Trusted: pyvc, SMT solvers, totality of formatUnformattableEvent and safe_str (bounded), two representative "
         "exception classes.  Everything else: bounded, never counted as proved.",
    technique="contract-based deductive verification (symbolic execution with hostile call-outs: exception totality) + bounded exhaustive hostile events",
)
