"""C55 -- Log formatting never raises: bounded stand-in (contracts/parts/C55_bounded.py)."""
from contracts._parts import bounded, EXPLORATION_NOTE

CONTRACTS = []
BOUNDED = bounded("C55")
_SCOPE = ("formatEvent / eventAsText / formatEventAsClassicLogText / formatUnformattableEvent and the legacy "
          "textFromEventDict / _safeFormat on a grammar of format strings (every string over {}a.[]()!:r0 up to length 4, "
          "14 roots x 41 lookup/call paths x 7 conversions x 21 specs x 14 contexts) with 33 kinds of hostile values "
          "(str/repr/format raising Exception or BaseException, returning non-text, unprintable exceptions), odd "
          "log_time / log_system / log_level / log_namespace / log_failure values and their 2-way combinations; "
          "oracle: the call returns and the result is str (None where documented)")
NOTES = dict(explanation=_SCOPE, not_covered=["deductive contracts (str.format mini-language and arbitrary __format__ "
                                              "call-outs are outside the engine's decidable fragment)"])
MANIFEST = dict(
    category="exploration",
    text="Bounded stand-in only, on the real code: " + _SCOPE + ".",
    note=EXPLORATION_NOTE,
    technique="bounded exhaustive evaluation of an executable contract on the real code (stand-in; not proved)",
)
