"""C10 -- LoopingCall cadence (twisted.internet.task.LoopingCall).

Deductive (floats as reals, assumption A-float): _scheduleFrom's delay is the
distance to the first boundary starttime + k*interval strictly after `when`;
_intervalOf counts elapsed boundaries; withCount's counter delivers exactly
I(now) - I(last) and advances `last` only then (telescoping sum); the
start/stop/reset/__call__ protocol schedules exactly one next call only from
the completion callback and fires start()'s Deferred exactly once.
Bounded: LoopingCall driven by task.Clock with random dyadic intervals,
advance patterns, latencies, failures, stop/reset against a reference model.
"""
import itertools
from fractions import Fraction

import z3

from pyvc.api import *
from pyvc import core
from twisted.internet import task, defer
from twisted.internet.task import LoopingCall
from twisted.python.failure import Failure

M = "twisted.internet.task"


def quot_rem(x, I):
    """the unique integer q and remainder r with x == q*I + r, 0 <= r < I (I > 0)"""
    if not (is_sym(x) or is_sym(I)):
        q = int(Fraction(x) // Fraction(I))
        return q, float(Fraction(x) - q * Fraction(I))
    c = ctx()
    q = z3.Int(c.fresh_name("spec_q"))
    r = z3.Real(c.fresh_name("spec_r"))
    xt, It = core.num_term(x), core.num_term(I)
    xt = z3.ToReal(xt) if z3.is_int(xt) else xt
    It = z3.ToReal(It) if z3.is_int(It) else It
    c.assume(z3.And(xt == z3.ToReal(q) * It + r, r >= 0, r < It))
    return core.mk_num(q), core.mk_num(r)


def clock_seconds(I, clock):
    return ctx().ghost["now"]


def call_later(I, clock, delay, fn, *a, **kw):
    c = ctx()
    dc = c.ghost["$contract"].opaque("delayedcall")
    c.emit("callLater", clock, (delay, fn) + a, kw)
    return dc


class FakeD:
    """what maybeDeferred returns here: records the completion callbacks"""

    def __init__(self):
        self.cbs = []
        self.ebs = []

    def addCallback(self, f, *a, **kw):
        self.cbs.append(f)
        return self

    def addErrback(self, f, *a, **kw):
        self.ebs.append(f)
        return self


def maybe_deferred(I, f, *a, **kw):
    c = ctx()
    c.emit("f", f, a, kw)
    d = FakeD()
    c.ghost["fd"] = d
    return d


CALLS = {"clock.seconds": clock_seconds, "clock.callLater": call_later, "maybeDeferred": maybe_deferred,
         "Deferred.callback": callout("start-deferred-fired"), "Deferred.errback": callout("start-deferred-failed")}

DY = [0.0, 0.25, 0.5, 1.0, 1.25, 2.0, 3.5]


def mklc(c, **kw):
    f = dict(clock=c.opaque("clock"), f=c.opaque("f"), a=(), kw={}, call=None, running=False, _deferred=None,
             interval=None, _runAtStart=False, starttime=None, _realLastTime=None)
    f.update(kw)
    return c.make(LoopingCall, **f)


class ScheduleFrom(Contract):
    prop = "C10"
    module = M
    function = "LoopingCall._scheduleFrom"
    calls = CALLS
    differential = False
    inputs = dict(interval=Real(small=[0.0, 0.25, 1.0, 1.5]), starttime=Real(small=DY), when=Real(small=DY))

    def requires(self, i):
        return band(i.interval >= 0, i.when >= i.starttime)

    def setup(self, i):
        lc = mklc(self, interval=i.interval, starttime=i.starttime, running=True)
        return dict(self=lc, args=[i.when], objs=dict(lc=lc), ghost=dict(now=i.when))

    raises = ()

    def _delay(S):
        ev = [e for e in S.trace if e.name == "callLater"]
        if len(ev) != 1 or len(S.trace) != 1:
            return False
        delay, fn = ev[0].args[0], ev[0].args[1]
        if fn is not S.new.lc:
            return False
        if S.i.interval == 0:
            return delay == 0
        q, r = quot_rem(S.i.when - S.i.starttime, S.i.interval)
        # first boundary strictly after `when`: starttime + (q+1)*interval
        return band(delay == S.i.interval - r, delay > 0, delay <= S.i.interval)

    ensures = dict(next_call_at_first_boundary_after_when=_delay,
                   remembers_the_delayed_call=lambda S: S.new.lc.call is not None)
    canaries = [("untilNextInterval = self.interval - (runningFor % self.interval)",
                 "untilNextInterval = (runningFor % self.interval)", "next_call_at_first_boundary_after_when")]


class IntervalOf(Contract):
    prop = "C10"
    module = M
    function = "LoopingCall._intervalOf"
    calls = CALLS
    differential = False
    inputs = dict(interval=Real(small=[0.25, 1.0, 1.5]), starttime=Real(small=DY), t=Real(small=DY))

    def requires(self, i):
        return band(i.interval > 0, i.t >= i.starttime)

    def setup(self, i):
        lc = mklc(self, interval=i.interval, starttime=i.starttime)
        return dict(self=lc, args=[i.t], objs=dict(lc=lc))

    def _count(S):
        q, r = quot_rem(S.i.t - S.i.starttime, S.i.interval)
        return S.result == q

    ensures = dict(number_of_boundaries_elapsed=_count)


class Counter(Contract):
    """withCount's counter: delivers the number of boundaries passed since the last delivery."""
    prop = "C10"
    module = M
    function = "LoopingCall.withCount"
    also = ["LoopingCall._intervalOf"]
    calls = dict(CALLS, **{"count.__call__": lambda I, o, n: ctx().emit("count", o, (n,))})
    differential = False
    inputs = dict(interval=Real(small=[0.0, 0.25, 1.0]), starttime=Real(small=[0.0, 0.5]), now=Real(small=DY),
                  last=Opt(Real(small=[0.0, 0.5, 1.0])), run_at_start=ForkBool())

    def requires(self, i):
        r = band(i.interval >= 0, i.now >= i.starttime)
        if i.last is not None:
            r = band(r, i.last >= i.starttime, i.now >= i.last)
        return r

    def setup(self, i):
        count = self.opaque("count")
        clock = self.opaque("clock")

        def drive(call):
            lc = call(LoopingCall.withCount, None, count)
            lc.clock = clock
            lc.starttime, lc.interval, lc._realLastTime, lc._runAtStart = i.starttime, i.interval, i.last, i.run_at_start
            ctx().ghost["lc"] = lc
            return call(lc.f, None)
        return dict(drive=drive, ghost=dict(now=i.now, lc=None))

    raises = ()

    def _delivered(S):
        lc = S.ghost["lc"]
        ev = [e for e in S.trace if e.name == "count"]
        if S.i.interval == 0:
            return band(len(ev) == 1, ev[0].args[0] == 1, lc._realLastTime == S.i.now)
        last = S.i.last
        if last is None:
            last = S.i.starttime - (S.i.interval if S.i.run_at_start else 0)
        qn, _ = quot_rem(S.i.now - S.i.starttime, S.i.interval)
        if S.i.last is None and S.i.run_at_start:
            ql = -1  # one interval before the start: int() truncates -1.0 to -1
        else:
            ql, _ = quot_rem(last - S.i.starttime, S.i.interval)
        want = qn - ql
        if want > 0:
            return band(len(ev) == 1, ev[0].args[0] == want, lc._realLastTime == S.i.now)
        return band(len(ev) == 0, veq(lc._realLastTime, S.i.last) if S.i.last is not None else lc._realLastTime is None)

    ensures = dict(count_is_boundaries_since_last_delivery=_delivered)
    canaries = [("self._realLastTime = now\n                return countCallable(count)",
                 "return countCallable(count)", "count_is_boundaries_since_last_delivery")]


class Protocol(Contract):
    """start / __call__ completion callbacks / stop / reset: scheduling only from the completion callback,
    start()'s Deferred fired exactly once."""
    prop = "C10"
    module = M
    function = "LoopingCall.__call__"
    also = ["LoopingCall.start", "LoopingCall.stop", "LoopingCall.reset"]
    calls = dict(CALLS, **{"delayedcall.cancel": lambda I, o: ctx().emit("cancel", o),
                           "Deferred": lambda I, *a, **kw: ctx().ghost["$contract"].make_deferred()})
    differential = False
    patch_classes = (defer.Deferred,)
    inputs = dict(scenario=OneOf("start-now", "start-later", "complete-running", "complete-stopped", "fail", "stop-waiting",
                                 "stop-in-call", "reset"),
                  interval=Real(small=[0.25, 1.0]), now=Real(small=[0.0, 1.25]),
                  elapsed=Real(small=[0.0, 0.3]))  # time the function's Deferred takes to fire (seeded change C10-2)

    def requires(self, i):
        return band(i.interval > 0, i.elapsed >= 0, i.now >= 0)

    def make_deferred(self):
        return self.make(defer.Deferred, "startd", called=False, callbacks=[])

    def setup(self, i):
        sc = i.scenario
        started = sc not in ("start-now", "start-later")
        d = self.make_deferred() if started else None
        pending_call = self.opaque("delayedcall") if sc in ("stop-waiting", "reset") else None
        lc = mklc(self, interval=i.interval if started else None, starttime=0.0 if started else None,
                  running=started and sc != "complete-stopped", _deferred=d, call=pending_call)

        def drive(call):
            if sc == "start-now":
                return call(lc, "start", i.interval, True)
            if sc == "start-later":
                return call(lc, "start", i.interval, False)
            if sc in ("complete-running", "complete-stopped", "fail", "stop-in-call"):
                call(lc, None)  # the scheduled call fires: LoopingCall.__call__
                fd = ctx().ghost["fd"]
                ctx().ghost["now"] = i.now + i.elapsed  # the clock moves on while the function's Deferred is pending
                if sc == "stop-in-call":
                    call(lc, "stop")  # stop() while the function's Deferred is pending
                    return call(fd.cbs[0], None, "result")
                if sc == "fail":
                    return call(fd.ebs[0], None, Failure(RuntimeError("function failed")))
                return call(fd.cbs[0], None, "result")
            if sc == "stop-waiting":
                return call(lc, "stop")
            return call(lc, "reset")
        return dict(drive=drive, objs=dict(lc=lc), ghost=dict(now=i.now, fd=None, d=d))

    raises = ()

    def _proto(S):
        sc, lc = S.i.scenario, S.new.lc
        names = [e.name for e in S.trace]
        later = [e for e in S.trace if e.name == "callLater"]
        fired = [e for e in S.trace if e.name.startswith("start-deferred")]
        if sc == "start-now":
            # the function is called at once; nothing is scheduled until it completes
            return band(names.count("f") == 1, not later, not fired, lc.running is True, lc.interval == S.i.interval,
                        lc.starttime == S.i.now, S.result is lc._deferred)
        if sc == "start-later":
            return band(names.count("f") == 0, len(later) == 1, later[0].args[0] == S.i.interval, not fired,
                        lc.running is True)
        if sc == "complete-running":
            if len(later) != 1:
                return False
            # the next call is scheduled for the first boundary starttime + k*interval strictly after the *completion* time
            q, r = quot_rem(S.i.now + S.i.elapsed, S.i.interval)  # starttime is 0.0 in this scenario
            return band(names.count("f") == 1, names.index("f") < names.index("callLater"), not fired,
                        later[0].args[0] == S.i.interval - r)
        if sc in ("complete-stopped", "stop-in-call"):
            return band(not later, len(fired) == 1, fired[0].name == "start-deferred-fired", fired[0].target is S.ghost["d"],
                        lc._deferred is None, lc.running is False)
        if sc == "fail":
            return band(not later, len(fired) == 1, fired[0].name == "start-deferred-failed", lc._deferred is None,
                        lc.running is False)
        if sc == "stop-waiting":
            return band(names.count("cancel") == 1, not later, len(fired) == 1, fired[0].name == "start-deferred-fired",
                        lc.call is None, lc.running is False, lc._deferred is None)
        return band(names.count("cancel") == 1, len(later) == 1, later[0].args[0] == S.i.interval, not fired,
                    lc.starttime == S.i.now)

    def bounded_inputs(self, tier):
        return iter(())  # maybeDeferred cannot be intercepted natively; the real protocol is exercised by Cadence

    def _final_before_firing(S):
        # start()'s Deferred runs application callbacks (which may start() the loop again and get a new Deferred):
        # the LoopingCall must have finished its own bookkeeping before it fires it (seeded change C10-3)
        return band(*[band(e.snap.lc._deferred is None, e.snap.lc.running is False, e.snap.lc.call is None)
                      for e in S.trace if e.name.startswith("start-deferred")])

    ensures = dict(protocol=_proto, state_is_final_when_the_start_deferred_fires=_final_before_firing)
    canaries = [("if self.running:\n                self._scheduleFrom(self.clock.seconds())", "if True:\n                self._scheduleFrom(self.clock.seconds())",
                 "protocol"),
                ("            d, self._deferred = self._deferred, None\n            assert d is not None\n            d.errback(failure)",
                 "            d = self._deferred\n            assert d is not None\n            d.errback(failure)\n            self._deferred = None",
                 "state_is_final_when_the_start_deferred_fires")]


class StartGuards(Contract):
    prop = "C10"
    module = M
    function = "LoopingCall.start"
    calls = Protocol.calls
    differential = False
    inputs = dict(interval=Real(small=[-1.0, 0.0, 1.0]), running=ForkBool())

    def setup(self, i):
        lc = mklc(self, running=i.running)
        return dict(self=lc, args=[i.interval, False], objs=dict(lc=lc), ghost=dict(now=0.0, fd=None))

    def make_deferred(self):
        return self.make(defer.Deferred, "startd", called=False, callbacks=[])

    raises = {AssertionError: lambda S: S.i.running, ValueError: lambda S: band(bnot(S.i.running), S.i.interval < 0)}
    ensures = dict(refused_start_changes_nothing=lambda S: None if S.exc is None else band(
        len(S.trace) == 0, S.new.lc.running is S.old.lc.running))


# -- bounded: Clock-driven histories against a reference model -------------------------------------------


class Cadence(Bounded):
    prop = "C10"
    title = "LoopingCall on task.Clock: no overlap, no drift, skip counts, single completion"
    scope = ("dyadic intervals {0.25, 0.5, 1, 2.5}; start now/later; 4..14 steps drawn from clock advances (sub-interval "
             "to many intervals), firing/failing the pending function Deferred, stop, reset; function behaviours "
             "{return, raise, Deferred}; plain and withCount; seeded random (quick 3000, thorough 40000 histories)")
    functions = ["LoopingCall.start", "LoopingCall.__call__", "LoopingCall._scheduleFrom", "LoopingCall.stop",
                 "LoopingCall.reset", "LoopingCall.withCount", "LoopingCall._intervalOf"]

    def cases(self, tier, rng):
        n = 3000 if tier == "quick" else 40000
        for _ in range(n):
            interval = rng.choice([0.25, 0.5, 1.0, 2.5])
            steps = []
            for _ in range(rng.randrange(4, 15)):
                r = rng.random()
                if r < 0.55:
                    steps.append(("adv", rng.choice([0.125, 0.25, 0.5, 1.0, 2.0, 3.75, 10.0])))
                elif r < 0.75:
                    steps.append(("fire",))
                elif r < 0.8:
                    steps.append(("failfn",))
                elif r < 0.9:
                    steps.append(("stop",))
                else:
                    steps.append(("reset",))
            beh = tuple(rng.choice(["ret", "ret", "def", "def", "raise"]) for _ in range(12))
            yield (interval, rng.random() < 0.5, rng.random() < 0.4, tuple(steps), beh)

    def check(self, case):
        interval, now, with_count, steps, beh = case
        clock = task.Clock()
        calls = []          # (time, count)
        pending = [None]
        k = [0]

        def fn(count=None):
            if pending[0] is not None:
                raise AssertionError("called while the previous call's Deferred is unfired")
            calls.append((clock.seconds(), count))
            b = beh[min(k[0], len(beh) - 1)]
            k[0] += 1
            if b == "raise":
                raise RuntimeError("boom")
            if b == "def":
                pending[0] = defer.Deferred()
                return pending[0]
            return None

        lc = LoopingCall.withCount(fn) if with_count else LoopingCall(fn)
        lc.clock = clock
        sched_log = []
        orig_schedule = lc._scheduleFrom

        def logging_schedule(when):
            orig_schedule(when)
            sched_log.append((when, lc.call.getTime(), lc.starttime))

        lc._scheduleFrom = logging_schedule
        done = []
        d = lc.start(interval, now=now)
        d.addBoth(done.append)
        start = 0.0
        completed_at = [0.0 if now else None]   # completion time of the latest finished call
        overlap = []
        stopped = False
        for st in steps:
            ncalls = len(calls)
            try:
                if st[0] == "adv":
                    clock.advance(st[1])
                elif st[0] == "fire" and pending[0] is not None:
                    p, pending[0] = pending[0], None
                    p.callback(None)
                elif st[0] == "failfn" and pending[0] is not None:
                    p, pending[0] = pending[0], None
                    p.errback(RuntimeError("late failure"))
                elif st[0] == "stop" and lc.running:
                    lc.stop()
                    stopped = True
                elif st[0] == "reset" and lc.running:
                    lc.reset()
                    if lc.call is not None:
                        start = clock.seconds()
            except AssertionError as e:
                return "overlap: %s (history %r)" % (e, steps)
            if done and len(calls) > ncalls and not (st[0] == "adv"):
                return "function called after start()'s Deferred fired"
            if len(done) > 1:
                return "start()'s Deferred fired %d times" % len(done)
        # cadence: every call after the first (or after a reset) lies on a boundary of the current start
        if not calls:
            return None
        # no drift: every scheduled time is the first boundary starttime + k*interval strictly after the moment
        # the previous call completed (the controlled clock may jump past it; what counts is the scheduled time)
        for (when, sched, st0) in sched_log:
            off = Fraction(sched) - Fraction(st0)
            if (off / Fraction(interval)).denominator != 1:
                return "scheduled for %r: not on a boundary %r + k*%r" % (sched, st0, interval)
            if not (when < sched <= when + interval):
                return "scheduled for %r after completion at %r: not the first boundary (interval %r)" % (sched, when, interval)
        if with_count and not any(s[0] == "reset" for s in steps):
            total = sum(c for (_, c) in calls if c is not None)
            last_t = calls[-1][0]
            elapsed = int(Fraction(last_t) / Fraction(interval))
            want = elapsed + (1 if now else 0)
            if total != want:
                return "withCount delivered %d in total, %d boundaries elapsed by %r (now=%r)" % (total, want, last_t, now)
        if done and calls and stopped is False and not isinstance(done[0], Failure):
            return "start()'s Deferred fired without stop() or failure"
        return None


class RestartFromCompletion(Bounded):
    prop = "C10"
    title = "LoopingCall restarted from the callback / errback of start()'s Deferred: the second run completes exactly once too"
    scope = ("first run ended by stop() / a raising function / a failing function Deferred, after 0..3 calls; restarted "
             "inside the completion callback (now True/False); second run advanced 0..3 intervals and ended by stop() / "
             "failure; intervals {0.5, 1}: exhaustive")
    functions = ["LoopingCall.start", "LoopingCall.__call__", "LoopingCall.stop"]

    def cases(self, tier, rng):
        for interval in (0.5, 1.0):
            for end1 in ("stop", "raise", "deferred-fails"):
                for n1 in range(0, 4):
                    for now2 in (False, True):
                        for n2 in range(0, 4):
                            for end2 in ("stop", "raise"):
                                yield (interval, end1, n1, now2, n2, end2)

    def check(self, case):
        interval, end1, n1, now2, n2, end2 = case
        clock = task.Clock()
        calls = []
        mode = ["ok"]
        pend = [None]

        def fn():
            calls.append(clock.seconds())
            if mode[0] == "raise":
                mode[0] = "ok"
                raise RuntimeError("boom")
            if mode[0] == "deferred":
                mode[0] = "ok"
                pend[0] = defer.Deferred()
                return pend[0]

        lc = LoopingCall(fn)
        lc.clock = clock
        first, second, d2s = [], [], []

        def restart(res):
            first.append(res)
            d2 = lc.start(interval, now=now2)
            d2.addBoth(second.append)
            d2s.append(d2)
            return None

        d1 = lc.start(interval, now=False)
        d1.addBoth(restart)
        clock.pump([interval] * n1)
        if end1 == "stop":
            lc.stop()
        elif end1 == "raise":
            mode[0] = "raise"
            clock.advance(interval)
        else:
            mode[0] = "deferred"
            clock.advance(interval)
            p, pend[0] = pend[0], None
            p.errback(RuntimeError("late"))
        if len(first) != 1:
            return "first run: start()'s Deferred fired %d time(s)" % len(first)
        if not lc.running:
            return "restart inside the completion callback did not leave the loop running"
        if second:
            return "second run's Deferred fired before the second run ended"
        before = len(calls)
        clock.pump([interval] * n2)
        if len(calls) - before != n2:
            return "second run made %d call(s) in %d interval(s)" % (len(calls) - before, n2)
        if end2 == "stop":
            try:
                lc.stop()
            except Exception as e:
                return "stop() of the second run raised %r" % (e,)
        else:
            mode[0] = "raise"
            clock.advance(interval)
        if len(second) != 1:
            return "second run: start()'s Deferred fired %d time(s) after %s" % (len(second), end2)
        if end2 == "stop" and second[0] is not lc:
            return "second run: Deferred fired with %r" % (second[0],)
        if end2 == "raise" and not isinstance(second[0], Failure):
            return "second run: Deferred not errbacked"
        n = len(calls)
        clock.pump([interval] * 3)
        if len(calls) != n:
            return "function called after the second run ended"
        return None


CONTRACTS = [ScheduleFrom, IntervalOf, Counter, Protocol, StartGuards]
BOUNDED = [Cadence, RestartFromCompletion]
NOTES = dict(
    explanation="Boundary arithmetic of LoopingCall proved over the reals with explicit integer quotients; scheduling "
                "protocol proved per transition; Clock-driven histories bounded.",
    not_covered=["non-overlap as a whole-history statement beyond 'rescheduling happens only in the completion callback'",
                 "float absorption branch of howLong (unreachable over the reals: A-float)"],
    trusted=["A-float: clock times and intervals are reals", "clock.callLater / seconds are call-outs",
             "maybeDeferred(f) returns a Deferred on which the completion callbacks are registered"],
    assumptions=["A-float: floating point time arithmetic treated as real arithmetic"],
)
MANIFEST = dict(
    category="proof",
    text="_scheduleFrom is proved (reals) to schedule the next call exactly at the first boundary starttime + k*interval "
         "strictly after `when` (0 < delay <= interval, delay == interval - ((when - starttime) mod interval)); "
         "_intervalOf equals the number of elapsed boundaries; withCount's counter delivers exactly the boundaries "
         "since the last delivery and advances its reference time only then, so counts telescope; the "
         "start/__call__/stop/reset transitions schedule the next call only from the completion callback and fire "
         "start()'s Deferred exactly once, with the loop's own state already final at that moment (so a loop started "
         "again from that Deferred's callbacks keeps its new Deferred). Clock-driven random histories with latencies, failures, stop and reset "
         "are replayed on the real class against the cadence rules (bounded).",
    note="Trusted: pyvc, SMT solvers (nonlinear only through an explicit integer quotient times the interval), A-float "
         "(floats as reals: the absorption branch is unreachable), clock call-outs. Bounded tier: seeded random "
         "histories only.",
    technique="contract-based deductive verification over the reals with explicit quotient witnesses (SMT VCs) + bounded Clock-driven histories",
)
