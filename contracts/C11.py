"""C11 -- Cooperator advances only runnable tasks, completes each once, starves none.

Deductive: the per-task protocol of CooperativeTask (loop free apart from the walk over the completion Deferreds).
_oneWorkUnit under every outcome of next(iterator) -- a value, a Deferred, StopIteration, an Exception, a non-Exception
BaseException: completion happens exactly for exhaustion (TaskDone, result the iterator) and for a raise (TaskFailed,
result a Failure), every whenDone Deferred is fired exactly once, a yielded Deferred pauses the task, takes it out of the
cooperator and hooks resume / failure continuations.  stop(): TaskStopped, completion Deferreds fired once, and a later
failure of the Deferred the task was waiting on changes nothing (the scenario of finding F2 / fix d8cb39d).  pause /
resume / stop on a finished task raise the completion state; resume without pause raises NotPaused.
Bounded (contracts/parts/C11_bounded.py): whole histories on the real Cooperator with a deterministic scheduler.
"""
from pyvc.api import *
from pyvc import core
from contracts._parts import bounded
from twisted.internet import task
from twisted.internet.defer import Deferred
from twisted.python.failure import Failure

M = "twisted.internet.task"


class AnyException(Exception):
    pass


class AnyBaseException(BaseException):
    pass


def mk_failure(I, *a, **kw):
    if a and isinstance(a[0], BaseException):
        return Failure(a[0])
    return Failure(RuntimeError("the exception being handled"))


def next_model(I, it, *default):
    c = ctx()
    how = c.ghost["outcome"]
    c.emit("next", it, (how,))
    if how == "value":
        return c.ghost["$contract"].opaque("value")
    if how == "deferred":
        return c.ghost["yielded"]
    if how == "stop":
        raise StopIteration()
    if how == "exc":
        raise AnyException("iterator failed")
    raise AnyBaseException("iterator failed badly")


CALLS = {"next": next_model, "builtins.next": next_model, "Failure": mk_failure,
         "Deferred.addCallbacks": callout("addCallbacks")}


def mktask(c, outcome="value", pause_count=0, state=None, result=None):
    deferreds = [c.opaque("done1"), c.opaque("done2")]
    yielded = c.make(Deferred, "yielded", called=False, callbacks=[])
    t = c.make(task.CooperativeTask, _iterator=c.opaque("iterator"), _cooperator=c.opaque("cooperator"),
               _deferreds=list(deferreds), _pauseCount=pause_count, _completionState=state, _completionResult=result)
    return t, deferreds, yielded


def fired(S, name):
    return [e for e in S.trace if e.name == name]


def completed_once(S, with_check):
    """each completion Deferred called back exactly once, with a result accepted by with_check"""
    out = True
    for n in ("done1", "done2"):
        ev = fired(S, n + ".callback")
        out = band(out, len(ev) == 1, True if len(ev) != 1 else with_check(ev[0].args[0]), len(fired(S, n + ".errback")) == 0)
    return out


class OneWorkUnit(Contract):
    prop = "C11"
    module = M
    function = "CooperativeTask._oneWorkUnit"
    also = ["CooperativeTask._completeWith", "CooperativeTask.pause"]
    differential = False
    calls = CALLS
    inputs = dict(outcome=OneOf("value", "deferred", "stop", "exc", "base"))
    trusted = ["next(iterator) as a call-out with five representative outcomes (the code discriminates only StopIteration / "
               "BaseException / Deferred-or-not)"]

    def setup(self, i):
        t, deferreds, yielded = mktask(self, i.outcome)
        return dict(self=t, args=[], objs=dict(t=t), ghost=dict(outcome=i.outcome, yielded=yielded, iterator=t._iterator))

    def bounded_inputs(self, tier):
        return iter(())

    raises = ()

    def _protocol(S):
        t, how = S.new.t, S.i.outcome
        nxt = fired(S, "next")
        if len(nxt) != 1:
            return False
        if how == "value":
            return band(t._completionState is None, t._pauseCount == 0, len(S.trace) == 1)
        if how == "deferred":
            hook = fired(S, "addCallbacks")
            return band(t._completionState is None, t._pauseCount == 1, len(fired(S, "cooperator._removeTask")) == 1,
                        len(hook) == 1, hook[0].target is S.ghost["yielded"], len(hook[0].args) == 2,
                        len(fired(S, "done1.callback")) == 0, len(fired(S, "done2.callback")) == 0)
        if how == "stop":
            return band(isinstance(t._completionState, task.TaskDone), t._completionResult is S.ghost["iterator"],
                        completed_once(S, lambda r: r is S.ghost["iterator"]), len(fired(S, "cooperator._removeTask")) == 1)
        return band(isinstance(t._completionState, task.TaskFailed), isinstance(t._completionResult, Failure),
                    completed_once(S, lambda r: isinstance(r, Failure)), len(fired(S, "cooperator._removeTask")) == 1)

    ensures = dict(completes_exactly_for_exhaustion_or_raise_and_once=_protocol)
    canaries = [("except BaseException:", "except Exception:", "raises/unexpected"),
                ("self.pause()", "pass", "completes_exactly_for_exhaustion_or_raise_and_once")]


class StopThenLateFailure(Contract):
    """the task yielded a Deferred, is stopped while waiting, then that Deferred fails: one completion, TaskStopped"""
    prop = "C11"
    module = M
    function = "CooperativeTask._oneWorkUnit"  # the continuation that must ignore the late failure is defined there
    also = ["CooperativeTask.stop", "CooperativeTask._completeWith", "CooperativeTask._checkFinish"]
    differential = False
    calls = CALLS
    inputs = dict(late=OneOf("errback", "callback", "nothing"))

    def setup(self, i):
        t, deferreds, yielded = mktask(self, "deferred")

        def drive(call):
            c = ctx()
            call(t, "_oneWorkUnit")
            hook = [e for e in c.trace if e.name == "addCallbacks"][0]
            on_ok, on_err = hook.args[0], hook.args[1]
            call(t, "stop")
            I = c.ghost["$interp"]
            if i.late == "errback":
                I.call(on_err, [Failure(RuntimeError("late"))])
            elif i.late == "callback":
                I.call(on_ok, [None])
            return None
        return dict(drive=drive, objs=dict(t=t), ghost=dict(outcome="deferred", yielded=yielded, iterator=t._iterator))

    def bounded_inputs(self, tier):
        return iter(())

    raises = ()

    def _once(S):
        t = S.new.t
        return band(isinstance(t._completionState, task.TaskStopped),
                    completed_once(S, lambda r: isinstance(r, Failure) and isinstance(r.value, task.TaskStopped)),
                    # the late result neither completes the task again nor puts it back into the cooperator
                    len(fired(S, "cooperator._addTask")) == 0)

    ensures = dict(stopped_once_and_late_result_ignored=_once)
    canaries = [("if self._completionState is None:", "if True:", "stopped_once_and_late_result_ignored")]


class FinishedOrNotPaused(Contract):
    prop = "C11"
    module = M
    function = "CooperativeTask.resume"
    also = ["CooperativeTask.pause", "CooperativeTask.stop", "CooperativeTask._checkFinish"]
    differential = False
    calls = CALLS
    inputs = dict(op=OneOf("pause", "resume", "stop"), finished=OneOf(None, "done", "failed", "stopped"),
                  paused=Int(lo=0, small=[0, 1, 2]))

    def setup(self, i):
        state = {None: None, "done": task.TaskDone(), "failed": task.TaskFailed(), "stopped": task.TaskStopped()}[i.finished]
        t, deferreds, yielded = mktask(self, "value", pause_count=i.paused, state=state, result=self.opaque("result") if state else None)
        return dict(fn=getattr(task.CooperativeTask, i.op), args=[t], objs=dict(t=t), ghost=dict(state=state))

    def bounded_inputs(self, tier):
        return iter(())

    raises = (task.TaskFinished, task.NotPaused)

    def _matching(S):
        t, st = S.new.t, S.ghost["state"]
        if S.i.op in ("pause", "stop") and st is not None:
            # a finished task refuses with its own completion state and nothing changes
            return band(S.exc is st, len(S.trace) == 0, veq(t._pauseCount, S.old.t._pauseCount))
        if S.i.op == "resume" and S.exc is not None:
            return band(isinstance(S.exc, task.NotPaused), S.i.paused == 0, len(S.trace) == 0)
        if S.i.op == "resume":
            back = len(fired(S, "cooperator._addTask"))
            runnable_again = band(S.i.paused == 1, st is None)
            return band(S.i.paused >= 1, t._pauseCount == S.i.paused - 1,
                        veq(back == 1, runnable_again) if is_sym(runnable_again) else back == (1 if runnable_again else 0))
        if S.i.op == "pause":
            out = len(fired(S, "cooperator._removeTask"))
            first = S.i.paused == 0
            return band(S.exc is None, t._pauseCount == S.i.paused + 1,
                        veq(out == 1, first) if is_sym(first) else out == (1 if first else 0))
        return band(S.exc is None, isinstance(t._completionState, task.TaskStopped))

    ensures = dict(finished_tasks_refuse_with_their_state_and_pause_counts_nest=_matching)
    canaries = [("if self._pauseCount == 0 and self._completionState is None:", "if self._pauseCount == 0:", "finished_tasks_refuse_with_their_state_and_pause_counts_nest")]


CONTRACTS = [OneWorkUnit, StopThenLateFailure, FinishedOrNotPaused]
BOUNDED = bounded("C11")
_SCOPE = ('real Cooperator driven by a deterministic scheduler and a work-unit-count termination predicate: 1 task x 14 scripts (values, Deferreds fired later with success or failure, pre-fired Deferreds, raising) x every history of length <= 5 over {tick, pause, resume, stop, fire-ok, fire-err, whenDone}; 2 tasks (cooperate / coiterate) x histories of length <= 3; removal of tasks during a tick for 2-8 tasks over 14 shapes incl. pausing / stopping a neighbour from inside next(); seeded random histories with 1-8 tasks and 5-60 operations; oracle: a model from the property statement (never advanced while paused / stopped / finished / waiting, whenDone / coiterate Deferreds fire exactly once with the iterator / failure / stop reason, TaskFinished subtypes, bounded wait of 2N+2 work units for a runnable task)')
NOTES = dict(explanation="CooperativeTask's per-task protocol proved (work unit outcomes, stop with a late failure, finished / not-paused refusals); "
                         "scheduling is bounded: " + _SCOPE,
             not_covered=["Cooperator._tick / _tasksWhileNotStopped (which task runs next, fairness: the known findings) and "
                          "coiterate: bounded tier only", "resume() on a task that is only waiting (shared pause count: the known finding)"])
MANIFEST = dict(
    category="proof",
    text="CooperativeTask._oneWorkUnit (with _completeWith and pause) is proved over every outcome of next(iterator): a value "
         "completes nothing; a Deferred pauses the task, removes it from the cooperator and registers the two continuations; "
         "exhaustion completes with TaskDone and the iterator, any raise (Exception or not) with TaskFailed and a Failure, each "
         "whenDone Deferred fired exactly once.  stop() while waiting on a Deferred completes once with TaskStopped and a later "
         "failure or success of that Deferred neither completes again nor re-queues the task.  pause / stop on a finished "
         "task raise its completion state and change nothing, resume without pause raises NotPaused, pause counts nest and "
         "only the outermost pause / resume touches the cooperator.  Which task runs next, fairness and coiterate are "
         "exercised in the bounded tier only: " + _SCOPE + ".",
    note="Trusted: pyvc, SMT solvers, next() / cooperator / completion Deferreds as call-outs, Failure() construction modelled. "
         "Scheduling: bounded, never counted as proved.",
    technique="contract-based deductive verification (symbolic execution with hostile call-outs and driven multi-call scenarios) + bounded exhaustive histories",
)
