"""C11 -- Cooperator advances only runnable tasks, completes each once, starves none: bounded stand-in (contracts/parts/C11_bounded.py)."""
from contracts._parts import bounded, EXPLORATION_NOTE

CONTRACTS = []
BOUNDED = bounded("C11")
_SCOPE = ('real Cooperator driven by a deterministic scheduler and a work-unit-count termination predicate: 1 task x 14 scripts (values, Deferreds fired later with success or failure, pre-fired Deferreds, raising) x every history of length <= 5 over {tick, pause, resume, stop, fire-ok, fire-err, whenDone}; 2 tasks (cooperate / coiterate) x histories of length <= 3; removal of tasks during a tick for 2-8 tasks over 14 shapes incl. pausing / stopping a neighbour from inside next(); seeded random histories with 1-8 tasks and 5-60 operations; oracle: a model from the property statement (never advanced while paused / stopped / finished / waiting, whenDone / coiterate Deferreds fire exactly once with the iterator / failure / stop reason, TaskFinished subtypes, bounded wait of 2N+2 work units for a runnable task)')
NOTES = dict(explanation=_SCOPE, not_covered=["deductive contracts on the anchored functions (not built)"])
MANIFEST = dict(
    category="exploration",
    text="Bounded stand-in only, on the real code: " + _SCOPE + ".",
    note=EXPLORATION_NOTE,
    technique="bounded exhaustive evaluation of an executable contract on the real code (stand-in; not proved)",
)
